#!/bin/bash
# Build every engine from files on disk only (offline). Run once after a fresh restore.
set -e
export CARGO_NET_OFFLINE=true
cd /verif/sim
cargo build --offline -q --workspace
if [ -x /verif/sim/mirisim/run.sh ]; then
  /verif/sim/mirisim/run.sh --build-only || true
fi
echo "setup ok"
