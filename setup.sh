#!/bin/bash
# Build every engine from files on disk only (offline). Run once after a fresh restore.
set -e
export CARGO_NET_OFFLINE=true
cd /verif/sim
cargo build --offline -q --workspace
# Second build configuration of dagsim (small constants + low-mem-usage sync limits).
RUSTFLAGS="--cfg aranya_verif --cfg aranya_verif_knobs" cargo build --offline -q -p dagsim --features low-mem --target-dir /verif/target-knobs
# Warm the Miri build (its own target dir) so the first C33 check does not pay for it.
if [ -x /verif/sim/mirisim/run.sh ]; then
  VERIF_EVIDENCE_DIR=/tmp /verif/sim/mirisim/run.sh C33 --tier quick --evidence /tmp/mirisim-warmup.json >/dev/null 2>&1 || true
  rm -f /tmp/mirisim-warmup.json
fi
echo "setup ok"
