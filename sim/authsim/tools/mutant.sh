#!/bin/bash
# usage: tools/mutant.sh <patch.diff|-> <engine> <engine args...>
# Applies the patch to a scratch worktree of /repo (never to /repo itself), builds a copy of
# the engines against it and runs one. Prints the engine's exit code. Scratch lives in /tmp/vmut.
set -u
PATCH="$1"; ENGINE="$2"; shift 2
W=/tmp/vmut-authsim
mkdir -p $W
if [ ! -d $W/repo ]; then git -C /repo worktree add --detach $W/repo HEAD >/dev/null 2>&1 || exit 2; fi
git -C $W/repo checkout -q --detach "$(git -C /repo rev-parse HEAD)" 2>/dev/null
git -C $W/repo checkout -q -- . ; git -C $W/repo clean -fdq -e target
if [ "$PATCH" != "-" ]; then git -C $W/repo apply "$PATCH" || { echo "patch does not apply"; exit 2; }; fi
rsync -a --delete --exclude target /verif/sim/ $W/sim/
find $W/sim -name Cargo.toml -o -name 'Cargo.toml.in' | xargs sed -i "s#/repo/#$W/repo/#g"
sed -i "s#/verif/target#$W/target#" $W/sim/.cargo/config.toml
cd $W/sim && cargo build --offline -q -p "$ENGINE" 2>&1 | grep -E "^error" -A8 | head -30
if [ "$ENGINE" = dagsim ]; then
  RUSTFLAGS="--cfg aranya_verif --cfg aranya_verif_knobs" cargo build --offline -q -p dagsim --features low-mem --target-dir $W/target-knobs 2>&1 | grep -E "^error" -A8 | head -30
  export DAGSIM_ALT_BIN=$W/target-knobs/debug/dagsim
fi
VERIF_MUTANT=1 $W/target/debug/$ENGINE "$@"
echo "exit=$?"
