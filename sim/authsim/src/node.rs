//! A node: the real `ClientState` with the real `VmPolicy` on the shipped signing policy, the real
//! crypto engine seeded from the run seed, the real FFIs over an in-memory key store.

use std::{
    cell::{Cell, RefCell},
    collections::BTreeMap,
    panic::{AssertUnwindSafe, catch_unwind},
};

use aranya_crypto::{
    CipherSuite, Csprng, DeviceId, IdentityKey, KeyStoreExt as _, SigningKey,
    id::IdExt as _,
    default::{DefaultCipherSuite, DefaultEngine},
    keystore::memstore::MemStore,
};
use aranya_crypto_ffi::Ffi as CryptoFfi;
use aranya_device_ffi::FfiDevice as DeviceFfi;
use aranya_envelope_ffi::Ffi as EnvelopeFfi;
use aranya_idam_ffi::Ffi as IdamFfi;
use aranya_perspective_ffi::FfiPerspective as PerspectiveFfi;
use aranya_policy_compiler::Compiler;
use aranya_policy_lang::lang::parse_policy_document;
use aranya_policy_vm::{
    Machine,
    ffi::{FfiModule as _, ModuleSchema},
};
use aranya_runtime::{
    Address, ClientState, CmdId, Command, FfiCallable, PolicyError, PolicyId, PolicyStore, Prior, Priority,
    RuntimeBuffers, Sink, VmEffect, VmPolicy,
    storage::linear::{LinearStorageProvider, testing::Manager as MemManager},
};

/// The signing policy shipped with the repository (used verbatim).
pub const FFI_POLICY: &str = include_str!("/repo/crates/aranya-model/src/tests/ffi-policy.md");

pub type CS = DefaultCipherSuite;
pub type Eng = DefaultEngine<SimCsprng, CS>;
pub type SP = LinearStorageProvider<MemManager>;
pub type Client = ClientState<Store, SP>;

// ------------------------------------------------------------ seeded randomness

/// Deterministic CSPRNG: every byte of key material, wrapping nonce and session id is a pure
/// function of the run seed.
pub struct SimCsprng(pub Cell<u64>);

impl SimCsprng {
    pub fn new(seed: u64) -> Self {
        Self(Cell::new(seed))
    }
}

impl Csprng for SimCsprng {
    fn fill_bytes(&self, dst: &mut [u8]) {
        let mut s = self.0.get();
        for b in dst.iter_mut() {
            *b = (vcommon::splitmix(&mut s) & 0xff) as u8;
        }
        self.0.set(s);
    }
}

// ------------------------------------------------------------ what a hashing adversary can do

/// The command id exactly as the verifier derives it, from public data only (aranya-crypto
/// `Cmd::digest` + `policy::cmd_id`): digest = TupleHash("SignPolicyCommand-v1", suite OIDs,
/// author signing-key id, name, parent id, payload); id = Id("PolicyCommandId-v1", digest, signature).
/// No private key is involved, so a transport adversary can recompute it after changing a field.
pub fn recompute_cmd_id(sign_key_id: &[u8], name: &str, parent_id: &CmdId, payload: &[u8], signature: &[u8]) -> CmdId {
    use aranya_crypto::dangerous::spideroak_crypto::hash::tuple_hash;
    let digest = tuple_hash::<<CS as CipherSuite>::Hash, _>(
        core::iter::once(&b"SignPolicyCommand-v1"[..])
            .chain(<CS as CipherSuite>::OIDS.into_iter().map(|o| o.as_bytes()))
            .chain([sign_key_id, name.as_bytes(), parent_id.as_bytes(), payload]),
    );
    CmdId::new::<CS>(b"PolicyCommandId-v1", [digest.as_bytes(), signature])
}

// ------------------------------------------------------------ panics

thread_local! {
    static LAST_PANIC: RefCell<Option<String>> = const { RefCell::new(None) };
    static MACHINE: RefCell<Option<Machine>> = const { RefCell::new(None) };
}

pub fn install_quiet_panic_hook() {
    std::panic::set_hook(Box::new(|info| {
        let msg = if let Some(s) = info.payload().downcast_ref::<&str>() {
            (*s).to_string()
        } else if let Some(s) = info.payload().downcast_ref::<String>() {
            s.clone()
        } else {
            "non-string panic".to_string()
        };
        let loc = info.location().map(|l| format!("{}:{}", l.file().rsplit('/').next().unwrap_or(""), l.line())).unwrap_or_default();
        LAST_PANIC.with(|p| *p.borrow_mut() = Some(format!("{msg} @ {loc}")));
    }));
}

pub enum Guarded<T> {
    Done(T),
    Panicked(String),
}

pub fn guarded<T>(f: impl FnOnce() -> T) -> Guarded<T> {
    match catch_unwind(AssertUnwindSafe(f)) {
        Ok(v) => Guarded::Done(v),
        Err(_) => Guarded::Panicked(LAST_PANIC.with(|p| p.borrow_mut().take()).unwrap_or_else(|| "panic".into())),
    }
}

// ------------------------------------------------------------ policy machine

const FFI_SCHEMAS: &[ModuleSchema<'static>] =
    &[DeviceFfi::SCHEMA, EnvelopeFfi::SCHEMA, PerspectiveFfi::SCHEMA, CryptoFfi::<MemStore>::SCHEMA, IdamFfi::<MemStore>::SCHEMA];

/// Parse + compile the policy document with the real compiler, once per worker thread.
pub fn machine() -> Machine {
    MACHINE.with(|m| {
        let mut m = m.borrow_mut();
        if m.is_none() {
            let ast = parse_policy_document(FFI_POLICY).unwrap_or_else(|e| vcommon::harness_error(&format!("policy does not parse: {e}")));
            let module = Compiler::new(&ast).ffi_modules(FFI_SCHEMAS).compile().unwrap_or_else(|e| vcommon::harness_error(&format!("policy does not compile: {e}")));
            *m = Some(Machine::from_module(module).unwrap_or_else(|e| vcommon::harness_error(&format!("cannot load module: {e}"))));
        }
        m.as_ref().expect("set above").clone()
    })
}

// ------------------------------------------------------------ policy store

/// Same shape as `aranya_model::ModelPolicyStore`: one `VmPolicy` for every policy id.
pub struct Store {
    policy: VmPolicy<Eng>,
}

impl PolicyStore for Store {
    type Policy = VmPolicy<Eng>;
    type Effect = VmEffect;

    fn add_policy(&mut self, policy: &[u8]) -> Result<PolicyId, PolicyError> {
        Ok(PolicyId::new(policy.first().copied().unwrap_or(0).into()))
    }

    fn get_policy(&self, _id: PolicyId) -> Result<&Self::Policy, PolicyError> {
        Ok(&self.policy)
    }
}

// ------------------------------------------------------------ commands (owned)

#[derive(Clone, Debug, PartialEq, Eq, PartialOrd, Ord)]
pub struct OwnedCmd {
    pub id: CmdId,
    pub priority: Priority,
    pub parent: Prior<Address>,
    pub policy: Option<Vec<u8>>,
    pub data: Vec<u8>,
}

impl OwnedCmd {
    pub fn of(c: &impl Command) -> Self {
        Self { id: c.id(), priority: c.priority(), parent: c.parent(), policy: c.policy().map(<[u8]>::to_vec), data: c.bytes().to_vec() }
    }

    pub fn max_cut(&self) -> u64 {
        match self.parent {
            Prior::None => 0,
            Prior::Single(p) => p.max_cut.get().saturating_add(1),
            Prior::Merge(l, r) => l.max_cut.get().max(r.max_cut.get()).saturating_add(1),
        }
    }

    pub fn parent_ids(&self) -> Vec<CmdId> {
        match self.parent {
            Prior::None => vec![],
            Prior::Single(p) => vec![p.id],
            Prior::Merge(l, r) => vec![l.id, r.id],
        }
    }

    /// Stable digest of every transported field.
    pub fn digest(&self) -> u64 {
        let mut v = Vec::with_capacity(self.data.len() + 128);
        v.extend_from_slice(self.id.as_bytes());
        v.extend_from_slice(format!("{:?}|{:?}|{:?}|", self.priority, self.parent, self.policy).as_bytes());
        v.extend_from_slice(&self.data);
        vcommon::fnv(&v)
    }
}

impl Command for OwnedCmd {
    fn priority(&self) -> Priority {
        self.priority.clone()
    }
    fn id(&self) -> CmdId {
        self.id
    }
    fn parent(&self) -> Prior<Address> {
        self.parent
    }
    fn policy(&self) -> Option<&[u8]> {
        self.policy.as_deref()
    }
    fn bytes(&self) -> &[u8] {
        &self.data
    }
}

// ------------------------------------------------------------ recording sink (stub)

#[derive(Clone, Debug, PartialEq, Eq)]
pub enum SinkEv {
    Begin,
    Effect { cmd: CmdId, what: String },
    Rollback,
    Commit,
}

/// Records the calls the runtime makes; effects become visible ("committed") only at `commit`.
#[derive(Default)]
pub struct RecSink {
    pub log: Vec<SinkEv>,
    pending: Vec<(CmdId, String)>,
    pub committed: Vec<(CmdId, String)>,
    pub rolled_back: u64,
}

impl Sink<VmEffect> for RecSink {
    fn begin(&mut self) {
        self.log.push(SinkEv::Begin);
    }
    fn consume(&mut self, e: VmEffect) {
        let what = format!("{e}");
        self.log.push(SinkEv::Effect { cmd: e.command, what: what.clone() });
        self.pending.push((e.command, what));
    }
    fn rollback(&mut self) {
        self.log.push(SinkEv::Rollback);
        self.rolled_back += self.pending.len() as u64;
        self.pending.clear();
    }
    fn commit(&mut self) {
        self.log.push(SinkEv::Commit);
        self.committed.append(&mut self.pending);
    }
}

// ------------------------------------------------------------ node

pub struct Node {
    #[allow(dead_code)]
    pub idx: usize,
    pub client: Client,
    pub buffers: RuntimeBuffers<<SP as aranya_runtime::StorageProvider>::Segment>,
    pub device_id: DeviceId,
    /// postcard encodings of the public keys, as the policy's actions take them
    pub ident_pk: Vec<u8>,
    pub sign_pk: Vec<u8>,
    /// Id of the public signing key (public data: derived from `sign_pk`).
    pub sign_key_id: Vec<u8>,
    // shadow
    pub has_graph: bool,
    pub registered: bool,
    /// What the node's committed graph holds: id -> digest of the stored command.
    pub held: BTreeMap<CmdId, u64>,
    /// Digest of the committed facts at the last scan.
    pub facts: u64,
}

impl Node {
    pub fn new(idx: usize, run_seed: u64) -> Self {
        let seed = vcommon::mix(run_seed ^ vcommon::fnv(b"crypto"), idx as u64 + 1);
        let (eng, _root) = Eng::from_entropy(SimCsprng::new(seed));
        let mut store = MemStore::new();
        let ident = IdentityKey::<CS>::new(&eng);
        let sign = SigningKey::<CS>::new(&eng);
        let ident_pub = ident.public().unwrap_or_else(|e| vcommon::harness_error(&format!("identity public key: {e}")));
        let sign_pub = sign.public().unwrap_or_else(|e| vcommon::harness_error(&format!("signing public key: {e}")));
        let device_id: DeviceId = store.insert_key(&eng, ident).unwrap_or_else(|e| vcommon::harness_error(&format!("key store insert: {e}")));
        let _sign_id = store.insert_key(&eng, sign).unwrap_or_else(|e| vcommon::harness_error(&format!("key store insert: {e}")));
        let ffis: Vec<Box<dyn FfiCallable<Eng> + Send + 'static>> = vec![
            Box::from(DeviceFfi::new(device_id)),
            Box::from(EnvelopeFfi),
            Box::from(PerspectiveFfi),
            Box::from(CryptoFfi::new(store.clone())),
            Box::from(IdamFfi::new(store)),
        ];
        let policy = VmPolicy::new(machine(), eng, ffis).unwrap_or_else(|e| vcommon::harness_error(&format!("VmPolicy::new: {e}")));
        Self {
            idx,
            client: ClientState::new(Store { policy }, SP::default()),
            buffers: RuntimeBuffers::new(),
            device_id,
            ident_pk: postcard::to_allocvec(&ident_pub).expect("serialises"),
            sign_pk: postcard::to_allocvec(&sign_pub).expect("serialises"),
            sign_key_id: sign_pub.id().unwrap_or_else(|e| vcommon::harness_error(&format!("signing key id: {e}"))).as_bytes().to_vec(),
            has_graph: false,
            registered: false,
            held: BTreeMap::new(),
            facts: 0,
        }
    }
}
