//! Engine `authsim`: property C35 "Replicas accept only authentic commands".
//!
//! Nodes run the real `ClientState` + `VmPolicy` + compiler + VM + crypto engine + FFIs on the
//! signing policy shipped with the repository; the harness transport corrupts sync responses
//! field by field; the oracle compares every offered command with the shadow of what honest
//! replicas sealed.

mod generate;
mod minimise;
mod mutate;
mod node;
mod shadow;
mod sim;
mod wire_mirror;

use std::collections::{BTreeMap, BTreeSet};

use serde_json::json;
use vcommon::{Cli, Evidence, Tier, Violation};

use crate::{
    generate::{Outcome, cfg_for, run_seeded},
    mutate::ALL_KINDS,
    sim::{Cfg, Found, Step},
};

const QUICK_RUNS: u64 = 8000;
const THOROUGH_RUNS: u64 = 80000;
const NONTRIVIAL: &str = "some sync session offered a forged command (not matching anything an honest replica sealed) to a replica that held its parent and did not already hold its id, the replica rejected it, and the same session also accepted at least one honest command";

#[derive(serde::Serialize, serde::Deserialize)]
pub struct ReplayFile {
    engine: String,
    property: String,
    seed: u64,
    cfg: Cfg,
    steps: Vec<Step>,
    violation: Found,
    minimised_from: usize,
}

/// Signatures of C35 findings listed in /verif/known-findings.txt.
fn known_sigs() -> Vec<String> {
    vcommon::load_known_findings().into_iter().filter(|k| k.property == "C35").map(|k| k.sig).collect()
}

fn flag_value(cli: &Cli, k: &str) -> bool {
    cli.extra.get(k).is_some_and(|v| v == "1" || v == "true" || v == "yes")
}

fn main() {
    node::install_quiet_panic_hook();
    let cli = vcommon::parse_cli();
    if cli.property != "C35" {
        vcommon::harness_error(&format!("authsim does not serve property {:?}", cli.property));
    }
    if let Some(path) = &cli.replay {
        std::process::exit(replay_file(&cli, path));
    }
    if cli.has_flag("audit") {
        std::process::exit(audit(&cli));
    }
    let runs = cli.extra.get("runs").and_then(|s| s.parse().ok()).unwrap_or(match cli.tier {
        Tier::Quick => QUICK_RUNS,
        Tier::Thorough => THOROUGH_RUNS,
    });
    let fault_free = cli.has_flag("fault-free");
    let strict_merge = flag_value(&cli, "strict-merge");
    let mut ev = Evidence::new(&cli, "exploration");
    let seed = cli.seed;
    let known_sigs = known_sigs();
    let outcomes: Vec<(u64, Cfg, Outcome)> = vcommon::parallel_map(runs, cli.jobs, |i| {
        let s = vcommon::mix(seed, i);
        let cfg = cfg_for(s, fault_free, strict_merge, &known_sigs);
        let o = run_seeded(&cfg);
        (s, cfg, o)
    });

    let mut counters: BTreeMap<String, u64> = BTreeMap::new();
    let mut histories: BTreeSet<u64> = BTreeSet::new();
    let mut distinct_nontrivial: BTreeSet<u64> = BTreeSet::new();
    let mut anomalies: Vec<String> = Vec::new();
    let mut steps_total = 0u64;
    let mut violations: Vec<Violation> = Vec::new();
    let mut samples = Vec::new();
    let mut max_sealed = 0;
    for (s, cfg, o) in &outcomes {
        for (k, v) in &o.stats.counters {
            *counters.entry(k.clone()).or_insert(0) += v;
        }
        histories.insert(o.event_hash);
        steps_total += o.stats.steps;
        max_sealed = max_sealed.max(o.sealed);
        if o.nontrivial {
            distinct_nontrivial.insert(o.event_hash);
        }
        for a in &o.stats.anomalies {
            if anomalies.len() < 12 {
                anomalies.push(format!("seed {s:#x}: {a}"));
            }
        }
        // One replay per distinct signature; known findings do not use up the slots.
        for f in &o.found {
            let is_known = known_sigs.contains(&f.sig);
            let slots_used = violations.iter().filter(|v| !known_sigs.contains(&v.sig)).count();
            if (is_known || slots_used < 5) && !violations.iter().any(|v| v.sig == f.sig) {
                violations.push(minimise::minimise_and_write(&cli.property, *s, cfg, &o.steps, f));
            }
            *counters.entry(format!("violating_runs.{}", f.sig)).or_insert(0) += 1;
        }
        if !o.found.is_empty() {
            *counters.entry("violating_runs".into()).or_insert(0) += 1;
        }
        if samples.len() < 2 && o.nontrivial && o.steps.len() <= 26 && o.found.is_empty() {
            samples.push(json!({"seed": format!("{s:#x}"), "nodes": cfg.n_nodes, "fault_pct": cfg.fault_pct, "steps": o.steps, "event_log": generate::replay_log(cfg, &o.steps)}));
        }
    }
    if samples.is_empty() {
        if let Some((s, cfg, o)) = outcomes.first() {
            samples.push(json!({"seed": format!("{s:#x}"), "nodes": cfg.n_nodes, "fault_pct": cfg.fault_pct, "steps": o.steps.iter().take(30).collect::<Vec<_>>()}));
        }
    }
    let c = |k: &str| counters.get(k).copied().unwrap_or(0);

    // Per mutation kind.
    let mut per_kind = serde_json::Map::new();
    for k in ALL_KINDS.iter().map(|k| format!("{k:?}")).chain(["none".to_string()]) {
        let g = |f: &str| c(&format!("mut.{k}.{f}"));
        per_kind.insert(
            k.clone(),
            json!({
                "responses_mutated": c(&format!("fault.{k}")),
                "inapplicable": c(&format!("inapplicable.{k}")),
                "message_refused_by_decoder": g("message_refused_by_decoder"),
                "forged_offered": g("offered"),
                "reached_verification": g("reached_verification"),
                "rejected": g("rejected"),
                "skipped_as_already_held": g("skipped_as_known"),
                "accepted_merge_parent_KNOWN_FINDING_incl_onward_propagation": g("ACCEPTED.merge-parent"),
                "accepted_other_VIOLATION": counters.iter().filter(|(x, _)| x.starts_with(&format!("mut.{k}.ACCEPTED.")) && !x.ends_with(".merge-parent")).map(|(_, v)| *v).sum::<u64>(),
                "outcome_undetermined": g("undetermined"),
                "honest_accepted_in_same_response": g("honest_accepted_alongside"),
            }),
        );
    }
    let pick = |prefix: &str| -> BTreeMap<String, u64> { counters.iter().filter(|(k, _)| k.starts_with(prefix)).map(|(k, v)| (k[prefix.len()..].to_string(), *v)).collect() };

    ev.evaluations = outcomes.len() as u64;
    ev.distinct_nontrivial = distinct_nontrivial.len() as u64;
    ev.rule = format!(
        "each evaluation is one seeded simulated run: 2-4 nodes run the real ClientState/VmPolicy/VM/crypto engine/FFIs on aranya-model's ffi-policy.md; an owner creates the graph, devices register their keys, honest replicas publish create/increment/decrement commands and sync through a harness transport that mutates a drawn share of the sync responses (one explicit mutation per response, kinds listed under per_mutation_kind) before the requester decodes them; every command handed to add_commands is compared with the shadow of sealed commands. Steps, mutations and all key material come from PRNG streams derived from mix(seed, run index). A run is counted non-trivial when: {NONTRIVIAL}. Distinct = distinct event-log hash (every step, offered command, classification and outcome)."
    );
    ev.samples = samples;
    ev.violations = violations.len() as u64;
    ev.set("faults_fired", json!(pick("fault.")));
    ev.set("per_mutation_kind", serde_json::Value::Object(per_kind));
    ev.set("forged_offered_by_first_differing_bound_field", json!(pick("forged.")));
    ev.set("undetermined_outcomes", json!(pick("undetermined.")));
    ev.set("rejection_errors", json!(pick("reject_error.")));
    ev.set(
        "probes",
        json!({
            "honest_accepted": c("honest_accepted"),
            "honest_accepted_from_other_author_via_third_party": c("honest_accepted_other_author"),
            "honest_duplicate_skipped": c("honest_duplicate_skipped"),
            "honest_rejected_because_parent_missing": c("honest_rejected_parent_missing"),
            "sessions_with_forged_rejected_at_verification": c("sessions_with_forged_rejected_at_verification"),
            "nontrivial_sessions": c("nontrivial_sessions"),
            "batch_unprocessed_after_error": c("batch_unprocessed_after_error"),
            "batch_ambiguous_failure": c("batch_ambiguous_failure"),
            "transport_rejected_by_sync_decoder": c("transport_rejected"),
            "honest_published": c("honest_published"),
            "honest_action_refused_by_policy": c("honest_action_refused"),
            "sealed_signed": c("sealed.signed"),
            "merge_commands_written": c("sealed.merge"),
            "tainted_node_events": c("tainted_nodes_events"),
            "sealed_ids_recomputed_from_public_data_ok": c("id_recomputed_from_public_data.ok"),
            "sealed_ids_recomputed_from_public_data_MISMATCH": c("id_recomputed_from_public_data.MISMATCH"),
        }),
    );
    ev.set("sessions", json!({"fault_phase": c("sessions"), "quiescent": c("sessions.quiescent"), "responses": c("responses"), "commands_sent": c("commands_sent")}));
    ev.set("quiescence", json!({"rounds": c("quiescence_rounds"), "runs_checked": c("quiescence_checked"), "runs_unchecked_because_an_open_outcome_command_changed_graph_structure": c("quiescence_unchecked_tainted")}));
    ev.set("distinct_histories", json!(histories.len()));
    ev.set("distinct_measure", json!("FNV hash of the per-run event log"));
    ev.set("sim_steps", json!(steps_total));
    ev.set("largest_graph_commands", json!(max_sealed));
    ev.set("anomalies_outside_claimed_properties", json!(anomalies));
    ev.set("anomaly_events", json!(c("anomaly_events")));
    ev.set("violating_runs_by_signature", json!(pick("violating_runs.")));
    ev.set("known_finding_signatures_tolerated", json!(known_sigs));
    ev.set(
        "components",
        json!({
            "real": ["aranya-runtime ClientState / Transaction / sync requester + responder / linear storage (memory manager)", "VmPolicy (call_rule, open_command, call_action, seal)", "aranya-policy-lang parser + aranya-policy-compiler on ffi-policy.md (verbatim from aranya-model/src/tests)", "aranya-policy-vm", "aranya-crypto DefaultEngine + DefaultCipherSuite (Ed25519 signatures, key wrapping)", "aranya_crypto_ffi::Ffi, aranya_device_ffi::FfiDevice, aranya_envelope_ffi::Ffi, aranya_idam_ffi::Ffi, aranya_perspective_ffi::FfiPerspective"],
            "stub": ["transport (in-process, one explicit mutation per response)", "effect sink (recording)", "key store: aranya_crypto::keystore::memstore::MemStore (in memory, cloned into the crypto and idam FFIs)", "policy store (one VmPolicy for every policy id, as aranya-model's ModelPolicyStore)", "Csprng: seeded splitmix stream (engine root key, device keys, wrapping nonces, session ids)"],
        }),
    );
    ev.assumptions = vec![
        "OS randomness is not used: DefaultEngine is built over a seeded Csprng, Ed25519 signing is deterministic".into(),
        "the adversary controls the transport only: it recombines honest material and random bytes and can hash (the Re* mutations change a bound field and recompute the command id from public data exactly as the verifier does); it holds no honest signing key".into(),
        "merge commands carry no author and no signature and never reach the policy; a merge-shaped command that no honest replica wrote is counted under outcome_undetermined (merge-shaped), not asserted either way; --strict-merge 1 asserts rejection".into(),
        "the shipped policy verifies Init with the key carried in its own payload and ignores the envelope's author: an Init whose author id alone was changed is counted under outcome_undetermined (init-author)".into(),
        "changes confined to priority, the parent's max cut, policy bytes or bytes after the serialized VmProtocolData are transport metadata the statement does not bind: counted, not asserted".into(),
        "a clean batch is evidence, not proof: the search is sampled".into(),
    ];
    ev.write(&cli.evidence_path());
    let code = vcommon::report(&cli.property, &violations);
    println!(
        "{}: {} runs, {} steps, {} sessions, forged offered {} / reached verification {} / rejected {}, honest accepted {}, {} distinct histories, {} non-trivial, {} violations, {} anomalies",
        cli.property,
        outcomes.len(),
        steps_total,
        c("sessions") + c("sessions.quiescent"),
        ALL_KINDS.iter().map(|k| c(&format!("mut.{k:?}.offered"))).sum::<u64>(),
        ALL_KINDS.iter().map(|k| c(&format!("mut.{k:?}.reached_verification"))).sum::<u64>(),
        ALL_KINDS.iter().map(|k| c(&format!("mut.{k:?}.rejected"))).sum::<u64>(),
        c("honest_accepted"),
        histories.len(),
        distinct_nontrivial.len(),
        violations.len(),
        c("anomaly_events")
    );
    std::process::exit(code);
}

fn replay_file(cli: &Cli, path: &std::path::Path) -> i32 {
    let text = std::fs::read_to_string(path).unwrap_or_else(|e| vcommon::harness_error(&format!("cannot read replay {}: {e}", path.display())));
    let rf: ReplayFile = serde_json::from_str(&text).unwrap_or_else(|e| vcommon::harness_error(&format!("bad replay file: {e}")));
    let o = generate::replay(&rf.cfg, &rf.steps);
    match o.found.iter().find(|f| f.class == rf.violation.class) {
        Some(f) => {
            let v = Violation { property: rf.property.clone(), class: f.class.clone(), sig: f.sig.clone(), detail: f.detail.clone(), seed: rf.seed, replay: path.to_path_buf() };
            println!("replay reproduces: {} at step {}", f.class, f.step);
            vcommon::report(&cli.property, &[v])
        }
        None => {
            println!("replay did not reproduce {} (found: {:?})", rf.violation.class, o.found.iter().map(|f| &f.class).collect::<Vec<_>>());
            0
        }
    }
}

/// Determinism audit: N seeds, each run twice on different worker layouts; event hashes and
/// findings must agree. Exit 2 on mismatch.
fn audit(cli: &Cli) -> i32 {
    let n = cli.extra.get("runs").and_then(|s| s.parse().ok()).unwrap_or(300u64);
    let seed = cli.seed;
    let strict_merge = flag_value(cli, "strict-merge");
    let known_sigs = known_sigs();
    let one = |jobs: usize| -> Vec<(u64, usize, u64)> {
        vcommon::parallel_map(n, jobs, |i| {
            let s = vcommon::mix(seed, i);
            let o = run_seeded(&cfg_for(s, false, strict_merge, &known_sigs));
            (o.event_hash, o.found.len(), o.stats.steps)
        })
    };
    let a = one(cli.jobs);
    let b = one((cli.jobs / 3).max(1));
    let mut h = Vec::new();
    for (x, y) in a.iter().zip(b.iter()) {
        if x != y {
            eprintln!("HARNESS-ERROR: nondeterminism detected: {x:?} vs {y:?}");
            return 2;
        }
        h.extend_from_slice(&x.0.to_le_bytes());
    }
    println!("audit ok: {n} seeds x 2 executions identical; digest {:016x}", vcommon::fnv(&h));
    0
}
