//! Engine `authsim` (skeleton).
fn main() {
    let cli = vcommon::parse_cli();
    vcommon::harness_error(&format!("authsim: property {:?} not built yet", cli.property));
}
