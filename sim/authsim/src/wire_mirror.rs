#![allow(dead_code)] // verbatim copy of dagsim/src/wire_mirror.rs; the request side is unused here
//! Mirror of the sync wire format (postcard), used to observe what a responder sent
//! (response index, command ids) and for field-aware corruption in the network.
//! The wire format is an interface between peers, so mirroring it does not tie the
//! oracles to implementation details of either endpoint.

use aranya_runtime::{Address, CmdId, GraphId, Prior, Priority};
use serde::{Deserialize, Serialize};

#[derive(Serialize, Deserialize, Debug, Clone, PartialEq)]
pub struct CommandMeta {
    pub id: CmdId,
    pub priority: Priority,
    pub parent: Prior<Address>,
    pub policy_length: u32,
    pub length: u32,
}

#[derive(Serialize, Deserialize, Debug, Clone, PartialEq)]
pub enum ResponseMsg {
    SyncResponse { session_id: u128, response_index: u64, commands: Vec<CommandMeta> },
    SyncEnd { session_id: u128, max_index: u64, remaining: bool },
    Offer { session_id: u128, head: CmdId },
    EndSession { session_id: u128 },
}

#[derive(Serialize, Deserialize, Debug, Clone, PartialEq)]
pub enum RequestMsg {
    SyncRequest { session_id: u128, graph_id: GraphId, max_bytes: u64, commands: Vec<Address> },
    RequestMissing { session_id: u128, indexes: Vec<u64> },
    SyncResume { session_id: u128, response_index: u64, max_bytes: u64 },
    EndSession { session_id: u128 },
}

#[derive(Serialize, Deserialize, Debug, Clone, PartialEq)]
pub enum HelloType {
    Subscribe {
        graph_id: GraphId,
        graph_change_delay: core::time::Duration,
        duration: core::time::Duration,
        schedule_delay: core::time::Duration,
    },
    Unsubscribe { graph_id: GraphId },
    Hello { graph_id: GraphId, head: Address },
}

#[derive(Serialize, Deserialize, Debug, Clone, PartialEq)]
pub enum SyncType {
    Poll { request: RequestMsg },
    Subscribe { remain_open: u64, max_bytes: u64, commands: Vec<Address>, graph_id: GraphId },
    Unsubscribe { graph_id: GraphId },
    Push { message: ResponseMsg, graph_id: GraphId },
    Hello(HelloType),
}

/// Decode a responder->requester message; returns the message and the trailing command bytes.
pub fn decode_response(bytes: &[u8]) -> Option<(ResponseMsg, &[u8])> {
    postcard::take_from_bytes::<ResponseMsg>(bytes).ok()
}

pub fn encode_response(msg: &ResponseMsg, tail: &[u8]) -> Vec<u8> {
    let mut v = postcard::to_allocvec(msg).expect("serialises");
    v.extend_from_slice(tail);
    v
}

pub fn decode_sync_type(bytes: &[u8]) -> Option<(SyncType, &[u8])> {
    postcard::take_from_bytes::<SyncType>(bytes).ok()
}

pub fn encode_sync_type(msg: &SyncType, tail: &[u8]) -> Vec<u8> {
    let mut v = postcard::to_allocvec(msg).expect("serialises");
    v.extend_from_slice(tail);
    v
}
