//! Delta-debugging over the explicit step list (DESIGN 3.6).

use vcommon::Violation;

use crate::{
    ReplayFile,
    generate::replay,
    sim::{Cfg, Found, Step},
};

fn fails(cfg: &Cfg, steps: &[Step], class: &str) -> Option<Found> {
    replay(cfg, steps).found.into_iter().find(|f| f.class == class)
}

fn simplify(step: &Step) -> Vec<Step> {
    let mut out = Vec::new();
    if let Step::Sync { a, b, sid, one_by_one, muts } = step {
        for i in 0..muts.len() {
            if muts[i].is_some() {
                let mut m = muts.clone();
                m[i] = None;
                out.push(Step::Sync { a: *a, b: *b, sid: *sid, one_by_one: *one_by_one, muts: m });
            }
        }
        if !*one_by_one {
            out.push(Step::Sync { a: *a, b: *b, sid: *sid, one_by_one: true, muts: muts.clone() });
        }
        for i in 0..muts.len() {
            if let Some(m) = muts[i] {
                if m.i != 0 {
                    let mut v = muts.clone();
                    v[i] = Some(crate::mutate::Mut { i: 0, ..m });
                    out.push(Step::Sync { a: *a, b: *b, sid: *sid, one_by_one: *one_by_one, muts: v });
                }
            }
        }
    }
    out
}

pub fn minimise(cfg: &Cfg, steps: &[Step], class: &str, mut budget: usize) -> (Vec<Step>, Found) {
    let mut cur: Vec<Step> = steps.to_vec();
    let mut found = fails(cfg, &cur, class).expect("violation reproduces from its explicit step list");
    if found.step < cur.len() {
        let cut = cur[..found.step].to_vec();
        if let Some(f) = fails(cfg, &cut, class) {
            cur = cut;
            found = f;
        }
    }
    let mut chunk = (cur.len() / 2).max(1);
    loop {
        let mut i = 0;
        let mut removed_any = false;
        while i < cur.len() && budget > 0 {
            let end = (i + chunk).min(cur.len());
            let mut cand = cur[..i].to_vec();
            cand.extend_from_slice(&cur[end..]);
            budget -= 1;
            if let Some(f) = fails(cfg, &cand, class) {
                cur = cand;
                found = f;
                removed_any = true;
            } else {
                i = end;
            }
        }
        if budget == 0 || (chunk == 1 && !removed_any) {
            break;
        }
        chunk = (chunk / 2).max(1);
    }
    let mut progress = true;
    while progress && budget > 0 {
        progress = false;
        for i in 0..cur.len() {
            for alt in simplify(&cur[i]) {
                if budget == 0 {
                    break;
                }
                budget -= 1;
                let mut cand = cur.clone();
                cand[i] = alt;
                if let Some(f) = fails(cfg, &cand, class) {
                    cur = cand;
                    found = f;
                    progress = true;
                    break;
                }
            }
        }
    }
    (cur, found)
}

pub fn minimise_and_write(property: &str, seed: u64, cfg: &Cfg, steps: &[Step], found: &Found) -> Violation {
    if fails(cfg, steps, &found.class).is_none() {
        vcommon::harness_error(&format!("violation {} of seed {seed:#x} does not reproduce from its explicit step list (nondeterminism)", found.class));
    }
    let no_min = std::env::args().any(|a| a == "--no-minimise");
    let (min_steps, f) = if no_min { (steps.to_vec(), found.clone()) } else { minimise(cfg, steps, &found.class, if cfg.known_sigs.contains(&found.sig) { 80 } else { 300 }) };
    let rf = ReplayFile { engine: "authsim".into(), property: property.to_string(), seed, cfg: cfg.clone(), steps: min_steps, violation: f.clone(), minimised_from: steps.len() };
    let tag = f.sig.chars().filter(|c| c.is_ascii_alphanumeric() || *c == '-').take(40).collect::<String>();
    let path = vcommon::replay_path(property, seed, &tag);
    std::fs::write(&path, serde_json::to_string_pretty(&rf).expect("replay serialises")).unwrap_or_else(|e| vcommon::harness_error(&format!("cannot write replay: {e}")));
    Violation { property: property.to_string(), class: f.class, sig: f.sig, detail: f.detail, seed, replay: path }
}
