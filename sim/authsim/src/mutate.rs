//! Transport corruption of sync responses: byte-level and field-aware (decode with the wire
//! mirror, mutate one field of one command, re-encode, fix up the lengths).

use aranya_crypto::DeviceId;
use aranya_runtime::{Address, CmdId, MaxCut, Prior, Priority};
use serde::{Deserialize, Serialize};

use crate::{
    node::{OwnedCmd, recompute_cmd_id},
    shadow::{Shadow, VmData},
    wire_mirror::{self, CommandMeta, ResponseMsg},
};

#[derive(Serialize, Deserialize, Clone, Copy, Debug, PartialEq, Eq, PartialOrd, Ord)]
pub enum MutKind {
    // byte level, anywhere in the message
    BitFlip,
    ByteSet,
    Truncate,
    // inside the serialized VmProtocolData of command i
    Payload,
    Kind,
    Author,
    SigBit,
    SigCut,
    DataTrail,
    // command metadata of command i
    Id,
    ParentId,
    ParentCut,
    Reparent,
    Priority,
    PolicyBytes,
    // two honest commands exchange one field
    SwapSig,
    SwapPayload,
    SwapAuthor,
    SwapKind,
    SwapId,
    SwapParent,
    // a bound field changed AND the command id recomputed from public data to fit it
    RePayload,
    // payload re-encoded to different bytes that decode to the same field values (never signed)
    ReencodePayload,
    ReKind,
    ReParent,
    ReAuthor,
    // whole commands
    Inject,
    Dup,
    Drop,
    Reorder,
    // merge commands (no signature; outcome not determined by the statement)
    MergeId,
    MergeData,
    ToMerge,
}

pub const ALL_KINDS: &[MutKind] = &[
    MutKind::BitFlip,
    MutKind::ByteSet,
    MutKind::Truncate,
    MutKind::Payload,
    MutKind::Kind,
    MutKind::Author,
    MutKind::SigBit,
    MutKind::SigCut,
    MutKind::DataTrail,
    MutKind::Id,
    MutKind::ParentId,
    MutKind::ParentCut,
    MutKind::Reparent,
    MutKind::Priority,
    MutKind::PolicyBytes,
    MutKind::SwapSig,
    MutKind::SwapPayload,
    MutKind::SwapAuthor,
    MutKind::SwapKind,
    MutKind::SwapId,
    MutKind::SwapParent,
    MutKind::RePayload,
    MutKind::ReencodePayload,
    MutKind::ReKind,
    MutKind::ReParent,
    MutKind::ReAuthor,
    MutKind::Inject,
    MutKind::Dup,
    MutKind::Drop,
    MutKind::Reorder,
    MutKind::MergeId,
    MutKind::MergeData,
    MutKind::ToMerge,
];

/// One explicit mutation: `i` selects the command in the response (mod n), `a`/`b` are parameters.
#[derive(Serialize, Deserialize, Clone, Copy, Debug, PartialEq, Eq)]
pub struct Mut {
    pub kind: MutKind,
    pub i: u32,
    pub a: u32,
    pub b: u32,
}

/// A decoded `SyncResponse`.
pub struct Decoded {
    pub session_id: u128,
    pub response_index: u64,
    pub cmds: Vec<OwnedCmd>,
}

pub fn decode(bytes: &[u8]) -> Option<Decoded> {
    let (msg, tail) = wire_mirror::decode_response(bytes)?;
    let ResponseMsg::SyncResponse { session_id, response_index, commands } = msg else { return None };
    let mut cmds = Vec::new();
    let mut at = 0usize;
    for m in commands {
        let policy = if m.policy_length == 0 {
            None
        } else {
            let end = at.checked_add(m.policy_length as usize)?;
            let p = tail.get(at..end)?.to_vec();
            at = end;
            Some(p)
        };
        let end = at.checked_add(m.length as usize)?;
        let data = tail.get(at..end)?.to_vec();
        at = end;
        cmds.push(OwnedCmd { id: m.id, priority: m.priority, parent: m.parent, policy, data });
    }
    Some(Decoded { session_id, response_index, cmds })
}

pub fn encode(d: &Decoded) -> Vec<u8> {
    let mut tail = Vec::new();
    let mut metas = Vec::new();
    for c in &d.cmds {
        let mut pl = 0;
        if let Some(p) = &c.policy {
            pl = p.len();
            tail.extend_from_slice(p);
        }
        tail.extend_from_slice(&c.data);
        metas.push(CommandMeta { id: c.id, priority: c.priority.clone(), parent: c.parent, policy_length: pl as u32, length: c.data.len() as u32 });
    }
    wire_mirror::encode_response(&ResponseMsg::SyncResponse { session_id: d.session_id, response_index: d.response_index, commands: metas }, &tail)
}

fn flip_id(id: &CmdId, a: u32) -> CmdId {
    let mut b = *id.as_array();
    b[(a as usize / 8) % 32] ^= 1 << (a % 8);
    CmdId::from_bytes(b)
}

/// First signed (non-merge, decodable) command at or after `i` (cyclic).
fn signed_at(cmds: &[OwnedCmd], i: usize) -> Option<usize> {
    let n = cmds.len();
    (0..n).map(|k| (i + k) % n).find(|k| !matches!(cmds[*k].parent, Prior::Merge(..)) && VmData::decode(&cmds[*k].data).is_some())
}

fn merge_at(cmds: &[OwnedCmd], i: usize) -> Option<usize> {
    let n = cmds.len();
    (0..n).map(|k| (i + k) % n).find(|k| matches!(cmds[*k].parent, Prior::Merge(..)))
}

fn with_vm(c: &mut OwnedCmd, f: impl FnOnce(&mut VmData)) -> bool {
    let Some((mut v, trailing)) = VmData::decode(&c.data) else { return false };
    f(&mut v);
    c.data = v.encode(&trailing);
    true
}

/// An honest command other than `not`, chosen by `sel` from everything sealed so far.
fn other_honest<'a>(sh: &'a Shadow, sel: u32, not: &CmdId, signed_only: bool) -> Option<&'a OwnedCmd> {
    let pool: Vec<&OwnedCmd> = sh.order.iter().filter(|i| *i != not).map(|i| &sh.honest[i]).filter(|h| !signed_only || h.vm.is_some()).map(|h| &h.cmd).collect();
    if pool.is_empty() { None } else { Some(pool[sel as usize % pool.len()]) }
}

const KIND_NAMES: &[&str] = &["Create", "Increment", "Decrement", "AddDeviceKeys", "Init", "VerifyNoHello", "CreateGreeting", "Bogus", "9not an identifier", ""];

/// Applies `m` to the encoded response. Returns false when the mutation did not apply (the
/// message is delivered unchanged).
pub fn apply(bytes: &mut Vec<u8>, m: &Mut, sh: &Shadow, devices: &[DeviceId], key_ids: &[Vec<u8>]) -> bool {
    let len = bytes.len();
    match m.kind {
        MutKind::BitFlip => {
            if len == 0 {
                return false;
            }
            bytes[m.a as usize % len] ^= 1 << (m.b % 8);
            return true;
        }
        MutKind::ByteSet => {
            if len == 0 {
                return false;
            }
            let at = m.a as usize % len;
            let v = m.b as u8;
            if bytes[at] == v {
                bytes[at] = v.wrapping_add(1);
            } else {
                bytes[at] = v;
            }
            return true;
        }
        MutKind::Truncate => {
            if len == 0 {
                return false;
            }
            bytes.truncate(m.a as usize % len);
            return true;
        }
        _ => {}
    }
    let Some(mut d) = decode(bytes) else { return false };
    let n = d.cmds.len();
    if n == 0 {
        if m.kind == MutKind::Inject {
            let Some(c) = other_honest(sh, m.a, &CmdId::default(), false) else { return false };
            d.cmds.push(c.clone());
            *bytes = encode(&d);
            return true;
        }
        return false;
    }
    // u32::MAX addresses the last command of the response.
    let i = if m.i == u32::MAX { n - 1 } else { m.i as usize % n };
    let ok = match m.kind {
        MutKind::BitFlip | MutKind::ByteSet | MutKind::Truncate => unreachable!(),
        MutKind::Payload => signed_at(&d.cmds, i).is_some_and(|k| {
            with_vm(&mut d.cmds[k], |v| {
                if v.serialized_fields.is_empty() {
                    v.serialized_fields.push(m.b as u8);
                } else {
                    let at = m.a as usize % v.serialized_fields.len();
                    v.serialized_fields[at] ^= 1 << (m.b % 8);
                }
            })
        }),
        MutKind::Kind => signed_at(&d.cmds, i).is_some_and(|k| {
            with_vm(&mut d.cmds[k], |v| {
                let mut to = KIND_NAMES[m.a as usize % KIND_NAMES.len()];
                if to == v.kind {
                    to = KIND_NAMES[(m.a as usize + 1) % KIND_NAMES.len()];
                }
                v.kind = to.to_string();
            })
        }),
        MutKind::Author => signed_at(&d.cmds, i).is_some_and(|k| {
            with_vm(&mut d.cmds[k], |v| {
                let others: Vec<&DeviceId> = devices.iter().filter(|x| **x != v.author_id).collect();
                if m.b % 4 == 0 || others.is_empty() {
                    let mut b = *v.author_id.as_array();
                    b[(m.a as usize / 8) % 32] ^= 1 << (m.a % 8);
                    v.author_id = DeviceId::from_bytes(b);
                } else {
                    v.author_id = *others[m.a as usize % others.len()];
                }
            })
        }),
        MutKind::SigBit => signed_at(&d.cmds, i).is_some_and(|k| {
            with_vm(&mut d.cmds[k], |v| {
                if v.signature.is_empty() {
                    v.signature.push(1);
                } else {
                    let at = (m.a as usize / 8) % v.signature.len();
                    v.signature[at] ^= 1 << (m.a % 8);
                }
            })
        }),
        MutKind::SigCut => signed_at(&d.cmds, i).is_some_and(|k| {
            with_vm(&mut d.cmds[k], |v| match m.b % 3 {
                0 => v.signature.clear(),
                1 => {
                    let to = m.a as usize % v.signature.len().max(1);
                    v.signature.truncate(to);
                }
                _ => v.signature.iter_mut().for_each(|x| *x = 0),
            })
        }),
        MutKind::DataTrail => signed_at(&d.cmds, i).is_some_and(|k| {
            let extra = 1 + (m.a as usize % 9);
            let mut s = u64::from(m.b) | 1;
            for _ in 0..extra {
                d.cmds[k].data.push((vcommon::splitmix(&mut s) & 0xff) as u8);
            }
            true
        }),
        MutKind::Id => {
            let cur = d.cmds[i].id;
            d.cmds[i].id = if m.b % 2 == 0 { flip_id(&cur, m.a) } else { other_honest(sh, m.a, &cur, false).map_or_else(|| flip_id(&cur, m.a), |c| c.id) };
            true
        }
        MutKind::ParentId => match d.cmds[i].parent {
            Prior::Single(p) => {
                let id = if m.b % 3 == 0 { flip_id(&p.id, m.a) } else { other_honest(sh, m.a, &p.id, false).map_or_else(|| flip_id(&p.id, m.a), |c| c.id) };
                d.cmds[i].parent = Prior::Single(Address { id, max_cut: p.max_cut });
                true
            }
            Prior::None => {
                let Some(o) = other_honest(sh, m.a, &d.cmds[i].id, false) else { return false };
                d.cmds[i].parent = Prior::Single(Address { id: o.id, max_cut: MaxCut::new(o.max_cut()) });
                true
            }
            Prior::Merge(..) => false,
        },
        MutKind::ParentCut => match d.cmds[i].parent {
            Prior::Single(p) => {
                let delta = 1 + u64::from(m.a % 3);
                let mc = if m.b % 2 == 0 { p.max_cut.get().saturating_add(delta) } else { p.max_cut.get().saturating_sub(delta) };
                if mc == p.max_cut.get() {
                    false
                } else {
                    d.cmds[i].parent = Prior::Single(Address { id: p.id, max_cut: MaxCut::new(mc) });
                    true
                }
            }
            _ => false,
        },
        MutKind::Reparent => match d.cmds[i].parent {
            // "replay an honest command under a different parent": the full address of another
            // sealed command, so the parent is very likely held by the receiver.
            Prior::Single(p) => {
                let me = d.cmds[i].id;
                let pool: Vec<&OwnedCmd> = sh.order.iter().filter(|x| **x != p.id && **x != me).map(|x| &sh.honest[x].cmd).collect();
                if pool.is_empty() {
                    false
                } else {
                    let o = pool[m.a as usize % pool.len()];
                    d.cmds[i].parent = Prior::Single(Address { id: o.id, max_cut: MaxCut::new(o.max_cut()) });
                    true
                }
            }
            _ => false,
        },
        MutKind::Priority => {
            let cur = d.cmds[i].priority.clone();
            let mut to = match m.a % 5 {
                0 => Priority::Init,
                1 => Priority::Finalize,
                2 => Priority::Merge,
                3 => Priority::Basic(0),
                _ => Priority::Basic(1 + m.b % 7),
            };
            if to == cur {
                to = Priority::Basic(9);
            }
            d.cmds[i].priority = to;
            true
        }
        MutKind::PolicyBytes => {
            d.cmds[i].policy = match &d.cmds[i].policy {
                None => Some(vec![0u8; 1 + (m.a as usize % 8)]),
                Some(p) => {
                    let mut p = p.clone();
                    let at = m.a as usize % p.len();
                    // keep the first byte (the toy policy store derives the policy id from it)
                    let at = if p.len() > 1 && at == 0 { 1 } else { at };
                    p[at] ^= 1 << (m.b % 8);
                    Some(p)
                }
            };
            true
        }
        MutKind::SwapSig | MutKind::SwapPayload | MutKind::SwapAuthor | MutKind::SwapKind => {
            let Some(k) = signed_at(&d.cmds, i) else { return false };
            let partner_in = (1..n).map(|o| (k + o) % n).find(|j| signed_at(&d.cmds, *j) == Some(*j));
            let (mut va, ta) = VmData::decode(&d.cmds[k].data).expect("signed_at checked");
            let field_differs = |x: &VmData, y: &VmData| match m.kind {
                MutKind::SwapSig => x.signature != y.signature,
                MutKind::SwapPayload => x.serialized_fields != y.serialized_fields,
                MutKind::SwapAuthor => x.author_id != y.author_id,
                _ => x.kind != y.kind,
            };
            let swap = |x: &mut VmData, y: &mut VmData| match m.kind {
                MutKind::SwapSig => std::mem::swap(&mut x.signature, &mut y.signature),
                MutKind::SwapPayload => std::mem::swap(&mut x.serialized_fields, &mut y.serialized_fields),
                MutKind::SwapAuthor => std::mem::swap(&mut x.author_id, &mut y.author_id),
                _ => std::mem::swap(&mut x.kind, &mut y.kind),
            };
            let mut done = false;
            if let Some(j) = partner_in {
                let (mut vb, tb) = VmData::decode(&d.cmds[j].data).expect("signed_at checked");
                if field_differs(&va, &vb) {
                    swap(&mut va, &mut vb);
                    d.cmds[k].data = va.encode(&ta);
                    d.cmds[j].data = vb.encode(&tb);
                    done = true;
                }
            }
            if !done {
                // Partner from everything sealed so far: only command k changes.
                let me = d.cmds[k].id;
                let pool: Vec<VmData> = sh.order.iter().filter(|x| **x != me).filter_map(|x| sh.honest[x].vm.clone()).filter(|v| field_differs(&va, v)).collect();
                if !pool.is_empty() {
                    let mut vb = pool[m.a as usize % pool.len()].clone();
                    swap(&mut va, &mut vb);
                    d.cmds[k].data = va.encode(&ta);
                    done = true;
                }
            }
            done
        }
        MutKind::SwapId | MutKind::SwapParent => {
            if n >= 2 {
                let j = (i + 1 + (m.a as usize % (n - 1))) % n;
                if m.kind == MutKind::SwapId {
                    let (x, y) = (d.cmds[i].id, d.cmds[j].id);
                    d.cmds[i].id = y;
                    d.cmds[j].id = x;
                    x != y
                } else {
                    let (x, y) = (d.cmds[i].parent, d.cmds[j].parent);
                    d.cmds[i].parent = y;
                    d.cmds[j].parent = x;
                    x != y
                }
            } else {
                let Some(o) = other_honest(sh, m.a, &d.cmds[i].id, false) else { return false };
                if m.kind == MutKind::SwapId {
                    d.cmds[i].id = o.id;
                    true
                } else if o.parent != d.cmds[i].parent {
                    d.cmds[i].parent = o.parent;
                    true
                } else {
                    false
                }
            }
        }
        MutKind::ReencodePayload => {
            let Some(k) = signed_at(&d.cmds, i) else { return false };
            let (mut v, trailing) = VmData::decode(&d.cmds[k].data).expect("signed_at checked");
            let valid = reencodings(&v.kind, &v.serialized_fields);
            if valid.is_empty() {
                return false;
            }
            v.serialized_fields = valid[m.a as usize % valid.len()].clone();
            d.cmds[k].data = v.encode(&trailing);
            true
        }
        MutKind::RePayload | MutKind::ReKind | MutKind::ReParent | MutKind::ReAuthor => {
            let Some(k) = signed_at(&d.cmds, i) else { return false };
            let (mut v, trailing) = VmData::decode(&d.cmds[k].data).expect("signed_at checked");
            let key_of = |dev: &DeviceId| devices.iter().position(|x| x == dev).map(|p| key_ids[p].as_slice());
            let parent_of = |c: &OwnedCmd| match c.parent {
                Prior::None => Some(CmdId::default()),
                Prior::Single(p) => Some(p.id),
                Prior::Merge(..) => None,
            };
            // Only when the recomputation reproduces the honest id (otherwise the harness does not
            // know how this build derives ids and the mutation would be a plain id change).
            let (Some(key), Some(pid)) = (key_of(&v.author_id), parent_of(&d.cmds[k])) else { return false };
            if recompute_cmd_id(key, &v.kind, &pid, &v.serialized_fields, &v.signature) != d.cmds[k].id {
                return false;
            }
            match m.kind {
                MutKind::RePayload => {
                    if v.serialized_fields.is_empty() {
                        v.serialized_fields.push(m.b as u8);
                    } else {
                        let at = m.a as usize % v.serialized_fields.len();
                        v.serialized_fields[at] ^= 1 << (m.b % 8);
                    }
                }
                MutKind::ReKind => {
                    // Create / Increment / Decrement share one field layout and one priority.
                    let names = ["Create", "Increment", "Decrement"];
                    let mut to = names[m.a as usize % 3];
                    if to == v.kind {
                        to = names[(m.a as usize + 1) % 3];
                    }
                    v.kind = to.to_string();
                }
                MutKind::ReParent => {
                    let Prior::Single(p) = d.cmds[k].parent else { return false };
                    let me = d.cmds[k].id;
                    let pool: Vec<&OwnedCmd> = sh.order.iter().filter(|x| **x != p.id && **x != me).map(|x| &sh.honest[x].cmd).collect();
                    if pool.is_empty() {
                        return false;
                    }
                    let o = pool[m.a as usize % pool.len()];
                    d.cmds[k].parent = Prior::Single(Address { id: o.id, max_cut: MaxCut::new(o.max_cut()) });
                }
                _ => {
                    let others: Vec<&DeviceId> = devices.iter().filter(|x| **x != v.author_id).collect();
                    if others.is_empty() {
                        return false;
                    }
                    v.author_id = *others[m.a as usize % others.len()];
                }
            }
            let (Some(key), Some(pid)) = (key_of(&v.author_id), parent_of(&d.cmds[k])) else { return false };
            d.cmds[k].id = recompute_cmd_id(key, &v.kind, &pid, &v.serialized_fields, &v.signature);
            d.cmds[k].data = v.encode(&trailing);
            true
        }
        MutKind::Inject => {
            let Some(c) = other_honest(sh, m.a, &CmdId::default(), false) else { return false };
            let at = m.b as usize % (n + 1);
            d.cmds.insert(at, c.clone());
            true
        }
        MutKind::Dup => {
            let c = d.cmds[i].clone();
            let at = m.a as usize % (n + 1);
            d.cmds.insert(at, c);
            true
        }
        MutKind::Drop => {
            d.cmds.remove(i);
            true
        }
        MutKind::Reorder => {
            if n < 2 {
                false
            } else {
                let j = (i + 1 + (m.a as usize % (n - 1))) % n;
                d.cmds.swap(i, j);
                true
            }
        }
        MutKind::MergeId => match merge_at(&d.cmds, i) {
            Some(k) => {
                let cur = d.cmds[k].id;
                d.cmds[k].id = flip_id(&cur, m.a);
                true
            }
            None => false,
        },
        MutKind::MergeData => match merge_at(&d.cmds, i) {
            Some(k) => {
                let donor = other_honest(sh, m.a, &CmdId::default(), true).map(|c| c.data.clone()).unwrap_or_else(|| vec![1, 2, 3]);
                d.cmds[k].data = donor;
                true
            }
            None => false,
        },
        MutKind::ToMerge => match d.cmds[i].parent {
            Prior::Single(p) => {
                let me = d.cmds[i].id;
                let pool: Vec<&OwnedCmd> = sh.order.iter().filter(|x| **x != p.id && **x != me).map(|x| &sh.honest[x].cmd).collect();
                if pool.is_empty() {
                    false
                } else {
                    let o = pool[m.a as usize % pool.len()];
                    let other = Address { id: o.id, max_cut: MaxCut::new(o.max_cut()) };
                    d.cmds[i].parent = if m.b % 2 == 0 { Prior::Merge(p, other) } else { Prior::Merge(other, p) };
                    if m.b % 4 >= 2 {
                        d.cmds[i].priority = Priority::Merge;
                    }
                    true
                }
            }
            _ => false,
        },
    };
    if ok {
        *bytes = encode(&d);
    }
    ok
}

/// True when `a` and `b` are different byte strings that the policy machine decodes to the same
/// struct of command `kind`.
pub fn same_struct_other_bytes(kind: &str, a: &[u8], b: &[u8]) -> bool {
    if a == b {
        return false;
    }
    let Ok(name) = kind.parse::<aranya_policy_vm::ast::Identifier>() else { return false };
    let m = crate::node::machine();
    match (m.deserialize_struct(name.clone(), a), m.deserialize_struct(name, b)) {
        (Ok(x), Ok(y)) => x == y,
        _ => false,
    }
}

/// Non-canonical encodings of `payload`: one byte `b < 0x80` replaced by the two-byte varint
/// `[b | 0x80, 0x00]`, kept when the real struct decoder of the compiled policy accepts it and
/// yields the same field values.
pub fn reencodings(kind: &str, payload: &[u8]) -> Vec<Vec<u8>> {
    let mut out = Vec::new();
    for (i, b) in payload.iter().enumerate() {
        if *b < 0x80 {
            let mut c = payload[..i].to_vec();
            c.extend_from_slice(&[*b | 0x80, 0x00]);
            c.extend_from_slice(&payload[i + 1..]);
            if same_struct_other_bytes(kind, payload, &c) {
                out.push(c);
            }
        }
    }
    out
}
