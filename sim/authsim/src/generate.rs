//! Seeded generation of explicit steps, execution of step lists, the outcome of one run.

use vcommon::Rng;

use crate::{
    mutate::{ALL_KINDS, Mut, MutKind},
    sim::{Cfg, Found, Sim, Stats, Step},
};

pub struct Outcome {
    pub steps: Vec<Step>,
    pub found: Vec<Found>,
    pub stats: Stats,
    pub event_hash: u64,
    pub sealed: usize,
    pub nontrivial: bool,
}

pub fn cfg_for(seed: u64, fault_free: bool, strict_merge: bool, known_sigs: &[String]) -> Cfg {
    let mut r = Rng::derive(seed, "cfg");
    let n_nodes = r.range(2, 4) as usize;
    // Swarm: some runs are almost fault free, some corrupt most responses.
    let fault_pct = if fault_free { 0 } else { *r.pick(&[10u64, 25, 40, 40, 60, 80]) };
    Cfg { seed, n_nodes, max_steps: r.range(18, 46) as usize, fault_pct, max_cmds: 40, strict_merge, known_sigs: known_sigs.to_vec() }
}

struct Gen {
    sched: Rng,
    wl: Rng,
    net: Rng,
    /// Per-run weights of the mutation kinds (swarm: some kinds are silenced).
    weights: Vec<u32>,
    one_by_one_pct: u64,
}

impl Gen {
    fn new(cfg: &Cfg) -> Self {
        let mut k = Rng::derive(cfg.seed, "knobs");
        let mut weights: Vec<u32> = ALL_KINDS
            .iter()
            .map(|m| match m {
                MutKind::BitFlip | MutKind::ByteSet => 3,
                MutKind::Truncate => 1,
                MutKind::Inject | MutKind::Dup | MutKind::Drop | MutKind::Reorder => 2,
                MutKind::MergeId | MutKind::MergeData | MutKind::ToMerge => 1,
                _ => 4,
            })
            .collect();
        for w in weights.iter_mut() {
            if k.chance(1, 4) {
                *w = 0;
            }
        }
        if weights.iter().all(|w| *w == 0) {
            weights[3] = 1;
        }
        Self { sched: Rng::derive(cfg.seed, "schedule"), wl: Rng::derive(cfg.seed, "workload"), net: Rng::derive(cfg.seed, "net"), weights, one_by_one_pct: *k.pick(&[0u64, 30, 60, 60, 100]) }
    }

    fn mutation(&mut self) -> Mut {
        let kind = ALL_KINDS[self.net.weighted(&self.weights)];
        // Bias the target towards the ends of a response: the first command's parent is almost
        // always held by the receiver, the last one lets everything before it be accepted.
        let i = match self.net.below(4) {
            0 => 0,
            1 => u32::MAX,
            _ => self.net.next_u64() as u32,
        };
        Mut { kind, i, a: self.net.next_u64() as u32, b: self.net.next_u64() as u32 }
    }

    fn next(&mut self, sim: &Sim) -> Step {
        let n = sim.nodes.len();
        if sim.gid.is_none() {
            return Step::Init { r: 0 };
        }
        let with_graph: Vec<usize> = (0..n).filter(|r| sim.nodes[*r].has_graph).collect();
        let unregistered: Vec<usize> = with_graph.iter().copied().filter(|r| !sim.nodes[*r].registered).collect();
        let registered: Vec<usize> = with_graph.iter().copied().filter(|r| sim.nodes[*r].registered).collect();
        let graphless: Vec<usize> = (0..n).filter(|r| !sim.nodes[*r].has_graph).collect();
        let can_publish = !registered.is_empty() && sim.sealed < sim.cfg.max_cmds;
        let weights = [
            if unregistered.is_empty() { 0 } else { 30 },
            if can_publish { 40 } else { 0 },
            if with_graph.is_empty() || n < 2 { 0 } else { 30 },
            if graphless.is_empty() { 0 } else { 25 },
        ];
        match self.sched.weighted(&weights) {
            0 => Step::AddKeys { r: *self.sched.pick(&unregistered) },
            1 => {
                let r = *self.sched.pick(&registered);
                let kind = if !sim.created {
                    0
                } else {
                    match self.wl.below(10) {
                        0..=5 => 1,
                        _ => 2,
                    }
                };
                Step::Act { r, kind, v: self.wl.below(1000) as i64 }
            }
            which => {
                let a = if which == 3 { *self.sched.pick(&graphless) } else { self.sched.usize_below(n) };
                let others: Vec<usize> = with_graph.iter().copied().filter(|b| *b != a).collect();
                if others.is_empty() {
                    return Step::AddKeys { r: with_graph[0] };
                }
                let b = *self.sched.pick(&others);
                let mut muts = Vec::new();
                for _ in 0..2 {
                    muts.push(if self.net.below(100) < sim.cfg.fault_pct { Some(self.mutation()) } else { None });
                }
                while muts.last() == Some(&None) {
                    muts.pop();
                }
                Step::Sync { a, b, sid: self.sched.next_u64(), one_by_one: self.sched.below(100) < self.one_by_one_pct, muts }
            }
        }
    }
}

fn finish(sim: Sim, steps: Vec<Step>) -> Outcome {
    let c = |k: &str| sim.stats.counters.get(k).copied().unwrap_or(0);
    let nontrivial = c("nontrivial_sessions") > 0;
    Outcome { steps, found: sim.found, event_hash: sim.event_hash, sealed: sim.sealed, nontrivial, stats: sim.stats }
}

/// One complete seeded run: generate, execute, quiesce.
pub fn run_seeded(cfg: &Cfg) -> Outcome {
    let mut sim = Sim::new(cfg.clone());
    let mut g = Gen::new(cfg);
    let mut steps = Vec::new();
    let unknown = |sim: &Sim| sim.found.iter().any(|f| !cfg.known_sigs.contains(&f.sig));
    while steps.len() < cfg.max_steps && !sim.dead && !unknown(&sim) {
        let st = g.next(&sim);
        sim.exec(&st);
        steps.push(st);
    }
    if !sim.dead && !unknown(&sim) {
        sim.exec(&Step::Quiesce);
        steps.push(Step::Quiesce);
    }
    finish(sim, steps)
}

/// Execute an explicit step list in a fresh simulator.
pub fn replay(cfg: &Cfg, steps: &[Step]) -> Outcome {
    let mut sim = Sim::new(cfg.clone());
    for s in steps {
        sim.exec(s);
        if sim.dead {
            break;
        }
    }
    finish(sim, steps.to_vec())
}

/// The full event log of an explicit step list (for evidence samples).
pub fn replay_log(cfg: &Cfg, steps: &[Step]) -> Vec<String> {
    let mut sim = Sim::new(cfg.clone());
    sim.log = Some(Vec::new());
    for s in steps {
        sim.exec(s);
        if sim.dead {
            break;
        }
    }
    sim.log.take().unwrap_or_default()
}
