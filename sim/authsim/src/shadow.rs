//! Shadow of everything honest replicas sealed, and the classification of an offered command
//! against it. The classification never looks at which mutation produced a command: it compares
//! the offered bytes with the sealed ones, so plain byte flips and field-aware mutations are
//! judged by the same rule.

use std::collections::{BTreeMap, BTreeSet};

use aranya_crypto::DeviceId;
use aranya_runtime::{CmdId, Prior};
use serde::{Deserialize, Serialize};

use crate::node::OwnedCmd;

/// Mirror of `aranya_runtime::VmProtocolData` (postcard); `kind` is a plain string so that a
/// mutation can write names that are not valid identifiers.
#[derive(Serialize, Deserialize, Clone, Debug, PartialEq, Eq)]
pub struct VmData {
    pub author_id: DeviceId,
    pub kind: String,
    pub serialized_fields: Vec<u8>,
    pub signature: Vec<u8>,
}

impl VmData {
    /// Decodes the struct and returns the bytes that follow it.
    pub fn decode(data: &[u8]) -> Option<(Self, Vec<u8>)> {
        postcard::take_from_bytes::<VmData>(data).ok().map(|(v, rest)| (v, rest.to_vec()))
    }
    pub fn encode(&self, trailing: &[u8]) -> Vec<u8> {
        let mut v = postcard::to_allocvec(self).expect("serialises");
        v.extend_from_slice(trailing);
        v
    }
}

pub struct Honest {
    pub cmd: OwnedCmd,
    /// Decoded signed part; `None` for merge commands (they carry no data and no signature).
    pub vm: Option<VmData>,
    /// Node that sealed it (merge commands: the node whose action wrote it first).
    pub by: usize,
}

#[derive(Default)]
pub struct Shadow {
    pub honest: BTreeMap<CmdId, Honest>,
    /// Creation order.
    pub order: Vec<CmdId>,
    /// Digests of offered commands that differ from a sealed command only in fields the
    /// property statement does not bind and that some replica accepted.
    pub variants: BTreeSet<u64>,
    /// Ids of accepted merge-shaped commands that no honest replica wrote.
    pub extra_ids: BTreeSet<CmdId>,
    /// Public signing-key id of every device (public data).
    pub key_ids: BTreeMap<DeviceId, Vec<u8>>,
}

#[derive(Clone, Debug, PartialEq, Eq)]
pub enum Class {
    /// Byte-identical in id, parent address, priority, policy and data to a sealed command.
    Honest,
    /// The statement does not determine the outcome (reason given).
    Undetermined(&'static str),
    /// Does not match any valid signature: must be rejected (reason = first differing bound field).
    MustReject(&'static str),
}

impl Shadow {
    pub fn record(&mut self, cmd: OwnedCmd, by: usize) {
        if self.honest.contains_key(&cmd.id) {
            return;
        }
        let vm = if matches!(cmd.parent, Prior::Merge(..)) { None } else { VmData::decode(&cmd.data).map(|(v, _)| v) };
        self.order.push(cmd.id);
        self.honest.insert(cmd.id, Honest { cmd, vm, by });
    }

    pub fn is_honest_digest(&self, c: &OwnedCmd) -> bool {
        self.honest.get(&c.id).is_some_and(|h| h.cmd == *c)
    }

    pub fn classify(&self, c: &OwnedCmd, strict_merge: bool) -> Class {
        let h = self.honest.get(&c.id);
        if h.is_some_and(|h| h.cmd == *c) {
            return Class::Honest;
        }
        if self.variants.contains(&c.digest()) {
            return Class::Undetermined("known-variant");
        }
        if matches!(c.parent, Prior::Merge(..)) {
            // A sealed, signed command presented with a merge parent: its parent was changed in
            // transit, the signature covers a different one.
            if h.is_some_and(|h| h.vm.is_some()) {
                return Class::MustReject("merge-parent");
            }
            // Otherwise: merge commands are written by the runtime, carry no author and no
            // signature, and never reach the policy's open block: the statement is silent about
            // a merge-shaped command that no honest replica wrote.
            return if strict_merge { Class::MustReject("merge-shaped") } else { Class::Undetermined("merge-shaped") };
        }
        let Some(h) = h else {
            // Unknown id. If it is exactly what the verifier would derive from the offered fields,
            // a bound field was changed and the id recomputed to fit (a hashing adversary).
            let fits = VmData::decode(&c.data).is_some_and(|(v, _)| {
                let pid = match c.parent {
                    Prior::Single(a) => a.id,
                    _ => CmdId::default(),
                };
                self.key_ids.get(&v.author_id).is_some_and(|k| crate::node::recompute_cmd_id(k, &v.kind, &pid, &v.serialized_fields, &v.signature) == c.id)
            });
            return Class::MustReject(if fits { "recomputed-id" } else { "id" });
        };
        let Some(hv) = &h.vm else { return Class::MustReject("id-of-merge") };
        let Some((v, _trailing)) = VmData::decode(&c.data) else { return Class::MustReject("undecodable") };
        if c.parent_ids() != h.cmd.parent_ids() {
            return Class::MustReject("parent");
        }
        if v.kind != hv.kind {
            return Class::MustReject("kind");
        }
        if v.serialized_fields != hv.serialized_fields {
            // Other bytes that decode to the same field values were still never signed.
            let reencoded = crate::mutate::same_struct_other_bytes(&hv.kind, &hv.serialized_fields, &v.serialized_fields);
            return Class::MustReject(if reencoded { "payload-reencoded" } else { "payload" });
        }
        if v.signature != hv.signature {
            return Class::MustReject("signature");
        }
        if v.author_id != hv.author_id {
            // The shipped policy verifies `Init` with the key carried in its own payload and never
            // looks at the envelope's author: there is no registered key the author could be
            // checked against.
            return if hv.kind == "Init" { Class::Undetermined("init-author") } else { Class::MustReject("author") };
        }
        // Every bound field and the signature agree; something else differs.
        if c.priority != h.cmd.priority {
            Class::Undetermined("priority")
        } else if c.parent != h.cmd.parent {
            Class::Undetermined("parent-max-cut")
        } else if c.policy != h.cmd.policy {
            Class::Undetermined("policy-bytes")
        } else {
            Class::Undetermined("data-encoding")
        }
    }
}
