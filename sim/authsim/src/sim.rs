//! The simulator: explicit steps, nodes, the transport, and the C35 oracle.

use std::collections::{BTreeMap, BTreeSet};

use aranya_crypto::DeviceId;
use aranya_policy_vm::{Value, ident};
use aranya_runtime::{
    ClientError, CmdId, GraphId, MAX_SYNC_MESSAGE_SIZE, MemSpill, PeerCache, Prior, Query as _, Segment as _, Storage as _,
    StorageError, StorageProvider as _, SyncIncoming, SyncRequester, SyncResponder, Transaction, VmAction,
};
use serde::{Deserialize, Serialize};

use crate::{
    mutate::{self, Mut, MutKind},
    node::{Guarded, Node, OwnedCmd, RecSink, SP, SimCsprng, SinkEv, Store, guarded},
    shadow::{Class, Shadow},
};

const FUEL: u64 = 5_000_000;

#[derive(Serialize, Deserialize, Clone, Debug, PartialEq)]
pub struct Cfg {
    pub seed: u64,
    pub n_nodes: usize,
    pub max_steps: usize,
    /// Percentage of responses that are mutated in transit.
    pub fault_pct: u64,
    /// Stop publishing once this many commands were sealed.
    pub max_cmds: usize,
    /// Treat merge-shaped commands that no honest replica wrote as "must be rejected"
    /// (off by default: the statement is about signed commands).
    #[serde(default)]
    pub strict_merge: bool,
    /// Signatures listed in /verif/known-findings.txt: a run goes on after such a finding (unless
    /// the library panicked) so that it cannot mask a different one later in the same run.
    #[serde(default)]
    pub known_sigs: Vec<String>,
}

#[derive(Serialize, Deserialize, Clone, Debug, PartialEq)]
pub enum Step {
    /// Node `r` creates the graph (once per run).
    Init { r: usize },
    /// Node `r` registers its device keys (`add_device_keys`).
    AddKeys { r: usize },
    /// Honest publish: kind 0 = create_action, 1 = increment, 2 = decrement.
    Act { r: usize, kind: u8, v: i64 },
    /// One sync session a <- b; `muts[k]` is applied to the k-th response in transit.
    Sync { a: usize, b: usize, sid: u64, one_by_one: bool, muts: Vec<Option<Mut>> },
    Quiesce,
}

#[derive(Clone, Debug, Serialize, Deserialize, PartialEq)]
pub struct Found {
    pub property: String,
    pub class: String,
    pub sig: String,
    pub detail: String,
    pub step: usize,
}

#[derive(Clone, Debug, Default)]
pub struct Stats {
    pub steps: u64,
    pub counters: BTreeMap<String, u64>,
    pub anomalies: Vec<String>,
}

impl Stats {
    pub fn bump(&mut self, k: &str) {
        *self.counters.entry(k.to_string()).or_insert(0) += 1;
    }
    pub fn add(&mut self, k: &str, n: u64) {
        *self.counters.entry(k.to_string()).or_insert(0) += n;
    }
}

/// Stable, file-name friendly abbreviation of an error or panic message (no ids, no numbers).
pub fn slug(msg: &str) -> String {
    let head = msg.split(" @ ").next().unwrap_or(msg);
    let head = head.split(": ").filter(|p| !(p.len() >= 30 && p.chars().all(|c| c.is_ascii_alphanumeric()))).collect::<Vec<_>>().join(" ");
    let mut out = String::new();
    for ch in head.chars() {
        if ch.is_ascii_alphabetic() || ch == '_' {
            out.push(ch.to_ascii_lowercase());
        } else if !out.ends_with('-') {
            out.push('-');
        }
        if out.len() >= 56 {
            break;
        }
    }
    out.trim_matches('-').to_string()
}

pub fn short(id: &CmdId) -> String {
    id.to_string().chars().take(6).collect()
}

#[derive(Debug)]
enum Outcome {
    Accepted,
    Skipped,
    Rejected(String),
}

/// Per-session bookkeeping of the requester side.
struct Sess {
    /// What the requester holds: committed graph plus commands accepted into the transaction
    /// (id -> max cut).
    view: BTreeMap<CmdId, u64>,
    had_graph: bool,
    /// Ids whose acceptance is certain.
    accepted: Vec<CmdId>,
    ambiguous: bool,
    saw_rejection: bool,
    forged_rejected_reached: u64,
    honest_accepted: u64,
    effects: Vec<CmdId>,
}

pub struct Sim {
    pub cfg: Cfg,
    pub nodes: Vec<Node>,
    pub gid: Option<GraphId>,
    pub shadow: Shadow,
    pub stats: Stats,
    pub found: Vec<Found>,
    pub step_no: usize,
    pub dead: bool,
    pub event_hash: u64,
    pub trace: bool,
    /// Node accepted something whose outcome the statement leaves open and that changes the
    /// structure of its graph: positive expectations are suspended for it.
    pub tainted: Vec<bool>,
    pub sealed: usize,
    pub quiesce_sid: u64,
    /// The graph's single `Create` was published; sum of everything ever added to `Stuff.x`.
    pub created: bool,
    pub added: i64,
    /// Event log kept in full (only for the runs written out as evidence samples).
    pub log: Option<Vec<String>>,
}

type Trx = Transaction<SP, Store>;

impl Sim {
    pub fn new(cfg: Cfg) -> Self {
        let nodes: Vec<Node> = (0..cfg.n_nodes).map(|i| Node::new(i, cfg.seed)).collect();
        let n = cfg.n_nodes;
        let mut shadow = Shadow::default();
        for node in &nodes {
            shadow.key_ids.insert(node.device_id, node.sign_key_id.clone());
        }
        Self {
            cfg,
            nodes,
            gid: None,
            shadow,
            stats: Stats::default(),
            found: Vec::new(),
            step_no: 0,
            dead: false,
            event_hash: 0xcbf2_9ce4_8422_2325,
            trace: std::env::var_os("AUTHSIM_TRACE").is_some(),
            tainted: vec![false; n],
            sealed: 0,
            quiesce_sid: 0x5151_0000,
            created: false,
            added: 0,
            log: None,
        }
    }

    pub fn note(&mut self, s: &str) {
        if self.trace {
            eprintln!("TRACE step {}: {s}", self.step_no);
        }
        if let Some(l) = &mut self.log {
            l.push(format!("step {}: {s}", self.step_no));
        }
        self.event_hash = vcommon::fnv(&[&self.event_hash.to_le_bytes()[..], s.as_bytes()].concat());
    }

    pub fn violation(&mut self, class: &str, sig: &str, detail: String) {
        self.note(&format!("VIOLATION {class} {sig}"));
        if self.cfg.known_sigs.iter().any(|k| k == sig) {
            // The run goes on after a listed finding, but its consequences must not surface as
            // fresh findings: only the negative checks (forged accepted / stored) stay armed.
            self.tainted.iter_mut().for_each(|t| *t = true);
        }
        self.found.push(Found { property: "C35".into(), class: class.to_string(), sig: sig.to_string(), detail, step: self.step_no });
    }

    pub fn anomaly(&mut self, what: String) {
        self.note(&format!("ANOMALY {what}"));
        if self.stats.anomalies.len() < 32 {
            self.stats.anomalies.push(format!("step {}: {what}", self.step_no));
        }
        self.stats.bump("anomaly_events");
    }

    fn devices(&self) -> Vec<DeviceId> {
        self.nodes.iter().map(|n| n.device_id).collect()
    }

    // ------------------------------------------------------------------ ground truth of a node

    /// Every command reachable from the committed heads, the head ids and a digest of the
    /// committed facts. `None` when the node has no storage for the graph.
    fn scan(&mut self, r: usize) -> Result<Option<(Vec<OwnedCmd>, Vec<CmdId>, u64)>, String> {
        let Some(gid) = self.gid else { return Ok(None) };
        let node = &mut self.nodes[r];
        let res = guarded(|| -> Result<Option<(Vec<OwnedCmd>, Vec<CmdId>, u64)>, StorageError> {
            let st = match node.client.provider().get_storage(gid) {
                Ok(s) => s,
                Err(StorageError::NoSuchStorage) => return Ok(None),
                Err(e) => return Err(e),
            };
            let mut heads: Vec<CmdId> = Vec::new();
            let mut stack = Vec::new();
            for h in st.get_heads()?.iter() {
                heads.push(h.id);
                stack.push(h.location());
            }
            heads.sort();
            // segment -> highest max cut reachable inside it
            let mut reach: BTreeMap<u64, u64> = BTreeMap::new();
            let mut out = Vec::new();
            while let Some(loc) = stack.pop() {
                let seg_ix: u64 = loc.segment.get();
                let upto = loc.max_cut.get();
                let seg = st.get_segment(loc)?;
                let first = seg.first_location();
                let from = match reach.get(&seg_ix) {
                    Some(have) if *have >= upto => continue,
                    Some(have) => *have + 1,
                    None => {
                        match seg.prior() {
                            Prior::None => {}
                            Prior::Single(l) => stack.push(l),
                            Prior::Merge(l, r) => {
                                stack.push(l);
                                stack.push(r);
                            }
                        }
                        first.max_cut.get()
                    }
                };
                reach.insert(seg_ix, upto);
                for c in seg.get_from(first) {
                    let o = OwnedCmd::of(&c);
                    let mc = o.max_cut();
                    if mc >= from && mc <= upto {
                        out.push(o);
                    }
                }
            }
            let idx = st.fact_cache()?;
            let mut fh = Vec::new();
            for name in ["Stuff", "DeviceSignKey", "DeviceIdentKey", "Message"] {
                for f in idx.query_prefix(name, &[])? {
                    let f = f?;
                    fh.extend_from_slice(name.as_bytes());
                    for k in f.key.iter() {
                        fh.extend_from_slice(&(k.len() as u32).to_le_bytes());
                        fh.extend_from_slice(k);
                    }
                    fh.extend_from_slice(&(f.value.len() as u32).to_le_bytes());
                    fh.extend_from_slice(&f.value);
                }
            }
            Ok(Some((out, heads, vcommon::fnv(&fh))))
        });
        match res {
            Guarded::Done(Ok(x)) => Ok(x),
            Guarded::Done(Err(e)) => Err(format!("storage error while reading node {r}: {e}")),
            Guarded::Panicked(m) => Err(format!("panic while reading node {r}: {m}")),
        }
    }

    /// After a local action: everything new in the node's graph was sealed (or, for merge
    /// commands, written) by this honest replica.
    fn record_local(&mut self, r: usize, what: &str) {
        match self.scan(r) {
            Ok(Some((cmds, _heads, facts))) => {
                let mut fresh = 0;
                for c in &cmds {
                    if !self.nodes[r].held.contains_key(&c.id) {
                        fresh += 1;
                        if !self.shadow.honest.contains_key(&c.id) {
                            self.sealed += 1;
                            if matches!(c.parent, Prior::Merge(..)) {
                                self.stats.bump("sealed.merge");
                            } else {
                                self.stats.bump("sealed.signed");
                            }
                        }
                        self.shadow.record(c.clone(), r);
                        self.check_id_recomputation(c);
                    }
                }
                self.nodes[r].held = cmds.iter().map(|c| (c.id, c.digest())).collect();
                self.nodes[r].has_graph = true;
                self.nodes[r].facts = facts;
                self.note(&format!("{what} r{r} ok new{fresh} total{}", cmds.len()));
            }
            Ok(None) => self.anomaly(format!("{what}: node {r} has no storage after a successful action")),
            Err(e) => {
                self.anomaly(e);
                self.dead = true;
            }
        }
    }

    /// Self-check of the hashing adversary: the id of every sealed signed command must be
    /// reproducible from public data, otherwise the Re* mutations silently do not apply.
    fn check_id_recomputation(&mut self, c: &OwnedCmd) {
        let Some(h) = self.shadow.honest.get(&c.id) else { return };
        let Some(v) = &h.vm else { return };
        let Some(p) = self.nodes.iter().position(|n| n.device_id == v.author_id) else { return };
        let pid = match c.parent {
            Prior::Single(a) => a.id,
            _ => CmdId::default(),
        };
        if crate::node::recompute_cmd_id(&self.nodes[p].sign_key_id, &v.kind, &pid, &v.serialized_fields, &v.signature) == c.id {
            self.stats.bump("id_recomputed_from_public_data.ok");
        } else {
            self.stats.bump("id_recomputed_from_public_data.MISMATCH");
        }
    }

    // ------------------------------------------------------------------ honest steps

    fn action(&mut self, r: usize, name: &'static str, args: Vec<Value>) -> Guarded<Result<(), ClientError>> {
        let gid = self.gid.expect("graph exists");
        let node = &mut self.nodes[r];
        let mut sink = RecSink::default();
        let name = match name {
            "add_device_keys" => ident!("add_device_keys"),
            "create_action" => ident!("create_action"),
            "increment" => ident!("increment"),
            _ => ident!("decrement"),
        };
        aranya_runtime::verif::set_fuel(FUEL);
        let r = guarded(|| node.client.action(gid, &mut sink, VmAction { name, args: args.as_slice().into() }, &mut node.buffers, MemSpill::new));
        aranya_runtime::verif::set_fuel(u64::MAX);
        r
    }

    fn step_init(&mut self, r: usize) {
        if self.gid.is_some() || r >= self.nodes.len() {
            return;
        }
        let node = &mut self.nodes[r];
        let mut sink = RecSink::default();
        let args = [Value::from(1i64), Value::from(node.sign_pk.clone())];
        let res = guarded(|| node.client.new_graph(&[0u8; 8], VmAction { name: ident!("init"), args: args.as_slice().into() }, &mut sink));
        match res {
            Guarded::Done(Ok(gid)) => {
                self.gid = Some(gid);
                self.record_local(r, "init");
            }
            Guarded::Done(Err(e)) => {
                self.anomaly(format!("honest init failed at origin: {e}"));
                self.stats.bump("honest_action_failed.init");
                self.dead = true;
            }
            Guarded::Panicked(m) => {
                self.anomaly(format!("init panicked: {m}"));
                self.dead = true;
            }
        }
    }

    fn step_add_keys(&mut self, r: usize) {
        if self.gid.is_none() || r >= self.nodes.len() || !self.nodes[r].has_graph || self.nodes[r].registered {
            return;
        }
        let args = vec![Value::from(self.nodes[r].ident_pk.clone()), Value::from(self.nodes[r].sign_pk.clone())];
        match self.action(r, "add_device_keys", args) {
            Guarded::Done(Ok(())) => {
                self.nodes[r].registered = true;
                self.record_local(r, "add_keys");
            }
            Guarded::Done(Err(e)) => {
                self.stats.bump("honest_action_failed.add_device_keys");
                self.note(&format!("add_keys r{r} failed {e}"));
            }
            Guarded::Panicked(m) => {
                self.anomaly(format!("add_device_keys panicked: {m}"));
                self.dead = true;
            }
        }
    }

    /// The shipped policy is a test policy: `test_fail(..)` compiles to a VM panic, and a command
    /// that panics inside a braid makes every later commit of that head set fail for good (by
    /// design, nothing to do with authenticity). The workload therefore stays inside the region
    /// where no braid order can trip a `test_fail`: one `Create` per graph (so `Stuff[a:1]` is
    /// never created twice and every `Increment` descends from it) and the sum of everything ever
    /// added stays below the policy's bound of 25. Enforced here, not in the generator, so that
    /// minimised or hand-edited step lists stay inside it too.
    fn step_act(&mut self, r: usize, kind: u8, v: i64) {
        if self.gid.is_none() || r >= self.nodes.len() || !self.nodes[r].registered || self.sealed >= self.cfg.max_cmds {
            return;
        }
        let v = v.rem_euclid(1000);
        let (name, v) = match kind % 3 {
            0 => {
                if self.created {
                    return;
                }
                ("create_action", 1 + v % 3)
            }
            1 => {
                let v = 1 + v % 2;
                if self.added + v > 24 {
                    return;
                }
                ("increment", v)
            }
            _ => ("decrement", 1 + v % 4),
        };
        match self.action(r, name, vec![Value::from(v)]) {
            Guarded::Done(Ok(())) => {
                self.stats.bump("honest_published");
                match kind % 3 {
                    0 => {
                        self.created = true;
                        self.added += v;
                    }
                    1 => self.added += v,
                    _ => {}
                }
                self.record_local(r, name);
            }
            Guarded::Done(Err(e)) => {
                // Policy checks (value out of range, fact already exists) legitimately refuse some.
                self.stats.bump("honest_action_refused");
                self.note(&format!("{name} r{r} refused {e}"));
            }
            Guarded::Panicked(m) => {
                self.anomaly(format!("{name} panicked: {m}"));
                self.dead = true;
            }
        }
    }

    // ------------------------------------------------------------------ sync session with transport faults

    fn add(&mut self, a: usize, trx: &mut Trx, cmds: &[OwnedCmd]) -> (Guarded<Result<usize, ClientError>>, RecSink) {
        let node = &mut self.nodes[a];
        let mut sink = RecSink::default();
        aranya_runtime::verif::set_fuel(FUEL);
        let r = guarded(|| node.client.add_commands(trx, &mut sink, cmds, &mut node.buffers, MemSpill::new));
        aranya_runtime::verif::set_fuel(u64::MAX);
        (r, sink)
    }

    fn parents_held(sess: &Sess, c: &OwnedCmd) -> bool {
        match c.parent {
            Prior::None => !sess.had_graph && sess.view.is_empty(),
            Prior::Single(p) => sess.view.get(&p.id) == Some(&p.max_cut.get()),
            Prior::Merge(l, r) => sess.view.get(&l.id) == Some(&l.max_cut.get()) && sess.view.get(&r.id) == Some(&r.max_cut.get()),
        }
    }

    fn kind_key(kind: Option<MutKind>) -> String {
        kind.map_or_else(|| "none".to_string(), |k| format!("{k:?}"))
    }

    /// Accepting an undetermined variant: remember it; if it changes the graph structure the
    /// node's positive expectations are suspended.
    fn accept_variant(&mut self, a: usize, c: &OwnedCmd) {
        self.shadow.variants.insert(c.digest());
        let structural = match self.shadow.honest.get(&c.id) {
            Some(h) => h.cmd.parent != c.parent,
            None => true,
        };
        if !self.shadow.honest.contains_key(&c.id) {
            self.shadow.extra_ids.insert(c.id);
        }
        if structural {
            self.tainted[a] = true;
            self.stats.bump("tainted_nodes_events");
        }
    }

    #[allow(clippy::too_many_arguments)]
    fn judge_one(&mut self, a: usize, c: &OwnedCmd, class: &Class, known: bool, held: bool, out: &Outcome, sink: &RecSink, kind: Option<MutKind>, sess: &mut Sess, ctx: &str) {
        let kk = Self::kind_key(kind);
        let committed_effects = sink.log.iter().any(|e| matches!(e, SinkEv::Commit)) && sink.log.iter().any(|e| matches!(e, SinkEv::Effect { .. }));
        self.note(&format!("offer {ctx} {} {class:?} known{known} held{held} -> {out:?}", short(&c.id)));
        // A rejected signed-shaped command talks to the sink only about itself: whatever it
        // emitted must have been rolled back (merge-shaped commands re-evaluate older commands).
        if matches!(out, Outcome::Rejected(_)) && !matches!(c.parent, Prior::Merge(..)) && !sink.log.is_empty() && sink.log.last() != Some(&SinkEv::Rollback) {
            let why = if let Outcome::Rejected(e) = out { slug(e) } else { String::new() };
            self.violation("C35.rejected-leaves-trace", &format!("effects-not-rolled-back:{why}"), format!("{ctx}: node {a} rejected {} ({class:?}) but the sink was left with {:?}: its effects were neither rolled back nor is the command stored", short(&c.id), sink.log));
        }
        match class {
            Class::Honest => match out {
                Outcome::Accepted => {
                    if known {
                        self.anomaly(format!("{ctx}: {} accepted although the node already holds it", short(&c.id)));
                    }
                    if !held {
                        self.anomaly(format!("{ctx}: honest {} accepted although its parent is not held", short(&c.id)));
                        self.tainted[a] = true;
                    }
                    sess.honest_accepted += 1;
                    self.stats.bump("honest_accepted");
                    if self.shadow.honest.get(&c.id).is_some_and(|h| h.by != a && h.vm.as_ref().is_some_and(|v| v.author_id != self.nodes[a].device_id)) {
                        self.stats.bump("honest_accepted_other_author");
                    }
                    if kind.is_some() {
                        self.stats.bump(&format!("mut.{kk}.honest_accepted_alongside"));
                    }
                    sess.view.insert(c.id, c.max_cut());
                    sess.accepted.push(c.id);
                }
                Outcome::Skipped => {
                    if known {
                        self.stats.bump("honest_duplicate_skipped");
                    } else if held && !sess.ambiguous && !self.tainted[a] {
                        self.violation("C35.honest-not-accepted", "honest-skipped", format!("{ctx}: node {a} holds the parent of honest command {} and does not hold the command, yet add_commands reported nothing added", short(&c.id)));
                    }
                }
                Outcome::Rejected(e) => {
                    sess.saw_rejection = true;
                    if !known && held && !sess.ambiguous && !self.tainted[a] {
                        self.violation("C35.honest-rejected", "honest-rejected", format!("{ctx}: node {a} holds the parent of honest command {} (byte-identical to what its author sealed) but rejected it: {e}", short(&c.id)));
                    } else {
                        self.stats.bump("honest_rejected_parent_missing");
                    }
                }
            },
            Class::MustReject(reason) => {
                self.stats.bump(&format!("mut.{kk}.offered"));
                self.stats.bump(&format!("forged.{reason}.offered"));
                let reached = held && !known;
                if reached {
                    self.stats.bump(&format!("mut.{kk}.reached_verification"));
                }
                match out {
                    Outcome::Accepted => {
                        self.stats.bump(&format!("mut.{kk}.ACCEPTED.{reason}"));
                        self.violation("C35.forged-accepted", &format!("forged-accepted:{reason}"), format!("{ctx}: node {a} accepted {} whose {reason} does not match what any honest replica sealed (transport mutation {kk})", short(&c.id)));
                        sess.view.insert(c.id, c.max_cut());
                    }
                    Outcome::Skipped => {
                        self.stats.bump(&format!("mut.{kk}.skipped_as_known"));
                    }
                    Outcome::Rejected(e) => {
                        sess.saw_rejection = true;
                        self.stats.bump(&format!("mut.{kk}.rejected"));
                        self.stats.bump(&format!("reject_error.{}", slug(e)));
                        if reached {
                            sess.forged_rejected_reached += 1;
                        }
                        if committed_effects {
                            self.violation("C35.effects-of-rejected", "effects-committed", format!("{ctx}: node {a} rejected forged {} but the sink saw its effects committed: {:?}", short(&c.id), sink.log));
                        }
                    }
                }
            }
            Class::Undetermined(reason) => {
                self.stats.bump(&format!("mut.{kk}.undetermined"));
                match out {
                    Outcome::Accepted => {
                        self.stats.bump(&format!("undetermined.{reason}.accepted"));
                        self.accept_variant(a, c);
                        sess.view.insert(c.id, c.max_cut());
                    }
                    Outcome::Skipped => self.stats.bump(&format!("undetermined.{reason}.skipped")),
                    Outcome::Rejected(_) => {
                        sess.saw_rejection = true;
                        self.stats.bump(&format!("undetermined.{reason}.rejected"));
                    }
                }
            }
        }
    }

    fn panic_in_add(&mut self, a: usize, class: &Class, c: &OwnedCmd, msg: String, ctx: &str) {
        self.dead = true;
        // The signature names the panic, not the command that happened to trip it.
        let what = slug(&msg);
        match class {
            Class::MustReject(reason) => self.violation("C35.panic", &format!("panic:{what}"), format!("{ctx}: node {a} panicked instead of rejecting forged {} ({reason}): {msg}", short(&c.id))),
            Class::Honest => self.violation("C35.panic", &format!("panic:{what}"), format!("{ctx}: node {a} panicked while adding honest {}: {msg}", short(&c.id))),
            Class::Undetermined(_) => self.anomaly(format!("{ctx}: add_commands panicked on a command whose outcome the statement leaves open: {msg}")),
        }
    }

    fn offer_one_by_one(&mut self, a: usize, trx: &mut Trx, cmds: &[OwnedCmd], kind: Option<MutKind>, sess: &mut Sess, ctx: &str) {
        for c in cmds {
            if self.dead {
                return;
            }
            let class = self.shadow.classify(c, self.cfg.strict_merge);
            let known = sess.view.contains_key(&c.id);
            let held = Self::parents_held(sess, c);
            let (res, sink) = self.add(a, trx, std::slice::from_ref(c));
            sess.effects.extend(sink.committed.iter().map(|e| e.0));
            let out = match res {
                Guarded::Panicked(m) => {
                    self.panic_in_add(a, &class, c, m, ctx);
                    return;
                }
                Guarded::Done(Ok(0)) => Outcome::Skipped,
                Guarded::Done(Ok(_)) => Outcome::Accepted,
                Guarded::Done(Err(e)) => Outcome::Rejected(e.to_string()),
            };
            self.judge_one(a, c, &class, known, held, &out, &sink, kind, sess, ctx);
        }
    }

    fn offer_batch(&mut self, a: usize, trx: &mut Trx, cmds: &[OwnedCmd], kind: Option<MutKind>, sess: &mut Sess, ctx: &str) {
        let kk = Self::kind_key(kind);
        let classes: Vec<Class> = cmds.iter().map(|c| self.shadow.classify(c, self.cfg.strict_merge)).collect();
        // Expectation walk on a copy of the view.
        let mut probe = Sess { view: sess.view.clone(), had_graph: sess.had_graph, accepted: vec![], ambiguous: false, saw_rejection: false, forged_rejected_reached: 0, honest_accepted: 0, effects: vec![] };
        let mut expect_fail: Option<usize> = None;
        let mut first_ambiguous: Option<usize> = None;
        let mut sure_accept: Vec<usize> = Vec::new();
        let mut dup_present = false;
        for (i, c) in cmds.iter().enumerate() {
            let known = probe.view.contains_key(&c.id);
            let held = Self::parents_held(&probe, c);
            match &classes[i] {
                // A byte-identical duplicate of something held is passed over silently.
                Class::Honest if known => dup_present = true,
                Class::Honest if held => {
                    if first_ambiguous.is_none() {
                        sure_accept.push(i);
                    }
                    probe.view.insert(c.id, c.max_cut());
                }
                Class::MustReject(_) if known => {
                    first_ambiguous.get_or_insert(i);
                }
                Class::Honest | Class::MustReject(_) => {
                    expect_fail = Some(i);
                    break;
                }
                Class::Undetermined(_) => {
                    first_ambiguous.get_or_insert(i);
                }
            }
        }
        let (res, sink) = self.add(a, trx, cmds);
        sess.effects.extend(sink.committed.iter().map(|e| e.0));
        let ids: Vec<String> = cmds.iter().map(|c| short(&c.id)).collect();
        match res {
            Guarded::Panicked(m) => {
                let i = expect_fail.unwrap_or(0);
                self.panic_in_add(a, &classes[i], &cmds[i], m, ctx);
            }
            Guarded::Done(Ok(n)) => {
                self.note(&format!("offer-batch {ctx} {ids:?} -> ok {n}"));
                // No error anywhere: every command was either added or skipped as already present.
                let mut seen: BTreeSet<CmdId> = BTreeSet::new();
                for (i, c) in cmds.iter().enumerate() {
                    let known = sess.view.contains_key(&c.id) || seen.contains(&c.id);
                    let held = Self::parents_held(sess, c);
                    match &classes[i] {
                        Class::Honest => {
                            if !known {
                                if !held && first_ambiguous.is_none_or(|j| j > i) {
                                    self.anomaly(format!("{ctx}: honest {} accepted although its parent is not held", short(&c.id)));
                                    self.tainted[a] = true;
                                }
                                sess.honest_accepted += 1;
                                self.stats.bump("honest_accepted");
                                if self.shadow.honest.get(&c.id).is_some_and(|h| h.by != a && h.vm.as_ref().is_some_and(|v| v.author_id != self.nodes[a].device_id)) {
                                    self.stats.bump("honest_accepted_other_author");
                                }
                                if kind.is_some() {
                                    self.stats.bump(&format!("mut.{kk}.honest_accepted_alongside"));
                                }
                                sess.view.insert(c.id, c.max_cut());
                                if first_ambiguous.is_none_or(|j| j > i) {
                                    sess.accepted.push(c.id);
                                }
                            } else {
                                self.stats.bump("honest_duplicate_skipped");
                            }
                        }
                        Class::MustReject(reason) => {
                            self.stats.bump(&format!("mut.{kk}.offered"));
                            self.stats.bump(&format!("forged.{reason}.offered"));
                            if known {
                                self.stats.bump(&format!("mut.{kk}.skipped_as_known"));
                            } else {
                                if held {
                                    self.stats.bump(&format!("mut.{kk}.reached_verification"));
                                }
                                self.stats.bump(&format!("mut.{kk}.ACCEPTED.{reason}"));
                                self.violation("C35.forged-accepted", &format!("forged-accepted:{reason}"), format!("{ctx}: node {a} added a whole batch without error although it contains {} whose {reason} does not match what any honest replica sealed (transport mutation {kk})", short(&c.id)));
                            }
                        }
                        Class::Undetermined(_) => {
                            // Accepted or skipped: resolved by the scan after commit.
                            self.stats.bump(&format!("mut.{kk}.undetermined"));
                            sess.ambiguous = true;
                        }
                    }
                    seen.insert(c.id);
                }
            }
            Guarded::Done(Err(e)) => {
                sess.saw_rejection = true;
                let e = e.to_string();
                self.note(&format!("offer-batch {ctx} {ids:?} -> err {e} expect_fail {expect_fail:?} amb {first_ambiguous:?}"));
                if matches!(sink.log.last(), Some(SinkEv::Begin | SinkEv::Effect { .. })) {
                    self.violation("C35.rejected-leaves-trace", &format!("effects-not-rolled-back:{}", slug(&e)), format!("{ctx}: add_commands of node {a} failed ({e}) and left the sink inside an open evaluation: {:?}", sink.log.iter().rev().take(3).collect::<Vec<_>>()));
                }
                // Commands before the first possible failure point were certainly accepted.
                let certain_upto = match (expect_fail, first_ambiguous) {
                    (Some(i), Some(j)) => i.min(j),
                    (Some(i), None) => i,
                    (None, Some(j)) => j,
                    (None, None) => 0,
                };
                for &i in sure_accept.iter().filter(|i| **i < certain_upto) {
                    let c = &cmds[i];
                    sess.honest_accepted += 1;
                    self.stats.bump("honest_accepted");
                    if kind.is_some() {
                        self.stats.bump(&format!("mut.{kk}.honest_accepted_alongside"));
                    }
                    sess.view.insert(c.id, c.max_cut());
                    sess.accepted.push(c.id);
                }
                match (expect_fail, first_ambiguous) {
                    (Some(i), amb) if amb.is_none_or(|j| j > i) => {
                        let c = &cmds[i];
                        match &classes[i] {
                            Class::MustReject(reason) => {
                                self.stats.bump(&format!("mut.{kk}.offered"));
                                self.stats.bump(&format!("forged.{reason}.offered"));
                                self.stats.bump(&format!("mut.{kk}.rejected"));
                                self.stats.bump(&format!("reject_error.{}", slug(&e)));
                                if Self::parents_held(sess, c) {
                                    self.stats.bump(&format!("mut.{kk}.reached_verification"));
                                    sess.forged_rejected_reached += 1;
                                }
                                // Effects of the accepted prefix may be committed; the rejected
                                // command's own effects must not be: the last sink event before the
                                // error must not be a commit that follows an effect of this id.
                                let leaked = sink.committed.iter().any(|(id, _)| *id == c.id) && !self.shadow.honest.contains_key(&c.id);
                                if leaked {
                                    self.violation("C35.effects-of-rejected", "effects-committed", format!("{ctx}: node {a} rejected forged {} but the sink saw effects attributed to it committed", short(&c.id)));
                                }
                            }
                            _ => self.stats.bump("honest_rejected_parent_missing"),
                        }
                        // Later commands of the batch were not processed.
                        self.stats.add("batch_unprocessed_after_error", (cmds.len() - i - 1) as u64);
                    }
                    (None, None) if dup_present => {
                        // The statement does not say how a duplicate of a held command is treated.
                        self.anomaly(format!("{ctx}: a batch of sealed commands containing duplicates of held ones failed: {e}"));
                        sess.ambiguous = true;
                    }
                    (None, None) => {
                        if !self.tainted[a] && !sess.ambiguous {
                            self.violation("C35.honest-rejected", "honest-rejected", format!("{ctx}: node {a} was offered a batch of {} commands, all byte-identical to sealed ones with parents held, and add_commands failed: {e}", cmds.len()));
                        }
                    }
                    _ => {
                        // The failing command cannot be told apart from an earlier one whose outcome is open.
                        sess.ambiguous = true;
                        self.stats.bump("batch_ambiguous_failure");
                    }
                }
            }
        }
    }

    /// One session a <- b. Returns how many commands a's committed graph gained.
    pub fn step_sync(&mut self, a: usize, b: usize, sid: u64, one_by_one: bool, muts: &[Option<Mut>], quiescent: bool) -> usize {
        let Some(gid) = self.gid else { return 0 };
        let n = self.nodes.len();
        if a >= n || b >= n || a == b || !self.nodes[b].has_graph || self.dead {
            return 0;
        }
        self.stats.bump(if quiescent { "sessions.quiescent" } else { "sessions" });
        let ctx = format!("s{} a{a}<-b{b}", self.step_no);
        let mut trx: Trx = self.nodes[a].client.transaction(gid);
        let mut requester = SyncRequester::new(gid, SimCsprng::new(sid));
        let cache = PeerCache::new();
        let mut req = vec![0u8; MAX_SYNC_MESSAGE_SIZE];
        aranya_runtime::verif::set_fuel(FUEL);
        let polled = {
            let node = &mut self.nodes[a];
            guarded(|| {
                let heads = trx.session_heads(&cache);
                requester.poll(&mut req, node.client.provider(), &heads, &mut node.buffers.traversal.primary)
            })
        };
        aranya_runtime::verif::set_fuel(u64::MAX);
        let len = match polled {
            Guarded::Done(Ok((len, _))) => len,
            Guarded::Done(Err(e)) => {
                self.anomaly(format!("{ctx}: requester.poll failed: {e}"));
                return 0;
            }
            Guarded::Panicked(m) => {
                self.anomaly(format!("{ctx}: requester.poll panicked: {m}"));
                self.dead = true;
                return 0;
            }
        };
        let mut responder = SyncResponder::new();
        let recv = guarded(|| match SyncIncoming::decode(&req[..len]) {
            Ok(SyncIncoming::Poll(p)) => responder.receive(p).map_err(|e| e.to_string()),
            Ok(_) => Err("not a poll".to_string()),
            Err(e) => Err(e.to_string()),
        });
        match recv {
            Guarded::Done(Ok(())) => {}
            Guarded::Done(Err(e)) => {
                self.anomaly(format!("{ctx}: responder refused an untouched request: {e}"));
                return 0;
            }
            Guarded::Panicked(m) => {
                self.anomaly(format!("{ctx}: responder.receive panicked: {m}"));
                self.dead = true;
                return 0;
            }
        }
        let mut rcache = PeerCache::new();
        let mut sess = Sess {
            view: self.nodes[a].held.keys().map(|id| (*id, self.max_cut_of_held(a, id))).collect(),
            had_graph: self.nodes[a].has_graph,
            accepted: Vec::new(),
            ambiguous: false,
            saw_rejection: false,
            forged_rejected_reached: 0,
            honest_accepted: 0,
            effects: Vec::new(),
        };
        let devices = self.devices();
        let key_ids: Vec<Vec<u8>> = self.nodes.iter().map(|n| n.sign_key_id.clone()).collect();
        let mut k = 0usize;
        while responder.ready() && k < 64 && !self.dead {
            let mut target = vec![0u8; MAX_SYNC_MESSAGE_SIZE];
            aranya_runtime::verif::set_fuel(FUEL);
            let out = {
                let node = &mut self.nodes[b];
                guarded(|| responder.poll(&mut target, node.client.provider(), &mut rcache, &mut node.buffers.traversal))
            };
            aranya_runtime::verif::set_fuel(u64::MAX);
            let mut bytes = match out {
                Guarded::Done(Ok(len)) => target[..len].to_vec(),
                Guarded::Done(Err(e)) => {
                    self.anomaly(format!("{ctx}: responder.poll failed: {e}"));
                    break;
                }
                Guarded::Panicked(m) => {
                    self.anomaly(format!("{ctx}: responder.poll panicked: {m}"));
                    self.dead = true;
                    break;
                }
            };
            // Self-check of the wire mirror: an untouched response re-encodes to the same bytes.
            if let Some(d) = mutate::decode(&bytes) {
                if mutate::encode(&d) != bytes {
                    vcommon::harness_error("wire mirror does not round-trip an honest response");
                }
                self.stats.bump("responses");
                self.stats.add("commands_sent", d.cmds.len() as u64);
                if let Some(c) = d.cmds.iter().find(|c| !self.shadow.is_honest_digest(c) && !self.shadow.variants.contains(&c.digest())) {
                    // An honest responder only ever sends what it stores.
                    self.anomaly(format!("{ctx}: responder {b} sent {} which is neither sealed nor a recorded variant", short(&c.id)));
                }
            }
            let mut applied: Option<MutKind> = None;
            if let Some(m) = muts.get(k).copied().flatten() {
                if mutate::apply(&mut bytes, &m, &self.shadow, &devices, &key_ids) {
                    applied = Some(m.kind);
                    self.stats.bump(&format!("fault.{:?}", m.kind));
                    self.note(&format!("{ctx} response {k} mutated {:?}", m));
                } else {
                    self.stats.bump(&format!("inapplicable.{:?}", m.kind));
                }
            }
            let got = guarded(|| requester.receive(&bytes).map(|o| o.map(|v| v.iter().map(OwnedCmd::of).collect::<Vec<_>>())));
            match got {
                Guarded::Panicked(m) => {
                    self.anomaly(format!("{ctx}: requester.receive panicked (C18 territory): {m}"));
                    self.dead = true;
                    break;
                }
                Guarded::Done(Err(e)) => {
                    self.stats.bump("transport_rejected");
                    self.stats.bump(&format!("mut.{}.message_refused_by_decoder", Self::kind_key(applied)));
                    self.note(&format!("{ctx} response {k} refused by requester: {e}"));
                    if applied.is_none() {
                        self.anomaly(format!("{ctx}: requester refused an untouched response: {e}"));
                    }
                    break;
                }
                Guarded::Done(Ok(None)) => {
                    self.note(&format!("{ctx} response {k} control"));
                    break;
                }
                Guarded::Done(Ok(Some(cmds))) if cmds.is_empty() => {
                    self.note(&format!("{ctx} response {k} carries no command"));
                }
                Guarded::Done(Ok(Some(cmds))) => {
                    if one_by_one {
                        self.offer_one_by_one(a, &mut trx, &cmds, applied, &mut sess, &ctx);
                    } else {
                        self.offer_batch(a, &mut trx, &cmds, applied, &mut sess, &ctx);
                    }
                }
            }
            k += 1;
        }
        if self.dead {
            return 0;
        }
        // A node that had no graph and was not given a valid init has nothing to commit.
        if !sess.had_graph && sess.accepted.is_empty() && matches!(self.nodes[a].client.provider().get_storage(gid), Err(StorageError::NoSuchStorage)) {
            self.stats.bump("graphless_session_created_nothing");
            drop(trx);
            return self.after_session(a, &sess, true, &ctx);
        }
        // Commit whatever was accepted.
        let mut sink = RecSink::default();
        aranya_runtime::verif::set_fuel(FUEL);
        let res = {
            let node = &mut self.nodes[a];
            guarded(|| node.client.commit(trx, &mut sink, &mut node.buffers, MemSpill::new))
        };
        aranya_runtime::verif::set_fuel(u64::MAX);
        sess.effects.extend(sink.committed.iter().map(|e| e.0));
        let mut commit_ok = true;
        match res {
            Guarded::Done(Ok(_)) => {}
            Guarded::Done(Err(e)) => {
                commit_ok = false;
                if self.tainted[a] || sess.ambiguous {
                    self.anomaly(format!("{ctx}: commit failed on a node that accepted a command of open outcome: {e}"));
                } else {
                    self.violation("C35.commit-failed", if sess.saw_rejection { "commit-failed-after-rejection" } else { "commit-failed" }, format!("{ctx}: the transaction of node {a} holds only sealed commands ({} accepted, rejection seen: {}) yet commit failed: {e}", sess.accepted.len(), sess.saw_rejection));
                }
            }
            Guarded::Panicked(m) => {
                self.dead = true;
                if self.tainted[a] || sess.ambiguous {
                    self.anomaly(format!("{ctx}: commit panicked: {m}"));
                } else {
                    self.violation("C35.panic", &format!("panic-in-commit:{}", slug(&m)), format!("{ctx}: commit of a transaction holding only sealed commands panicked: {m}"));
                }
                return 0;
            }
        }
        self.after_session(a, &sess, commit_ok, &ctx)
    }

    fn max_cut_of_held(&self, _a: usize, id: &CmdId) -> u64 {
        // Sealed commands have one address; structural variants taint the node instead.
        self.shadow.honest.get(id).map_or(u64::MAX, |h| h.cmd.max_cut())
    }

    fn after_session(&mut self, a: usize, sess: &Sess, commit_ok: bool, ctx: &str) -> usize {
        let before: BTreeSet<CmdId> = self.nodes[a].held.keys().copied().collect();
        let facts_before = self.nodes[a].facts;
        let scanned = match self.scan(a) {
            Ok(x) => x,
            Err(e) => {
                if self.tainted[a] {
                    self.anomaly(e);
                } else {
                    self.violation("C35.unreadable-after-session", "graph-unreadable", format!("{ctx}: {e}"));
                }
                self.dead = true;
                return 0;
            }
        };
        let Some((stored, _heads, facts)) = scanned else {
            // Still no graph: nothing may have been accepted.
            if !sess.accepted.is_empty() {
                self.violation("C35.accepted-lost", "accepted-lost", format!("{ctx}: node {a} accepted {} commands but has no graph after commit", sess.accepted.len()));
            }
            self.note(&format!("{ctx} done: no graph"));
            return 0;
        };
        let mut ids: BTreeSet<CmdId> = BTreeSet::new();
        for c in &stored {
            ids.insert(c.id);
            if self.shadow.is_honest_digest(c) {
                continue;
            }
            if self.shadow.variants.contains(&c.digest()) {
                // A recorded open-outcome variant now also lives here (batch mode cannot tell when
                // it was taken): the same suspension of positive expectations applies to this node.
                self.accept_variant(a, c);
                continue;
            }
            match self.shadow.classify(c, self.cfg.strict_merge) {
                Class::Honest => {}
                Class::Undetermined(reason) => {
                    // Batch mode: an open-outcome command turned out to be accepted.
                    self.stats.bump(&format!("undetermined.{reason}.accepted"));
                    self.accept_variant(a, c);
                }
                Class::MustReject(reason) => {
                    self.violation("C35.forged-stored", &format!("forged-stored:{reason}"), format!("{ctx}: the committed graph of node {a} contains {} whose {reason} differs from everything honest replicas sealed", short(&c.id)));
                }
            }
        }
        if commit_ok && !self.tainted[a] {
            for id in &sess.accepted {
                if !ids.contains(id) {
                    self.violation("C35.accepted-lost", "accepted-lost", format!("{ctx}: node {a} accepted honest {} (no error, commit succeeded) but it is not in the committed graph", short(id)));
                }
            }
        }
        for id in &before {
            if !ids.contains(id) && self.tainted[a] {
                self.anomaly(format!("{ctx}: {} left the committed graph of node {a}, which earlier accepted a command of open outcome", short(id)));
            } else if !ids.contains(id) {
                self.violation("C35.history-lost", "history-lost", format!("{ctx}: {} was in the committed graph of node {a} before the session and is gone", short(id)));
            }
        }
        if !sess.ambiguous && !self.tainted[a] {
            for id in ids.iter().filter(|i| !sess.view.contains_key(*i)) {
                self.anomaly(format!("{ctx}: committed graph of node {a} holds {} which the harness did not see accepted", short(id)));
            }
        }
        if ids == before && sess.had_graph && facts != facts_before && self.tainted[a] {
            self.anomaly(format!("{ctx}: facts of node {a} changed without a new command; the node earlier accepted a command of open outcome"));
        } else if ids == before && sess.had_graph && facts != facts_before {
            self.violation("C35.facts-changed", "facts-changed", format!("{ctx}: node {a} gained no command in this session but its committed facts changed"));
        }
        for id in &sess.effects {
            if !self.shadow.honest.contains_key(id) && !self.shadow.extra_ids.contains(id) {
                self.violation("C35.effects-of-rejected", "effects-committed", format!("{ctx}: the sink of node {a} saw committed effects attributed to {} which no honest replica sealed", short(id)));
            }
        }
        let gained = ids.len().saturating_sub(before.len());
        if sess.forged_rejected_reached > 0 {
            self.stats.bump("sessions_with_forged_rejected_at_verification");
            if sess.honest_accepted > 0 {
                self.stats.bump("nontrivial_sessions");
            }
        }
        self.nodes[a].held = stored.iter().map(|c| (c.id, c.digest())).collect();
        self.nodes[a].has_graph = true;
        self.nodes[a].facts = facts;
        self.note(&format!("{ctx} done: gained {gained} total {} facts {facts:x}", ids.len()));
        gained
    }

    // ------------------------------------------------------------------ quiescence

    fn step_quiesce(&mut self) {
        if self.gid.is_none() || self.dead {
            return;
        }
        let n = self.nodes.len();
        let bound = n + 4;
        let mut rounds = 0;
        loop {
            rounds += 1;
            let mut moved = 0;
            for a in 0..n {
                for b in 0..n {
                    if a != b && !self.dead {
                        self.quiesce_sid += 1;
                        moved += self.step_sync(a, b, self.quiesce_sid, false, &[], true);
                    }
                }
            }
            if moved == 0 || self.dead {
                break;
            }
            if rounds > bound {
                if self.tainted.iter().any(|t| *t) {
                    self.stats.bump("quiescence_unchecked_tainted");
                } else {
                    self.violation("C35.no-convergence", "no-convergence", format!("replicas still exchange commands after {rounds} fault-free rounds"));
                }
                return;
            }
        }
        if self.dead {
            return;
        }
        self.stats.add("quiescence_rounds", rounds as u64);
        if self.tainted.iter().any(|t| *t) {
            self.stats.bump("quiescence_unchecked_tainted");
            return;
        }
        let want: BTreeSet<CmdId> = self.shadow.honest.keys().copied().collect();
        let mut first: Option<(usize, Vec<CmdId>, u64)> = None;
        for r in 0..n {
            match self.scan(r) {
                Ok(Some((cmds, heads, facts))) => {
                    let ids: BTreeSet<CmdId> = cmds.iter().map(|c| c.id).collect();
                    if ids != want {
                        let missing = want.difference(&ids).count();
                        let extra = ids.difference(&want).count();
                        self.violation("C35.not-converged", "not-converged", format!("after fault-free pairwise sync until silence node {r} holds {} commands; the honest replicas sealed {} ({missing} missing, {extra} foreign)", ids.len(), want.len()));
                    }
                    match &first {
                        None => first = Some((r, heads, facts)),
                        Some((r0, h0, f0)) => {
                            if *h0 != heads {
                                self.violation("C35.not-converged", "heads-differ", format!("after quiescence node {r0} and node {r} hold different heads"));
                            } else if *f0 != facts {
                                self.violation("C35.not-converged", "facts-differ", format!("after quiescence node {r0} and node {r} hold the same heads but different facts"));
                            }
                        }
                    }
                }
                Ok(None) => self.violation("C35.not-converged", "graph-missing", format!("node {r} still has no graph after fault-free sync with every peer")),
                Err(e) => self.violation("C35.unreadable-after-session", "graph-unreadable", format!("quiescence: {e}")),
            }
        }
        self.stats.bump("quiescence_checked");
        self.note(&format!("quiesce rounds {rounds} sealed {}", want.len()));
    }

    // ------------------------------------------------------------------ dispatch

    pub fn exec(&mut self, step: &Step) {
        if self.dead {
            return;
        }
        self.step_no += 1;
        self.stats.steps += 1;
        match step {
            Step::Init { r } => self.step_init(*r),
            Step::AddKeys { r } => self.step_add_keys(*r),
            Step::Act { r, kind, v } => self.step_act(*r, *kind, *v),
            Step::Sync { a, b, sid, one_by_one, muts } => {
                self.step_sync(*a, *b, *sid, *one_by_one, muts, false);
            }
            Step::Quiesce => self.step_quiesce(),
        }
    }
}
