//! E5 `kssim` - property C45 "Key stores behave as maps".
//!
//! One seed = one history (explicit operation list) over <= 4 key ids. The
//! same history is executed against the real in-memory key store and the real
//! file-system key store (fresh directory per run, real file system) and
//! against a `BTreeMap` model. Every observation (Vacant/Occupied, Some/None,
//! returned key bytes, error kind) is compared with the model; since both
//! stores are compared with the same expected observation they are thereby
//! compared with each other. "Restart with only the directory surviving"
//! (drop every handle, open the directory again) is the only fault.
//!
//! Nothing here reads a clock or OS randomness; directory names carry the pid
//! but never reach the event log.

use std::{
    collections::{BTreeMap, BTreeSet},
    panic::{AssertUnwindSafe, catch_unwind},
    path::{Path, PathBuf},
    sync::{
        Mutex,
        atomic::{AtomicU64, Ordering},
    },
};

use aranya_crypto::{
    BaseId, Csprng, EncryptionKey, Engine, GroupKey, Identified, IdentityKey, KeyStore,
    SigningKey,
    default::{DefaultCipherSuite, DefaultEngine, WrappedKey as RealWrapped},
    engine::WrappedKey,
    id::IdError,
    keystore::{
        Entry, ErrorKind, Occupied as _, Vacant as _, fs_keystore::Store as FsStore,
        memstore::MemStore,
    },
};
use serde::{Deserialize, Serialize};
use serde_json::{Value, json};
use vcommon::{Cli, Evidence, Rng, Tier, Violation, fnv, harness_error, mix};

type CS = DefaultCipherSuite;

const PROPERTY: &str = "C45";
const POOL_SEED: u64 = 0x6b73_7369_6d5f_706f; // "kssim_po"
const POOL_SIZE: usize = 8;
const MAX_IDS: u8 = 4;

// ---------------------------------------------------------------- keys

/// The value type stored in both key stores: either a key really wrapped by
/// `DefaultEngine`, or a synthetic key of a drawn length (varies file size).
#[derive(Clone, Serialize, Deserialize)]
enum SimKey {
    Real(RealWrapped<CS>),
    Synth { id: BaseId, payload: Vec<u8> },
    /// The payload as ONE text item (CBOR text string) - large single items take other paths
    /// through an encoder than many small ones.
    Text { id: BaseId, text: String },
    /// The payload as ONE byte-string item.
    Blob { id: BaseId, data: ByteItem },
    /// A key whose encoding fails part of the way through (the injected fault of this engine:
    /// the one failure a caller can cause inside `insert` without a seam below the store).
    Poison { id: BaseId, bomb: Bomb },
}

/// A byte vector that serialises as a single bytes item (not as a sequence of integers).
#[derive(Clone)]
struct ByteItem(Vec<u8>);

impl Serialize for ByteItem {
    fn serialize<S: serde::Serializer>(&self, s: S) -> Result<S::Ok, S::Error> {
        s.serialize_bytes(&self.0)
    }
}

impl<'de> Deserialize<'de> for ByteItem {
    fn deserialize<D: serde::Deserializer<'de>>(d: D) -> Result<Self, D::Error> {
        struct V;
        impl<'de> serde::de::Visitor<'de> for V {
            type Value = ByteItem;
            fn expecting(&self, f: &mut std::fmt::Formatter<'_>) -> std::fmt::Result {
                f.write_str("bytes")
            }
            fn visit_bytes<E: serde::de::Error>(self, v: &[u8]) -> Result<ByteItem, E> {
                Ok(ByteItem(v.to_vec()))
            }
            fn visit_byte_buf<E: serde::de::Error>(self, v: Vec<u8>) -> Result<ByteItem, E> {
                Ok(ByteItem(v))
            }
            fn visit_seq<A: serde::de::SeqAccess<'de>>(self, mut a: A) -> Result<ByteItem, A::Error> {
                let mut v = Vec::new();
                while let Some(b) = a.next_element::<u8>()? {
                    v.push(b);
                }
                Ok(ByteItem(v))
            }
        }
        d.deserialize_byte_buf(V)
    }
}

#[derive(Clone, Deserialize)]
struct Bomb;

impl Serialize for Bomb {
    fn serialize<S: serde::Serializer>(&self, _s: S) -> Result<S::Ok, S::Error> {
        Err(serde::ser::Error::custom("kssim: injected encoding failure"))
    }
}

impl WrappedKey for SimKey {}

impl Identified for SimKey {
    type Id = BaseId;
    fn id(&self) -> Result<BaseId, IdError> {
        match self {
            SimKey::Real(k) => k.id(),
            SimKey::Synth { id, .. } | SimKey::Poison { id, .. } | SimKey::Text { id, .. } | SimKey::Blob { id, .. } => Ok(*id),
        }
    }
}

fn key_bytes(k: &SimKey) -> Vec<u8> {
    serde_json::to_vec(k).unwrap_or_else(|e| harness_error(&format!("cannot serialise key: {e}")))
}

/// Deterministic CSPRNG for the engine that wraps the pool keys.
struct DetRng(Mutex<Rng>);

impl Csprng for DetRng {
    fn fill_bytes(&self, dst: &mut [u8]) {
        self.0.lock().expect("rng lock").fill(dst);
    }
}

/// Real wrapped keys (two each of four key types), generated once per process
/// from a fixed seed, so that `Pool{idx}` in a replay file is self-describing.
fn build_pool() -> Vec<SimKey> {
    let rng = DetRng(Mutex::new(Rng::new(POOL_SEED)));
    let (eng, _) = DefaultEngine::<&DetRng, CS>::from_entropy(&rng);
    let mut pool = Vec::new();
    let wrap_err = |e| harness_error(&format!("wrapping a pool key failed: {e}"));
    for _ in 0..POOL_SIZE / 4 {
        pool.push(SimKey::Real(
            eng.wrap(EncryptionKey::<CS>::new(&eng)).unwrap_or_else(wrap_err),
        ));
        pool.push(SimKey::Real(
            eng.wrap(IdentityKey::<CS>::new(&eng)).unwrap_or_else(wrap_err),
        ));
        pool.push(SimKey::Real(
            eng.wrap(SigningKey::<CS>::new(&eng)).unwrap_or_else(wrap_err),
        ));
        pool.push(SimKey::Real(
            eng.wrap(GroupKey::<CS>::new(&eng)).unwrap_or_else(wrap_err),
        ));
    }
    pool
}

fn store_id(i: u8) -> BaseId {
    let mut b = [0u8; 32];
    let mut x = 0x1D5_u64 + u64::from(i);
    for chunk in b.chunks_mut(8) {
        chunk.copy_from_slice(&vcommon::splitmix(&mut x).to_le_bytes());
    }
    BaseId::from_bytes(b)
}

#[derive(Clone, Debug, PartialEq, Eq, Serialize, Deserialize)]
enum KeyRef {
    Pool { idx: u8 },
    Synth {
        tag: u8,
        len: u32,
        /// 0 = sequence of small items, 1 = one text item, 2 = one bytes item.
        #[serde(default)]
        shape: u8,
    },
}

fn materialise(k: &KeyRef, pool: &[SimKey]) -> SimKey {
    match k {
        KeyRef::Pool { idx } => pool[usize::from(*idx) % pool.len()].clone(),
        KeyRef::Synth { tag, len, shape } => {
            let payload: Vec<u8> = (0..*len)
                .map(|i| tag.wrapping_add((i as u8).wrapping_mul(7)))
                .collect();
            let id = store_id(100 + (*tag % 8));
            match shape {
                1 => SimKey::Text { id, text: payload.iter().map(|b| char::from(b'a' + b % 26)).collect() },
                2 => SimKey::Blob { id, data: ByteItem(payload) },
                _ => SimKey::Synth { id, payload },
            }
        }
    }
}

// ---------------------------------------------------------------- histories

#[derive(Clone, Copy, Debug, PartialEq, Eq, Serialize, Deserialize)]
enum OccAct {
    Get,
    Remove,
}

#[derive(Clone, Debug, PartialEq, Eq, Serialize, Deserialize)]
enum VacAct {
    Insert(KeyRef),
    Drop,
}

/// One operation. `h` selects the handle (0 = primary, 1 = second handle:
/// a `try_clone` or a second `open` of the same directory). Every operation
/// says what to do in either outcome, so any sub-list of a history is a
/// valid history (needed for delta debugging).
#[derive(Clone, Debug, PartialEq, Eq, Serialize, Deserialize)]
enum Op {
    /// `entry(id)`; if vacant do `vac`; if occupied do the `occ` actions in
    /// order on the same entry (a `Remove` consumes it), then drop it.
    Entry {
        h: u8,
        id: u8,
        vac: VacAct,
        occ: Vec<OccAct>,
    },
    Get {
        h: u8,
        id: u8,
    },
    TryInsert {
        h: u8,
        id: u8,
        key: KeyRef,
    },
    Remove {
        h: u8,
        id: u8,
    },
    /// Restart: every handle is dropped, the directory is opened again.
    /// `second_open`: handle 1 is a second `open` instead of a `try_clone`.
    Reopen {
        second_open: bool,
    },
    /// Replace handle 1 by a `try_clone` of handle `of`.
    Reclone {
        of: u8,
    },
    /// Fault: insert a key whose encoding fails half way (file-system store only; the
    /// in-memory store never encodes). Through a vacant entry or through `try_insert`.
    FailInsert {
        h: u8,
        id: u8,
        via_entry: bool,
    },
}

fn gen_key(rng: &mut Rng) -> KeyRef {
    if rng.chance(1, 3) {
        KeyRef::Pool {
            idx: rng.below(POOL_SIZE as u64) as u8,
        }
    } else {
        // Sizes: small, medium, and the boundaries where encoders, buffers and length
        // prefixes change behaviour.
        const EDGES: [u64; 16] = [23, 24, 255, 256, 257, 511, 512, 513, 1023, 1024, 4095, 4096, 4097, 8192, 65535, 65536];
        let len = match rng.below(6) {
            0 => rng.below(4),
            1 => rng.below(24),
            2 => rng.below(100),
            3 => rng.below(400),
            4 => EDGES[rng.usize_below(EDGES.len())],
            _ => rng.below(6000),
        } as u32;
        KeyRef::Synth {
            tag: rng.below(256) as u8,
            len,
            shape: rng.below(3) as u8,
        }
    }
}

fn gen_history(seed: u64, tier: Tier) -> Vec<Op> {
    let mut rng = Rng::derive(seed, "workload");
    let nids = rng.range(1, u64::from(MAX_IDS)) as u8;
    let len = match tier {
        Tier::Quick => rng.range(3, 24),
        Tier::Thorough => rng.range(3, 80),
    };
    // Per-history bias so that some histories are reopen-heavy, some
    // entry-heavy, some mostly on the second handle.
    let w_reopen = *rng.pick(&[2u32, 8, 20]);
    let w_entry = *rng.pick(&[15u32, 35, 60]);
    let second_handle_num = *rng.pick(&[0u64, 1, 2, 3]);
    let mut ops = Vec::new();
    for _ in 0..len {
        let h = u8::from(rng.chance(second_handle_num, 4));
        let id = rng.below(u64::from(nids)) as u8;
        let op = match rng.weighted(&[w_entry, 15, 20, 12, w_reopen, 6, 5]) {
            0 => {
                let vac = if rng.chance(3, 5) {
                    VacAct::Insert(gen_key(&mut rng))
                } else {
                    VacAct::Drop
                };
                let occ = match rng.below(8) {
                    0 => vec![],
                    1 => vec![OccAct::Get],
                    2 => vec![OccAct::Get, OccAct::Get],
                    3 => vec![OccAct::Remove],
                    4 => vec![OccAct::Get, OccAct::Remove],
                    5 => vec![OccAct::Get, OccAct::Get, OccAct::Remove],
                    6 => vec![OccAct::Get, OccAct::Get, OccAct::Get],
                    _ => vec![OccAct::Get, OccAct::Get, OccAct::Get, OccAct::Remove],
                };
                Op::Entry { h, id, vac, occ }
            }
            1 => Op::Get { h, id },
            2 => Op::TryInsert {
                h,
                id,
                key: gen_key(&mut rng),
            },
            3 => Op::Remove { h, id },
            4 => Op::Reopen {
                second_open: rng.chance(1, 3),
            },
            5 => Op::Reclone {
                of: u8::from(rng.chance(1, 4)),
            },
            _ => Op::FailInsert {
                h,
                id,
                via_entry: rng.chance(1, 2),
            },
        };
        ops.push(op);
    }
    ops
}

fn ops_hash(ops: &[Op]) -> u64 {
    fnv(serde_json::to_string(ops).expect("ops serialise").as_bytes())
}

// ---------------------------------------------------------------- observations

#[derive(Clone, Debug, PartialEq, Eq)]
enum Obs {
    Vacant,
    Occupied,
    /// `insert` / `try_insert` returned `Ok(())`.
    Ok,
    /// A vacant entry dropped without insert (nothing observable but the drop).
    Dropped,
    Some(Vec<u8>),
    None,
    ErrExists,
    ErrOther(String),
    Panic(String),
}

impl Obs {
    fn kind(&self) -> &'static str {
        match self {
            Obs::Vacant => "vacant",
            Obs::Occupied => "occupied",
            Obs::Ok => "ok",
            Obs::Dropped => "dropped",
            Obs::Some(_) => "some",
            Obs::None => "none",
            Obs::ErrExists => "err-exists",
            Obs::ErrOther(_) => "err-other",
            Obs::Panic(_) => "panic",
        }
    }
    fn log(&self) -> String {
        match self {
            Obs::Some(b) => format!("some:{:016x}", fnv(b)),
            Obs::ErrOther(t) => format!("err-other:{t}"),
            Obs::Panic(t) => format!("panic:{t}"),
            o => o.kind().to_string(),
        }
    }
}

fn err_obs<E: aranya_crypto::keystore::Error>(e: &E) -> Obs {
    match e.kind() {
        ErrorKind::AlreadyExists => Obs::ErrExists,
        _ => Obs::ErrOther(e.to_string()),
    }
}

fn key_result<E: aranya_crypto::keystore::Error>(r: Result<SimKey, E>) -> Obs {
    match r {
        Ok(k) => Obs::Some(key_bytes(&k)),
        Err(e) => err_obs(&e),
    }
}

fn opt_result<E: aranya_crypto::keystore::Error>(r: Result<Option<SimKey>, E>) -> Obs {
    match r {
        Ok(Some(k)) => Obs::Some(key_bytes(&k)),
        Ok(None) => Obs::None,
        Err(e) => err_obs(&e),
    }
}

/// Execute a (non-handle) operation on a real store through the `KeyStore`
/// trait only. Returns the observations in order.
fn exec_on<S: KeyStore>(store: &mut S, op: &Op, pool: &[SimKey], out: &mut Vec<Obs>) {
    match op {
        Op::Entry { id, vac, occ, .. } => match store.entry::<SimKey>(store_id(*id)) {
            Err(e) => out.push(err_obs(&e)),
            Ok(Entry::Vacant(v)) => {
                out.push(Obs::Vacant);
                match vac {
                    VacAct::Insert(k) => out.push(match v.insert(materialise(k, pool)) {
                        Ok(()) => Obs::Ok,
                        Err(e) => err_obs(&e),
                    }),
                    VacAct::Drop => {
                        drop(v);
                        out.push(Obs::Dropped);
                    }
                }
            }
            Ok(Entry::Occupied(o)) => {
                out.push(Obs::Occupied);
                let mut o = Some(o);
                for a in occ {
                    match a {
                        OccAct::Get => {
                            if let Some(e) = &o {
                                out.push(key_result(e.get()));
                            }
                        }
                        OccAct::Remove => {
                            if let Some(e) = o.take() {
                                out.push(key_result(e.remove()));
                            }
                        }
                    }
                }
            }
        },
        Op::Get { id, .. } => out.push(opt_result(store.get::<SimKey>(store_id(*id)))),
        Op::TryInsert { id, key, .. } => {
            out.push(match store.try_insert(store_id(*id), materialise(key, pool)) {
                Ok(()) => Obs::Ok,
                Err(e) => err_obs(&e),
            });
        }
        Op::Remove { id, .. } => out.push(opt_result(store.remove::<SimKey>(store_id(*id)))),
        Op::Reopen { .. } | Op::Reclone { .. } | Op::FailInsert { .. } => {}
    }
}

/// What the property says must be observed, with a label for each
/// observation (labels carry the context that makes signatures stable).
fn model_step(
    m: &mut BTreeMap<u8, Vec<u8>>,
    op: &Op,
    pool: &[SimKey],
) -> Vec<(&'static str, Obs)> {
    let mut out = Vec::new();
    match op {
        Op::Entry { id, vac, occ, .. } => {
            if let Some(cur) = m.get(id).cloned() {
                out.push(("entry.kind", Obs::Occupied));
                let mut gets = 0;
                let mut live = true;
                for a in occ {
                    if !live {
                        break;
                    }
                    match a {
                        OccAct::Get => {
                            out.push((
                                if gets == 0 {
                                    "entry.occupied.get#first"
                                } else {
                                    "entry.occupied.get#after-get"
                                },
                                Obs::Some(cur.clone()),
                            ));
                            gets += 1;
                        }
                        OccAct::Remove => {
                            out.push((
                                if gets == 0 {
                                    "entry.occupied.remove#first"
                                } else {
                                    "entry.occupied.remove#after-get"
                                },
                                Obs::Some(cur.clone()),
                            ));
                            m.remove(id);
                            live = false;
                        }
                    }
                }
            } else {
                out.push(("entry.kind", Obs::Vacant));
                match vac {
                    VacAct::Insert(k) => {
                        m.insert(*id, key_bytes(&materialise(k, pool)));
                        out.push(("entry.vacant.insert", Obs::Ok));
                    }
                    VacAct::Drop => out.push(("entry.vacant.drop", Obs::Dropped)),
                }
            }
        }
        Op::Get { id, .. } => match m.get(id) {
            Some(v) => out.push(("get#present", Obs::Some(v.clone()))),
            None => out.push(("get#absent", Obs::None)),
        },
        Op::TryInsert { id, key, .. } => {
            if m.contains_key(id) {
                out.push(("try_insert#duplicate", Obs::ErrExists));
            } else {
                m.insert(*id, key_bytes(&materialise(key, pool)));
                out.push(("try_insert#fresh", Obs::Ok));
            }
        }
        Op::Remove { id, .. } => match m.remove(id) {
            Some(v) => out.push(("remove#present", Obs::Some(v))),
            None => out.push(("remove#absent", Obs::None)),
        },
        Op::Reopen { .. } | Op::Reclone { .. } | Op::FailInsert { .. } => {}
    }
    out
}

// ---------------------------------------------------------------- the fs store under test

static DIR_COUNTER: AtomicU64 = AtomicU64::new(0);

struct FsSut {
    dir: PathBuf,
    /// handles[0] primary, handles[1] clone / second open.
    handles: Vec<FsStore>,
}

/// Errors of the harness environment, never violations.
#[derive(Debug)]
struct HarnessErr(String);

impl FsSut {
    fn new() -> Result<Self, HarnessErr> {
        let n = DIR_COUNTER.fetch_add(1, Ordering::Relaxed);
        let dir = Path::new(vcommon::VERIF_ROOT)
            .join("target/tmp")
            .join(format!("kssim-{}-{}", std::process::id(), n));
        let _ = std::fs::remove_dir_all(&dir);
        std::fs::create_dir_all(&dir)
            .map_err(|e| HarnessErr(format!("cannot create {}: {e}", dir.display())))?;
        let mut s = Self {
            dir,
            handles: Vec::new(),
        };
        s.open_handles(false)?;
        Ok(s)
    }

    fn open_one(&self) -> Result<FsStore, HarnessErr> {
        FsStore::open(self.dir.as_path())
            .map_err(|e| HarnessErr(format!("Store::open({}) failed: {e}", self.dir.display())))
    }

    fn open_handles(&mut self, second_open: bool) -> Result<(), HarnessErr> {
        self.handles.clear(); // every descriptor of the old "process" is gone
        let h0 = self.open_one()?;
        let h1 = if second_open {
            self.open_one()?
        } else {
            h0.try_clone()
                .map_err(|e| HarnessErr(format!("try_clone failed: {e}")))?
        };
        self.handles.push(h0);
        self.handles.push(h1);
        Ok(())
    }

    fn reclone(&mut self, of: u8) -> Result<(), HarnessErr> {
        let c = self.handles[usize::from(of & 1)]
            .try_clone()
            .map_err(|e| HarnessErr(format!("try_clone failed: {e}")))?;
        self.handles[1] = c;
        Ok(())
    }

    /// Names in the directory other than the store's debug canary.
    fn listing(&self) -> Result<BTreeSet<String>, HarnessErr> {
        let mut out = BTreeSet::new();
        let rd = std::fs::read_dir(&self.dir)
            .map_err(|e| HarnessErr(format!("read_dir {}: {e}", self.dir.display())))?;
        for e in rd {
            let e = e.map_err(|e| HarnessErr(format!("read_dir entry: {e}")))?;
            let name = e.file_name().to_string_lossy().into_owned();
            if name != "__canary" {
                out.insert(name);
            }
        }
        Ok(out)
    }
}

impl Drop for FsSut {
    fn drop(&mut self) {
        self.handles.clear();
        let _ = std::fs::remove_dir_all(&self.dir);
    }
}

fn env_error(text: &str) -> bool {
    const PATS: &[&str] = &[
        "No space left",
        "Too many open files",
        "Permission denied",
        "Input/output error",
        "Read-only file system",
        "Cannot allocate memory",
        "Disk quota",
        "root keystore directory deleted",
    ];
    PATS.iter().any(|p| text.contains(p))
}

// ---------------------------------------------------------------- one run

#[derive(Clone, Debug)]
struct Viol {
    class: String,
    sig: String,
    detail: String,
    step: usize,
}

#[derive(Default)]
struct RunOut {
    log_hash: u64,
    viol: Option<Viol>,
    harness: Option<String>,
    stats: BTreeMap<&'static str, u64>,
    /// Non-triviality rule of C45 actually satisfied by this execution.
    nontrivial: bool,
    /// Human-readable log (only kept when asked for).
    log: Vec<String>,
}

fn panic_text(p: Box<dyn std::any::Any + Send>) -> String {
    if let Some(s) = p.downcast_ref::<&str>() {
        (*s).to_string()
    } else if let Some(s) = p.downcast_ref::<String>() {
        s.clone()
    } else {
        "non-string panic".to_string()
    }
}

fn class_of(label: &str) -> String {
    let base = label.split('#').next().unwrap_or(label);
    format!("{PROPERTY}.{base}")
}

struct Logger {
    h: u64,
    keep: bool,
    lines: Vec<String>,
}

impl Logger {
    fn line(&mut self, s: String) {
        self.h = (self.h ^ fnv(s.as_bytes())).wrapping_mul(0x0000_0100_0000_01B3);
        if self.keep {
            self.lines.push(s);
        }
    }
}

/// Execute one explicit history against both stores and the model.
fn run_history(ops: &[Op], pool: &[SimKey], keep_log: bool) -> RunOut {
    let mut out = RunOut::default();
    let mut lg = Logger {
        h: 0xcbf2_9ce4_8422_2325,
        keep: keep_log,
        lines: Vec::new(),
    };
    let bump = |stats: &mut BTreeMap<&'static str, u64>, k: &'static str| {
        *stats.entry(k).or_insert(0) += 1;
    };
    let mut fs = match FsSut::new() {
        Ok(f) => f,
        Err(e) => {
            out.harness = Some(e.0);
            return out;
        }
    };
    let mut mem = MemStore::new();
    let mut model: BTreeMap<u8, Vec<u8>> = BTreeMap::new();
    let mut ids_used: BTreeSet<u8> = BTreeSet::new();

    macro_rules! harness {
        ($e:expr) => {
            match $e {
                Ok(v) => v,
                Err(HarnessErr(t)) => {
                    out.harness = Some(t);
                    out.log_hash = lg.h;
                    out.log = lg.lines;
                    return out;
                }
            }
        };
    }

    'steps: for (step, op) in ops.iter().enumerate() {
        // Handle operations first: they have no model-visible outcome.
        match op {
            Op::Reopen { second_open } => {
                harness!(fs.open_handles(*second_open));
                let n = harness!(fs.listing()).len();
                bump(&mut out.stats, "reopen");
                out.nontrivial = true;
                lg.line(format!("{step} reopen second_open={second_open} files={n}"));
                continue;
            }
            Op::Reclone { of } => {
                harness!(fs.reclone(*of));
                bump(&mut out.stats, "reclone");
                lg.line(format!("{step} reclone of={of}"));
                continue;
            }
            Op::FailInsert { h, id, via_entry } => {
                // A store is a map: an id becomes occupied only by a successful insert. An
                // insert that fails must leave the id as it was and nothing behind.
                let present = model.contains_key(id);
                let before = harness!(fs.listing());
                let store = &mut fs.handles[usize::from(*h & 1)];
                let key = SimKey::Poison { id: store_id(*id), bomb: Bomb };
                let got: String = catch_unwind(AssertUnwindSafe(|| {
                    if *via_entry {
                        match store.entry::<SimKey>(store_id(*id)) {
                            Err(e) => format!("entry-error:{e}"),
                            Ok(Entry::Occupied(_)) => "occupied".to_string(),
                            Ok(Entry::Vacant(v)) => match v.insert(key) {
                                Ok(()) => "inserted".to_string(),
                                Err(_) => "refused".to_string(),
                            },
                        }
                    } else {
                        match store.try_insert(store_id(*id), key) {
                            Ok(()) => "inserted".to_string(),
                            Err(e) if matches!(err_obs(&e), Obs::ErrExists) => "occupied".to_string(),
                            Err(_) => "refused".to_string(),
                        }
                    }
                }))
                .unwrap_or_else(|p| format!("panic:{}", panic_text(p)));
                let want = if present { "occupied" } else { "refused" };
                bump(&mut out.stats, if present { "fail_insert#occupied" } else { "fail_insert#vacant" });
                if !present {
                    out.nontrivial = true;
                }
                lg.line(format!("{step} fail_insert h={h} id={id} via_entry={via_entry} expect={want} fs={got}"));
                if got != want {
                    out.viol = Some(Viol {
                        class: format!("{PROPERTY}.failed-insert"),
                        sig: format!("fs:failed-insert:{want}->{}", got.split(':').next().unwrap_or("")),
                        detail: format!("step {step} {op:?}: inserting a key whose encoding fails: property says {want}, fs store gave {got}"),
                        step,
                    });
                    break 'steps;
                }
                let after = harness!(fs.listing());
                if after != before {
                    let extra: Vec<_> = after.difference(&before).cloned().collect();
                    let gone: Vec<_> = before.difference(&after).cloned().collect();
                    out.viol = Some(Viol {
                        class: format!("{PROPERTY}.failed-insert-residue"),
                        sig: format!("fs:failed-insert:directory-changed:+{}-{}", extra.len().min(1), gone.len().min(1)),
                        detail: format!("step {step} {op:?}: a failed insert changed the directory: new {extra:?}, missing {gone:?} (the id now looks occupied although nothing was ever stored)"),
                        step,
                    });
                    break 'steps;
                }
                continue;
            }
            _ => {}
        }
        let (h, id) = match op {
            Op::Entry { h, id, .. }
            | Op::Get { h, id }
            | Op::TryInsert { h, id, .. }
            | Op::Remove { h, id } => (*h & 1, *id),
            _ => unreachable!(),
        };
        ids_used.insert(id);
        if h == 1 {
            bump(&mut out.stats, "op_on_second_handle");
        }
        let watch_residue = matches!(
            op,
            Op::Entry {
                vac: VacAct::Drop,
                ..
            }
        ) && !model.contains_key(&id);
        let before = if watch_residue {
            Some(harness!(fs.listing()))
        } else {
            None
        };

        let present_before = model.contains_key(&id);
        let expected = model_step(&mut model, op, pool);

        let mut got_mem = Vec::new();
        if let Err(p) = catch_unwind(AssertUnwindSafe(|| exec_on(&mut mem, op, pool, &mut got_mem)))
        {
            got_mem.push(Obs::Panic(panic_text(p)));
        }
        let mut got_fs = Vec::new();
        {
            let store = &mut fs.handles[usize::from(h)];
            if let Err(p) =
                catch_unwind(AssertUnwindSafe(|| exec_on(store, op, pool, &mut got_fs)))
            {
                got_fs.push(Obs::Panic(panic_text(p)));
            }
        }

        lg.line(format!(
            "{step} {} h={h} id={id} expect=[{}] mem=[{}] fs=[{}]",
            match op {
                Op::Entry { .. } => "entry",
                Op::Get { .. } => "get",
                Op::TryInsert { .. } => "try_insert",
                Op::Remove { .. } => "remove",
                _ => "",
            },
            expected
                .iter()
                .map(|(l, o)| format!("{l}={}", o.log()))
                .collect::<Vec<_>>()
                .join(","),
            got_mem.iter().map(Obs::log).collect::<Vec<_>>().join(","),
            got_fs.iter().map(Obs::log).collect::<Vec<_>>().join(","),
        ));

        // Coverage counters and the non-triviality rule come from what the
        // model says happened (== what the stores did, unless we report).
        for (label, _) in &expected {
            bump(&mut out.stats, label);
            if matches!(
                *label,
                "entry.occupied.get#after-get" | "entry.occupied.remove#after-get"
            ) {
                out.nontrivial = true;
            }
        }

        // Compare each store with the model, observation by observation.
        for (name, got) in [("mem", &got_mem), ("fs", &got_fs)] {
            for (i, (label, want)) in expected.iter().enumerate() {
                let have = got.get(i);
                if have == Some(want) {
                    continue;
                }
                let observed = match have {
                    None => "missing".to_string(),
                    Some(Obs::Some(_)) if matches!(want, Obs::Some(_)) => "wrong-bytes".to_string(),
                    Some(o) => o.kind().to_string(),
                };
                if let Some(Obs::ErrOther(t)) = have {
                    if env_error(t) {
                        out.harness = Some(format!("environment error from {name} store: {t}"));
                        break 'steps;
                    }
                }
                // Did the other store show the same deviation? (then suspect the model)
                let other = if name == "mem" { &got_fs } else { &got_mem };
                let both = other.get(i).map(Obs::kind) == have.map(Obs::kind)
                    && other.get(i) != Some(want);
                let who = if both { "both" } else { name };
                let mut detail = format!(
                    "step {step} {op:?}: {label}: property says {}, {who} store gave {}",
                    want.log(),
                    have.map_or("nothing".to_string(), Obs::log)
                );
                // Post-mortem (not part of the oracle): what is left of the key?
                if name == "fs" {
                    drop(std::mem::take(&mut fs.handles));
                    if let Ok(fresh) = fs.open_one() {
                        let after = opt_result(fresh.get::<SimKey>(store_id(id)));
                        let files = fs.listing().map(|l| l.len()).unwrap_or(0);
                        detail.push_str(&format!(
                            "; id {id} was {} before this operation; afterwards a fresh handle reads it as {}, {files} key file(s) on disk",
                            if present_before { "present" } else { "absent" },
                            after.kind(),
                        ));
                        if present_before
                            && label.contains("remove")
                            && matches!(have, Some(Obs::ErrOther(_) | Obs::ErrExists))
                            && after == Obs::None
                        {
                            detail.push_str(": remove reported failure but the key is gone (key lost to the caller)");
                        }
                    }
                }
                out.viol = Some(Viol {
                    class: class_of(label),
                    sig: format!("{who}:{label}:{}->{observed}", want.kind()),
                    detail,
                    step,
                });
                break 'steps;
            }
            if got.len() > expected.len() {
                // cannot happen by construction of exec_on
                out.harness = Some(format!("{name} store produced extra observations at step {step}"));
                break 'steps;
            }
        }

        if let Some(before) = before {
            let after = harness!(fs.listing());
            if after != before {
                let extra: Vec<_> = after.difference(&before).cloned().collect();
                let gone: Vec<_> = before.difference(&after).cloned().collect();
                out.viol = Some(Viol {
                    class: format!("{PROPERTY}.entry.vacant.drop-residue"),
                    sig: format!(
                        "fs:entry.vacant.drop:directory-changed:+{}-{}",
                        extra.len().min(1),
                        gone.len().min(1)
                    ),
                    detail: format!(
                        "step {step} {op:?}: a vacant entry dropped without insert changed the directory: new {extra:?}, missing {gone:?}"
                    ),
                    step,
                });
                break 'steps;
            }
            lg.line(format!("{step} vacant-drop leaves directory unchanged files={}", after.len()));
        }
    }

    // Final audit: restart once more and read every id through a fresh handle
    // (and through the in-memory store): contents must equal the model.
    if out.viol.is_none() && out.harness.is_none() {
        harness!(fs.open_handles(true));
        let files = harness!(fs.listing()).len();
        lg.line(format!("final reopen files={files} model_keys={}", model.len()));
        'fin: for id in 0..MAX_IDS {
            let want = match model.get(&id) {
                Some(v) => Obs::Some(v.clone()),
                None => Obs::None,
            };
            let got_mem = catch_unwind(AssertUnwindSafe(|| {
                opt_result(mem.get::<SimKey>(store_id(id)))
            }))
            .unwrap_or_else(|p| Obs::Panic(panic_text(p)));
            let store = &fs.handles[usize::from(id & 1)];
            let got_fs = catch_unwind(AssertUnwindSafe(|| {
                opt_result(store.get::<SimKey>(store_id(id)))
            }))
            .unwrap_or_else(|p| Obs::Panic(panic_text(p)));
            lg.line(format!(
                "final get id={id} expect={} mem={} fs={}",
                want.log(),
                got_mem.log(),
                got_fs.log()
            ));
            for (name, got) in [("mem", &got_mem), ("fs", &got_fs)] {
                if *got != want {
                    if let Obs::ErrOther(t) = got {
                        if env_error(t) {
                            out.harness = Some(format!("environment error from {name} store: {t}"));
                            break 'fin;
                        }
                    }
                    let observed = match (got, &want) {
                        (Obs::Some(_), Obs::Some(_)) => "wrong-bytes",
                        (o, _) => o.kind(),
                    };
                    let label = if matches!(want, Obs::Some(_)) {
                        "final.get#present"
                    } else {
                        "final.get#absent"
                    };
                    out.viol = Some(Viol {
                        class: format!("{PROPERTY}.final-contents"),
                        sig: format!("{name}:{label}:{}->{observed}", want.kind()),
                        detail: format!(
                            "after the history and a restart, id {id}: property says {}, {name} store gave {}",
                            want.log(),
                            got.log()
                        ),
                        step: ops.len(),
                    });
                    break 'fin;
                }
            }
        }
        bump(&mut out.stats, "final_audit");
    }
    if let Some(v) = &out.viol {
        lg.line(format!("VIOLATION {} {}", v.class, v.sig));
    }
    let _ = ids_used;
    out.log_hash = lg.h;
    out.log = lg.lines;
    out
}

// ---------------------------------------------------------------- minimisation

fn same_violation(ops: &[Op], pool: &[SimKey], class: &str, sig: &str) -> bool {
    let r = run_history(ops, pool, false);
    if let Some(h) = r.harness {
        harness_error(&format!("while minimising: {h}"));
    }
    r.viol.is_some_and(|v| v.class == class && v.sig == sig)
}

/// Delta debugging over the operation list, then per-operation simplification.
/// A candidate is kept only if the same violation class and signature persist.
fn minimise(ops: &[Op], pool: &[SimKey], class: &str, sig: &str) -> Vec<Op> {
    let test = |c: &[Op]| same_violation(c, pool, class, sig);
    let mut ops = ops.to_vec();
    // ddmin
    let mut n = 2usize;
    while ops.len() >= 2 {
        let chunk = ops.len().div_ceil(n);
        let mut reduced = false;
        let mut start = 0;
        while start < ops.len() {
            let end = (start + chunk).min(ops.len());
            let cand: Vec<Op> = ops[..start].iter().chain(&ops[end..]).cloned().collect();
            if !cand.is_empty() && test(&cand) {
                ops = cand;
                n = n.saturating_sub(1).max(2);
                reduced = true;
                break;
            }
            start = end;
        }
        if !reduced {
            if chunk == 1 {
                break;
            }
            n = (n * 2).min(ops.len());
        }
    }
    // whole-history simplification: everything on handle 0, ids renumbered from 0
    let all_h0: Vec<Op> = ops.iter().map(|o| map_op(o, |_| 0, |i| i)).collect();
    if all_h0 != ops && test(&all_h0) {
        ops = all_h0;
    }
    let mut order: Vec<u8> = Vec::new();
    for o in &ops {
        if let Op::Entry { id, .. } | Op::Get { id, .. } | Op::TryInsert { id, .. } | Op::Remove { id, .. } = o {
            if !order.contains(id) {
                order.push(*id);
            }
        }
    }
    let renum: Vec<Op> = ops
        .iter()
        .map(|o| map_op(o, |h| h, |i| order.iter().position(|x| *x == i).unwrap_or(0) as u8))
        .collect();
    if renum != ops && test(&renum) {
        ops = renum;
    }
    // per-operation simplification to a fixpoint
    loop {
        let mut changed = false;
        for i in 0..ops.len() {
            for cand_op in simpler(&ops[i]) {
                let mut cand = ops.clone();
                cand[i] = cand_op;
                if test(&cand) {
                    ops = cand;
                    changed = true;
                    break;
                }
            }
        }
        if !changed {
            break;
        }
    }
    ops
}

fn map_op(op: &Op, fh: impl Fn(u8) -> u8, fi: impl Fn(u8) -> u8) -> Op {
    match op {
        Op::Entry { h, id, vac, occ } => Op::Entry {
            h: fh(*h),
            id: fi(*id),
            vac: vac.clone(),
            occ: occ.clone(),
        },
        Op::Get { h, id } => Op::Get { h: fh(*h), id: fi(*id) },
        Op::TryInsert { h, id, key } => Op::TryInsert {
            h: fh(*h),
            id: fi(*id),
            key: key.clone(),
        },
        Op::Remove { h, id } => Op::Remove { h: fh(*h), id: fi(*id) },
        Op::FailInsert { h, id, via_entry } => Op::FailInsert { h: fh(*h), id: fi(*id), via_entry: *via_entry },
        o => o.clone(),
    }
}

fn simple_key() -> KeyRef {
    KeyRef::Synth { tag: 0, len: 0, shape: 0 }
}

fn simpler(op: &Op) -> Vec<Op> {
    let mut out = Vec::new();
    match op {
        Op::Entry { h, id, vac, occ } => {
            // entry+insert -> try_insert (simpler API); fewer occupied actions
            if let VacAct::Insert(k) = vac {
                if occ.is_empty() {
                    out.push(Op::TryInsert {
                        h: *h,
                        id: *id,
                        key: k.clone(),
                    });
                }
                out.push(Op::Entry {
                    h: *h,
                    id: *id,
                    vac: VacAct::Drop,
                    occ: occ.clone(),
                });
                if *k != simple_key() {
                    out.push(Op::Entry {
                        h: *h,
                        id: *id,
                        vac: VacAct::Insert(simple_key()),
                        occ: occ.clone(),
                    });
                }
            }
            for j in 0..occ.len() {
                let mut o = occ.clone();
                o.remove(j);
                out.push(Op::Entry {
                    h: *h,
                    id: *id,
                    vac: vac.clone(),
                    occ: o,
                });
            }
            if *h != 0 {
                out.push(Op::Entry {
                    h: 0,
                    id: *id,
                    vac: vac.clone(),
                    occ: occ.clone(),
                });
            }
            if *id != 0 {
                out.push(Op::Entry {
                    h: *h,
                    id: 0,
                    vac: vac.clone(),
                    occ: occ.clone(),
                });
            }
        }
        Op::Get { h, id } => {
            if *h != 0 {
                out.push(Op::Get { h: 0, id: *id });
            }
            if *id != 0 {
                out.push(Op::Get { h: *h, id: 0 });
            }
        }
        Op::TryInsert { h, id, key } => {
            if *key != simple_key() {
                out.push(Op::TryInsert {
                    h: *h,
                    id: *id,
                    key: simple_key(),
                });
            }
            if *h != 0 {
                out.push(Op::TryInsert {
                    h: 0,
                    id: *id,
                    key: key.clone(),
                });
            }
            if *id != 0 {
                out.push(Op::TryInsert {
                    h: *h,
                    id: 0,
                    key: key.clone(),
                });
            }
        }
        Op::Remove { h, id } => {
            if *h != 0 {
                out.push(Op::Remove { h: 0, id: *id });
            }
            if *id != 0 {
                out.push(Op::Remove { h: *h, id: 0 });
            }
        }
        Op::Reopen { second_open } => {
            if *second_open {
                out.push(Op::Reopen { second_open: false });
            }
        }
        Op::FailInsert { h, id, via_entry } => {
            if *via_entry {
                out.push(Op::FailInsert { h: *h, id: *id, via_entry: false });
            }
        }
        Op::Reclone { of } => {
            if *of != 0 {
                out.push(Op::Reclone { of: 0 });
            }
        }
    }
    out
}

// ---------------------------------------------------------------- replay files

#[derive(Serialize, Deserialize)]
struct ReplayFile {
    engine: String,
    property: String,
    seed: u64,
    config: Value,
    ops: Vec<Op>,
    violation: Value,
}

fn write_replay(path: &Path, seed: u64, config: Value, ops: &[Op], v: &Viol) {
    let rf = ReplayFile {
        engine: "kssim".into(),
        property: PROPERTY.into(),
        seed,
        config,
        ops: ops.to_vec(),
        violation: json!({"class": v.class, "sig": v.sig, "detail": v.detail, "step": v.step}),
    };
    let text = serde_json::to_string_pretty(&rf).expect("replay serialises");
    if let Err(e) = std::fs::write(path, text) {
        harness_error(&format!("cannot write replay {}: {e}", path.display()));
    }
}

fn load_replay(path: &Path) -> ReplayFile {
    let text = std::fs::read_to_string(path)
        .unwrap_or_else(|e| harness_error(&format!("cannot read replay {}: {e}", path.display())));
    let rf: ReplayFile = serde_json::from_str(&text)
        .unwrap_or_else(|e| harness_error(&format!("bad replay file {}: {e}", path.display())));
    if rf.engine != "kssim" || rf.property != PROPERTY {
        harness_error("replay file is not a kssim/C45 replay");
    }
    if rf.config.get("pool_seed").and_then(Value::as_u64) != Some(POOL_SEED) {
        harness_error("replay file was made with a different key pool");
    }
    rf
}

fn self_exe() -> PathBuf {
    std::env::current_exe().unwrap_or_else(|e| harness_error(&format!("current_exe: {e}")))
}

/// Re-execute a replay file in a fresh process; true if it reproduces the
/// recorded class+sig.
fn reproduces_in_fresh_process(path: &Path) -> bool {
    let out = std::process::Command::new(self_exe())
        .args(["--property", PROPERTY, "--replay"])
        .arg(path)
        .args(["--child", "replay-check"])
        .output()
        .unwrap_or_else(|e| harness_error(&format!("cannot spawn replay check: {e}")));
    let text = String::from_utf8_lossy(&out.stdout);
    if !out.status.success() {
        harness_error(&format!(
            "replay check process failed: {}",
            String::from_utf8_lossy(&out.stderr)
        ));
    }
    text.lines().any(|l| l.starts_with("REPRODUCED"))
}

fn replay_mode(cli: &Cli, path: &Path, pool: &[SimKey]) -> ! {
    let rf = load_replay(path);
    let class = rf.violation["class"].as_str().unwrap_or("").to_string();
    let sig = rf.violation["sig"].as_str().unwrap_or("").to_string();
    let r = run_history(&rf.ops, pool, true);
    if let Some(h) = r.harness {
        harness_error(&h);
    }
    let child = cli.extra.get("child").map(String::as_str) == Some("replay-check");
    if cli.has_flag("verbose") {
        for l in &r.log {
            println!("  {l}");
        }
    }
    println!("replay log-hash {:016x} ({} operations)", r.log_hash, rf.ops.len());
    match r.viol {
        Some(v) if v.class == class => {
            if child {
                println!("REPRODUCED {} {}", v.class, v.sig);
                std::process::exit(if v.sig == sig { 0 } else { 3 });
            }
            let viol = Violation {
                property: PROPERTY.into(),
                class: v.class,
                sig: v.sig,
                detail: v.detail,
                seed: rf.seed,
                replay: path.to_path_buf(),
            };
            std::process::exit(vcommon::report(PROPERTY, &[viol]));
        }
        Some(v) => {
            if child {
                println!("DIFFERENT {} {}", v.class, v.sig);
                std::process::exit(0);
            }
            // A different violation on the same history is still a violation.
            let viol = Violation {
                property: PROPERTY.into(),
                class: v.class,
                sig: v.sig,
                detail: format!("(recorded class was {class}) {}", v.detail),
                seed: rf.seed,
                replay: path.to_path_buf(),
            };
            std::process::exit(vcommon::report(PROPERTY, &[viol]));
        }
        None => {
            if child {
                println!("NOT-REPRODUCED");
            } else {
                println!(
                    "replay {}: recorded violation {class} no longer reproduces; the property holds on this history",
                    path.display()
                );
            }
            std::process::exit(0);
        }
    }
}

// ---------------------------------------------------------------- batches

struct Batch {
    runs: u64,
    log_hash: u64,
    /// first `audit_n` runs only
    audit_hash: u64,
    stats: BTreeMap<&'static str, u64>,
    distinct: usize,
    distinct_nontrivial: usize,
    /// (run index, run seed, violation), first per signature + total count per signature
    first_by_sig: BTreeMap<String, (u64, u64, Viol)>,
    count_by_sig: BTreeMap<String, u64>,
    failing_runs: u64,
}

struct PerRun {
    ops_hash: u64,
    log_hash: u64,
    nontrivial: bool,
    viol: Option<Viol>,
    harness: Option<String>,
    stats: BTreeMap<&'static str, u64>,
}

fn run_batch(seed: u64, tier: Tier, runs: u64, jobs: usize, audit_n: u64, pool: &[SimKey]) -> Batch {
    let results: Vec<PerRun> = vcommon::parallel_map(runs, jobs, |i| {
        let rs = mix(seed, i);
        let ops = gen_history(rs, tier);
        let r = run_history(&ops, pool, false);
        PerRun {
            ops_hash: ops_hash(&ops),
            log_hash: r.log_hash,
            nontrivial: r.nontrivial,
            viol: r.viol,
            harness: r.harness,
            stats: r.stats,
        }
    });
    let mut b = Batch {
        runs,
        log_hash: 0xcbf2_9ce4_8422_2325,
        audit_hash: 0,
        stats: BTreeMap::new(),
        distinct: 0,
        distinct_nontrivial: 0,
        first_by_sig: BTreeMap::new(),
        count_by_sig: BTreeMap::new(),
        failing_runs: 0,
    };
    let mut seen: BTreeSet<u64> = BTreeSet::new();
    for (i, r) in results.into_iter().enumerate() {
        if let Some(h) = r.harness {
            harness_error(&format!("run {i}: {h}"));
        }
        b.log_hash = (b.log_hash ^ r.log_hash).wrapping_mul(0x0000_0100_0000_01B3);
        if (i as u64) + 1 == audit_n {
            b.audit_hash = b.log_hash;
        }
        for (k, v) in r.stats {
            *b.stats.entry(k).or_insert(0) += v;
        }
        if seen.insert(r.ops_hash) {
            b.distinct += 1;
            if r.nontrivial {
                b.distinct_nontrivial += 1;
            }
        }
        if let Some(v) = r.viol {
            b.failing_runs += 1;
            *b.count_by_sig.entry(v.sig.clone()).or_insert(0) += 1;
            b.first_by_sig
                .entry(v.sig.clone())
                .or_insert((i as u64, mix(seed, i as u64), v));
        }
    }
    if audit_n >= runs {
        b.audit_hash = b.log_hash;
    }
    b
}

/// Determinism audit: the first `n` runs of the batch, executed again in two
/// fresh processes with different worker counts, must give the same event-log
/// hash as `expect` (if given) and as each other.
fn audit(cli: &Cli, n: u64, expect: Option<u64>) -> Vec<String> {
    let jobs_a = 1usize.max(cli.jobs / 4);
    let jobs_b = cli.jobs.max(2);
    let spawn = |jobs: usize| {
        std::process::Command::new(self_exe())
            .args(["--property", PROPERTY, "--tier", cli.tier.as_str()])
            .args(["--seed", &format!("{:#x}", cli.seed)])
            .args(["--jobs", &jobs.to_string()])
            .args(["--child", "hash-only", "--runs", &n.to_string()])
            .stdout(std::process::Stdio::piped())
            .stderr(std::process::Stdio::piped())
            .spawn()
            .unwrap_or_else(|e| harness_error(&format!("cannot spawn audit child: {e}")))
    };
    let (a, b) = (spawn(jobs_a), spawn(jobs_b));
    let mut hashes = Vec::new();
    for (c, jobs) in [(a, jobs_a), (b, jobs_b)] {
        let o = c
            .wait_with_output()
            .unwrap_or_else(|e| harness_error(&format!("audit child: {e}")));
        if !o.status.success() {
            harness_error(&format!(
                "audit child (jobs={jobs}) failed: {}",
                String::from_utf8_lossy(&o.stderr)
            ));
        }
        let text = String::from_utf8_lossy(&o.stdout);
        let Some(h) = text
            .lines()
            .find_map(|l| l.strip_prefix("LOGHASH "))
            .and_then(|s| s.split_whitespace().next().map(str::to_string))
        else {
            harness_error("audit child printed no LOGHASH");
        };
        hashes.push(h);
    }
    if let Some(e) = expect {
        hashes.push(format!("{e:016x}"));
    }
    if hashes.iter().any(|h| *h != hashes[0]) {
        harness_error(&format!(
            "NONDETERMINISM: event-log hashes differ between processes / worker counts: {hashes:?}"
        ));
    }
    hashes
}

/// NOT part of the check and NOT deterministic: two OS threads hammer the same
/// id through two handles of one directory. Used once, by hand, to look at the
/// behaviour C45 does not quantify over (concurrent use); see the report.
fn race_probe(iters: u64, pool: &[SimKey]) -> ! {
    let fs = FsSut::new().unwrap_or_else(|e| harness_error(&e.0));
    let mut hs: Vec<FsStore> = Vec::new();
    hs.push(fs.open_one().unwrap_or_else(|e| harness_error(&e.0)));
    hs.push(hs[0].try_clone().unwrap_or_else(|e| harness_error(&e.to_string())));
    let tallies: Vec<BTreeMap<String, u64>> = std::thread::scope(|s| {
        let js: Vec<_> = hs
            .into_iter()
            .enumerate()
            .map(|(t, mut h)| {
                s.spawn(move || {
                    let mut tally: BTreeMap<String, u64> = BTreeMap::new();
                    let mut bump = |k: String| *tally.entry(k).or_insert(0) += 1;
                    for i in 0..iters {
                        match h.entry::<SimKey>(store_id(0)) {
                            Err(e) => bump(format!("entry -> Err({e})")),
                            Ok(Entry::Vacant(v)) => {
                                if (i + t as u64) % 3 == 0 {
                                    match v.insert(materialise(&simple_key(), pool)) {
                                        Ok(()) => bump("vacant.insert -> Ok".into()),
                                        Err(e) => bump(format!("vacant.insert -> Err({e})")),
                                    }
                                } else {
                                    drop(v);
                                    bump("vacant.drop".into());
                                }
                            }
                            Ok(Entry::Occupied(o)) => match o.remove() {
                                Ok(_) => bump("occupied.remove -> Ok".into()),
                                Err(e) => bump(format!("occupied.remove -> Err({e})")),
                            },
                        }
                    }
                    tally
                })
            })
            .collect();
        js.into_iter().map(|j| j.join().expect("probe thread")).collect()
    });
    for (t, tally) in tallies.iter().enumerate() {
        for (k, v) in tally {
            println!("race-probe thread {t}: {v:>8}  {k}");
        }
    }
    drop(fs);
    std::process::exit(0);
}

fn main() {
    let mut cli = vcommon::parse_cli();
    if cli.property.is_empty() {
        cli.property = PROPERTY.into();
    }
    if cli.property != PROPERTY {
        harness_error(&format!("kssim checks {PROPERTY} only, not {}", cli.property));
    }
    // Library panics are caught and classified; keep their default message off stderr.
    std::panic::set_hook(Box::new(|_| {}));
    let _ = std::fs::create_dir_all(Path::new(vcommon::VERIF_ROOT).join("target/tmp"));
    let pool = build_pool();

    if let Some(path) = cli.replay.clone() {
        replay_mode(&cli, &path, &pool);
    }

    let default_runs: u64 = match cli.tier {
        Tier::Quick => 24_000,
        Tier::Thorough => 100_000,
    };
    let runs = cli
        .extra
        .get("runs")
        .and_then(|s| s.parse().ok())
        .unwrap_or(default_runs);

    if cli.extra.get("child").map(String::as_str) == Some("hash-only") {
        let b = run_batch(cli.seed, cli.tier, runs, cli.jobs, runs, &pool);
        println!("LOGHASH {:016x} runs={} failing={}", b.log_hash, b.runs, b.failing_runs);
        std::process::exit(0);
    }

    if cli.extra.get("child").map(String::as_str) == Some("race-probe") {
        race_probe(runs, &pool);
    }

    if cli.has_flag("audit") {
        let n = runs.min(20_000);
        let hashes = audit(&cli, n, None);
        println!(
            "audit ok: {n} histories x 2 processes x 2 worker counts, event-log hash {}",
            hashes[0]
        );
        std::process::exit(0);
    }

    let mut ev = Evidence::new(&cli, "exploration");
    let audit_n = match cli.tier {
        Tier::Quick => 2_000.min(runs),
        Tier::Thorough => 10_000.min(runs),
    };
    let b = run_batch(cli.seed, cli.tier, runs, cli.jobs, audit_n, &pool);
    let hashes = audit(&cli, audit_n, Some(b.audit_hash));

    // ---- violations: minimise the first failing run of each signature
    let mut violations = Vec::new();
    let mut viol_json = Vec::new();
    for (sig, (i, rs, v)) in &b.first_by_sig {
        let ops = gen_history(*rs, cli.tier);
        let min_ops = if cli.has_flag("no-minimise") {
            ops.clone()
        } else {
            minimise(&ops, &pool, &v.class, sig)
        };
        let r = run_history(&min_ops, &pool, false);
        let Some(mv) = r.viol.filter(|m| m.class == v.class && m.sig == *sig) else {
            harness_error(&format!(
                "minimised history for {sig} does not reproduce in-process (nondeterminism?)"
            ));
        };
        let tag = format!("{:08x}", fnv(sig.as_bytes()) as u32);
        let path = vcommon::replay_path(PROPERTY, *rs, &tag);
        write_replay(
            &path,
            *rs,
            json!({
                "pool_seed": POOL_SEED, "tier": cli.tier.as_str(), "batch_seed": format!("{:#x}", cli.seed),
                "run_index": i, "original_ops": ops.len(), "minimised_ops": min_ops.len(),
                "runs_with_this_signature": b.count_by_sig[sig],
            }),
            &min_ops,
            &mv,
        );
        if !reproduces_in_fresh_process(&path) {
            harness_error(&format!(
                "replay {} does not reproduce in a fresh process (nondeterminism?)",
                path.display()
            ));
        }
        viol_json.push(json!({
            "class": mv.class, "sig": sig, "runs": b.count_by_sig[sig],
            "first_run_index": i, "minimised_ops": min_ops.len(), "replay": path.display().to_string(),
        }));
        violations.push(Violation {
            property: PROPERTY.into(),
            class: mv.class.clone(),
            sig: sig.clone(),
            detail: format!(
                "{} [{} of {} histories; minimised {} -> {} operations]",
                mv.detail,
                b.count_by_sig[sig],
                b.runs,
                ops.len(),
                min_ops.len()
            ),
            seed: *rs,
            replay: path,
        });
    }

    // ---- evidence
    ev.evaluations = b.runs;
    ev.distinct_nontrivial = b.distinct_nontrivial as u64;
    ev.rule = format!(
        "run i uses seed mix(VERIF_SEED, i); a history is {} operations over 1..=4 key ids drawn from \
         entry->(vacant: insert|drop)/(occupied: 0..3 gets then optional remove), get, try_insert, remove, \
         reopen of the directory (all handles dropped first), re-clone of the second handle; each operation \
         on handle 0 or on a try_clone/second-open handle; values are DefaultEngine-wrapped keys or synthetic \
         keys of 0..400 bytes. The same list runs against MemStore, fs Store (fresh real directory) and a \
         BTreeMap model; every observation is compared with the model (hence between stores); after the \
         history the directory is reopened and all 4 ids are read back. distinct = FNV-1a of the JSON \
         operation list; non-trivial = the execution performed at least one reopen, or a get-after-get / \
         remove-after-get on one occupied entry (counted from what executed, not from what was drawn).",
        match cli.tier {
            Tier::Quick => "3..=24",
            Tier::Thorough => "3..=80",
        }
    );
    for i in 0..3u64.min(b.runs) {
        let rs = mix(cli.seed, i);
        let ops = gen_history(rs, cli.tier);
        let r = run_history(&ops, &pool, true);
        ev.samples.push(json!({
            "run_index": i, "run_seed": format!("{rs:#x}"),
            "ops": serde_json::to_value(&ops).expect("ops"),
            "event_log": r.log,
        }));
    }
    let g = |k: &str| b.stats.get(k).copied().unwrap_or(0);
    ev.set("faults_fired", json!({"reopen": g("reopen") + g("final_audit"), "reopen_in_history": g("reopen"), "reopen_final_audit": g("final_audit")}));
    ev.set(
        "probes",
        Value::Object(b.stats.iter().map(|(k, v)| ((*k).to_string(), json!(v))).collect()),
    );
    ev.set("distinct_histories", json!({"count": b.distinct, "measure": "FNV-1a 64 of the JSON operation list"}));
    ev.set("sim_steps", json!(b.stats.iter().filter(|(k, _)| !matches!(**k, "final_audit" | "op_on_second_handle")).map(|(_, v)| *v).sum::<u64>()));
    ev.set(
        "components",
        json!({
            "real": ["aranya_crypto::keystore::memstore::MemStore", "aranya_crypto::keystore::fs_keystore::Store (rustix on the real ext4 file system under /verif/target/tmp)", "KeyStore::try_insert/remove default methods", "DefaultEngine key wrapping (pool keys)", "ciborium encoding"],
            "stub": ["CSPRNG of the wrapping engine (seeded xoshiro)"],
            "model": "BTreeMap<id, serialised key>",
        }),
    );
    ev.set(
        "determinism_audit",
        json!({"histories": audit_n, "executions": 3, "processes": 3, "worker_counts": [1usize.max(cli.jobs / 4), cli.jobs.max(2), cli.jobs], "event_log_hash": hashes[0]}),
    );
    ev.set("event_log_hash", json!(format!("{:016x}", b.log_hash)));
    ev.set("failing_histories", json!(b.failing_runs));
    ev.set("violation_signatures", Value::Array(viol_json));
    ev.set("anomalies", json!([]));
    ev.assumptions = vec![
        "single-threaded histories: concurrent use of two handles (flock races, EEXIST on exclusive create) is not explored".into(),
        "no I/O error, short read/write or crash in the middle of an operation is injected below the store; restart happens only between operations".into(),
        "the file system is the real ext4 under /verif/target/tmp; errors that look environmental (ENOSPC, EMFILE, EACCES, EIO) are harness errors, not violations".into(),
    ];
    ev.violations = violations.len() as u64;
    let known = vcommon::load_known_findings();
    let unknown = violations
        .iter()
        .filter(|v| !known.iter().any(|k| k.property == v.property && k.sig == v.sig))
        .count();
    ev.set("violations_not_in_known_findings", json!(unknown));
    ev.write(&cli.evidence_path());

    println!(
        "kssim {PROPERTY} tier={} seed={:#x}: {} histories ({} distinct, {} distinct non-trivial), {} reopens, \
         {} failing histories in {} signature(s), event-log hash {:016x}, determinism audit ok ({} histories x 3 executions)",
        cli.tier.as_str(),
        cli.seed,
        b.runs,
        b.distinct,
        b.distinct_nontrivial,
        g("reopen"),
        b.failing_runs,
        b.first_by_sig.len(),
        b.log_hash,
        audit_n,
    );
    std::process::exit(vcommon::report(PROPERTY, &violations));
}
