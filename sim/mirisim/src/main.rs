//! E4 `mirisim` workload for C33 "Shared text storage is memory safe across
//! threads". This program is *interpreted by Miri*; Miri is the simulator
//! (one deterministic schedule per `-Zmiri-seed`, random pre-emption, weak
//! memory emulation, data-race / use-after-free / double-free / leak
//! detection). The workload (who clones, reads, compares, hashes and drops
//! what, in which order, and which thread is delayed so that it tends to drop
//! the last reference) is drawn from the workload seed given in argv.
//!
//! usage: mirisim <shape> <workload-seed>      shape = fanout|chain|convert|scoped|setkeys
//!        mirisim probe                        prints MIRISIM-PROBE ok
//!
//! Deliberately no synchronisation between the worker threads other than what
//! the text type's own reference count provides: a join or channel between a
//! reader and the thread that frees would hide exactly the races C33 is about.
//! The event tickets use `Relaxed` operations on one static counter, which add
//! no happens-before edge.

use std::{
    collections::BTreeSet,
    hash::{DefaultHasher, Hash, Hasher},
    str::FromStr,
    sync::atomic::{AtomicUsize, Ordering},
    thread,
};

use aranya_policy_text::{Identifier, Text};

static TICKET: AtomicUsize = AtomicUsize::new(0);

fn ticket() -> usize {
    TICKET.fetch_add(1, Ordering::Relaxed)
}

struct Rng(u64);

impl Rng {
    fn next(&mut self) -> u64 {
        self.0 = self.0.wrapping_add(0x9E37_79B9_7F4A_7C15);
        let mut z = self.0;
        z = (z ^ (z >> 30)).wrapping_mul(0xBF58_476D_1CE4_E5B9);
        z = (z ^ (z >> 27)).wrapping_mul(0x94D0_49BB_1331_11EB);
        z ^ (z >> 31)
    }
    fn below(&mut self, n: u64) -> u64 {
        self.next() % n
    }
    fn range(&mut self, lo: u64, hi: u64) -> u64 {
        lo + self.below(hi - lo + 1)
    }
}

fn fnv(bytes: &[u8]) -> u64 {
    let mut h: u64 = 0xcbf2_9ce4_8422_2325;
    for b in bytes {
        h ^= u64::from(*b);
        h = h.wrapping_mul(0x0000_0100_0000_01B3);
    }
    h
}

/// A heap-backed string: longer than the 22-byte inline limit, identifier-safe.
fn heap_string(rng: &mut Rng, tag: char) -> String {
    let len = rng.range(23, 48) as usize;
    let mut s = String::with_capacity(len);
    s.push(tag);
    while s.len() < len {
        let c = b'a' + (rng.below(26) as u8);
        s.push(c as char);
        if s.len() < len && rng.below(5) == 0 {
            s.push('_');
        }
    }
    s
}

fn hash_of<T: Hash>(v: &T) -> u64 {
    let mut h = DefaultHasher::new();
    v.hash(&mut h);
    h.finish()
}

#[derive(Clone, Copy, Debug)]
enum Op {
    Clone(usize),
    Read(usize),
    Cmp(usize, usize),
    Hash(usize),
    Drop(usize),
    /// Identifier <-> Text round trip of handle i (moves the same allocation).
    Convert(usize),
    Yield,
}

fn draw_ops(rng: &mut Rng, with_convert: bool) -> Vec<Op> {
    let n = rng.range(3, 6);
    (0..n)
        .map(|_| {
            let a = rng.below(4) as usize;
            let b = rng.below(4) as usize;
            match rng.below(if with_convert { 8 } else { 7 }) {
                0 | 1 => Op::Clone(a),
                2 => Op::Read(a),
                3 => Op::Cmp(a, b),
                4 => Op::Hash(a),
                5 => Op::Drop(a),
                6 => Op::Yield,
                _ => Op::Convert(a),
            }
        })
        .collect()
}

/// What a worker is told; all plain data, nothing under test.
#[derive(Clone)]
struct Plan {
    thread: usize,
    ops: Vec<Op>,
    /// extra yields before the final drops (the drawn "late" thread gets many)
    linger: usize,
    /// drop the remaining handles front-to-back instead of back-to-front
    drop_forward: bool,
    expect: String,
    expect_hash: u64,
    /// address of the shared heap bytes, to prove sharing (never dereferenced)
    shared_addr: usize,
}

#[derive(Default)]
struct Report {
    events: Vec<(usize, usize, u8)>,
    /// held (and finally dropped) a handle to the one shared allocation
    held_shared: bool,
    /// read the shared bytes (as_str / compare / hash)
    touched_shared: bool,
    foreign_alloc: bool,
    ops: usize,
}

fn worker(plan: Plan, mut locals: Vec<Text>) -> Report {
    let mut rep = Report::default();
    let t = plan.thread;
    let ev = |rep: &mut Report, code: u8| rep.events.push((ticket(), t, code));
    let check = |rep: &mut Report, x: &Text| {
        let s = x.as_str();
        assert_eq!(s, plan.expect, "shared text content changed");
        if s.as_ptr() as usize == plan.shared_addr {
            rep.touched_shared = true;
        } else {
            rep.foreign_alloc = true;
        }
    };
    for x in &locals {
        // address comparison only: no read of the shared bytes
        if x.as_str().as_ptr() as usize == plan.shared_addr {
            rep.held_shared = true;
        } else {
            rep.foreign_alloc = true;
        }
    }
    for op in &plan.ops {
        if locals.is_empty() {
            break;
        }
        let n = locals.len();
        rep.ops += 1;
        match *op {
            Op::Clone(i) => {
                ev(&mut rep, b'c');
                let c = locals[i % n].clone();
                locals.push(c);
            }
            Op::Read(i) => {
                ev(&mut rep, b'r');
                check(&mut rep, &locals[i % n]);
            }
            Op::Cmp(i, j) => {
                ev(&mut rep, b'=');
                assert!(locals[i % n] == locals[j % n]);
                assert_eq!(locals[i % n].cmp(&locals[j % n]), std::cmp::Ordering::Equal);
                assert!(locals[i % n].const_eq(&locals[j % n]));
                check(&mut rep, &locals[i % n]);
            }
            Op::Hash(i) => {
                ev(&mut rep, b'h');
                assert_eq!(hash_of(&locals[i % n]), plan.expect_hash);
                check(&mut rep, &locals[i % n]);
            }
            Op::Drop(i) => {
                ev(&mut rep, b'd');
                drop(locals.swap_remove(i % n));
            }
            Op::Convert(i) => {
                ev(&mut rep, b'v');
                let x = locals.swap_remove(i % n);
                let id = Identifier::try_from(x).expect("identifier-safe by construction");
                assert_eq!(id.as_str(), plan.expect);
                let id2 = id.clone();
                let back = Text::from(id);
                check(&mut rep, &back);
                locals.push(back);
                drop(id2);
            }
            Op::Yield => {
                ev(&mut rep, b'y');
                thread::yield_now();
            }
        }
    }
    for _ in 0..plan.linger {
        thread::yield_now();
    }
    ev(&mut rep, b'D');
    if plan.drop_forward {
        for x in locals {
            drop(x);
        }
    } else {
        while let Some(x) = locals.pop() {
            drop(x);
        }
    }
    ev(&mut rep, b'E');
    rep
}

struct Setup {
    plans: Vec<Plan>,
    base: Text,
}

/// Draw the whole workload; runs on the *creator* thread, so the heap value is
/// created on a different thread than the ones that later use and free it.
fn setup(rng: &mut Rng, with_convert: bool, nthreads: usize) -> Setup {
    let s = heap_string(rng, 't');
    let base = Text::from_str(&s).expect("valid text");
    let late = rng.below(nthreads as u64) as usize;
    let plans = (0..nthreads)
        .map(|t| Plan {
            thread: t,
            ops: draw_ops(rng, with_convert),
            linger: if t == late {
                rng.range(8, 24) as usize
            } else {
                rng.below(3) as usize
            },
            drop_forward: rng.below(2) == 0,
            expect: s.clone(),
            expect_hash: hash_of(&s.as_str()),
            shared_addr: base.as_str().as_ptr() as usize,
        })
        .collect();
    Setup {
        plans,
        base,
    }
}

fn handles(rng: &mut Rng, base: &Text) -> Vec<Text> {
    (0..rng.range(1, 2)).map(|_| base.clone()).collect()
}

// ---- shapes -----------------------------------------------------------------

/// Creator thread hands clones to 1-2 workers it spawns, works on its own
/// handles meanwhile, drops them, then joins.
fn fanout(rng: &mut Rng, with_convert: bool) -> Vec<Report> {
    let mut r = Rng(rng.next());
    thread::spawn(move || {
        let n = r.range(2, 3) as usize;
        let su = setup(&mut r, with_convert, n);
        let mut joins = Vec::new();
        for t in 1..n {
            let hs = handles(&mut r, &su.base);
            let plan = su.plans[t].clone();
            joins.push(thread::spawn(move || worker(plan, hs)));
        }
        let mut mine = handles(&mut r, &su.base);
        mine.push(su.base);
        let mut reps = vec![worker(su.plans[0].clone(), mine)];
        for j in joins {
            reps.push(j.join().expect("worker panicked"));
        }
        reps
    })
    .join()
    .expect("creator panicked")
}

/// T0 creates and spawns T1, drops everything and exits without joining; T1
/// spawns T2. The allocation outlives its creator thread; main joins all.
fn chain(rng: &mut Rng) -> Vec<Report> {
    let mut r = Rng(rng.next());
    let t0 = thread::spawn(move || {
        let su = setup(&mut r, false, 3);
        let h1 = handles(&mut r, &su.base);
        let h2_seed = r.next();
        let p1 = su.plans[1].clone();
        let p2 = su.plans[2].clone();
        let t1 = thread::spawn(move || {
            let mut r = Rng(h2_seed);
            let h2 = handles(&mut r, &h1[0]);
            let t2 = thread::spawn(move || worker(p2, h2));
            (worker(p1, h1), t2)
        });
        let mut mine = handles(&mut r, &su.base);
        mine.push(su.base);
        (worker(su.plans[0].clone(), mine), t1)
    });
    let (r0, t1) = t0.join().expect("t0 panicked");
    let (r1, t2) = t1.join().expect("t1 panicked");
    let r2 = t2.join().expect("t2 panicked");
    vec![r0, r1, r2]
}

/// Scoped threads borrow the owner's `&Text` and clone from the borrow
/// concurrently; one more owned clone is moved into the last worker.
fn scoped(rng: &mut Rng) -> Vec<Report> {
    let mut r = Rng(rng.next());
    thread::spawn(move || {
        let n = r.range(2, 3) as usize;
        let su = setup(&mut r, false, n);
        let moved = su.base.clone();
        let base = &su.base;
        let plans = &su.plans;
        let mut moved = Some(moved);
        let reps = thread::scope(|s| {
            let mut js = Vec::new();
            for t in 0..n {
                let extra = if t + 1 == n { moved.take() } else { None };
                js.push(s.spawn(move || {
                    let mut hs = vec![base.clone()];
                    assert_eq!(base.as_str(), plans[t].expect);
                    hs.extend(extra);
                    worker(plans[t].clone(), hs)
                }));
            }
            js.into_iter()
                .map(|j| j.join().expect("scoped worker panicked"))
                .collect::<Vec<_>>()
        });
        drop(su);
        reps
    })
    .join()
    .expect("owner panicked")
}

/// Workers put clones (as `Identifier`s) of two heap values into their own
/// ordered sets, look them up by `&str`, and drop the sets.
fn setkeys(rng: &mut Rng) -> Vec<Report> {
    let mut r = Rng(rng.next());
    thread::spawn(move || {
        let n = r.range(2, 3) as usize;
        let su = setup(&mut r, true, n);
        let other_s = heap_string(&mut r, 'u');
        let other = Identifier::from_str(&other_s).expect("valid identifier");
        let mut joins = Vec::new();
        for t in 1..n {
            let hs = handles(&mut r, &su.base);
            let o = other.clone();
            let os = other_s.clone();
            let plan = su.plans[t].clone();
            joins.push(thread::spawn(move || set_worker(plan, hs, o, os)));
        }
        let mut mine = handles(&mut r, &su.base);
        mine.push(su.base);
        let mut reps = vec![set_worker(su.plans[0].clone(), mine, other, other_s)];
        for j in joins {
            reps.push(j.join().expect("worker panicked"));
        }
        reps
    })
    .join()
    .expect("creator panicked")
}

fn set_worker(plan: Plan, locals: Vec<Text>, other: Identifier, other_s: String) -> Report {
    let mut set: BTreeSet<Identifier> = BTreeSet::new();
    let t0 = ticket();
    for x in &locals {
        let id = Identifier::try_from(x.clone()).expect("identifier-safe");
        set.insert(id);
    }
    set.insert(other.clone());
    set.insert(other);
    assert_eq!(set.len(), 2);
    assert!(set.contains(plan.expect.as_str()));
    assert!(set.contains(other_s.as_str()));
    let thread = plan.thread;
    let mut rep = worker(plan, locals);
    rep.events.push((t0, thread, b's'));
    rep.events.push((ticket(), thread, b'S'));
    drop(set);
    rep
}

fn main() {
    let args: Vec<String> = std::env::args().collect();
    let shape = args.get(1).map(String::as_str).unwrap_or("");
    if shape == "probe" {
        println!("MIRISIM-PROBE ok");
        return;
    }
    let ws: u64 = args
        .get(2)
        .and_then(|s| s.parse().ok())
        .unwrap_or_else(|| {
            eprintln!("MIRISIM-USAGE: mirisim <fanout|chain|convert|scoped|setkeys> <workload-seed>");
            std::process::exit(64);
        });
    let mut rng = Rng(ws ^ fnv(shape.as_bytes()));
    let reps = match shape {
        "fanout" => fanout(&mut rng, false),
        "convert" => fanout(&mut rng, true),
        "chain" => chain(&mut rng),
        "scoped" => scoped(&mut rng),
        "setkeys" => setkeys(&mut rng),
        _ => {
            eprintln!("MIRISIM-USAGE: unknown shape {shape:?}");
            std::process::exit(64);
        }
    };
    // All threads are joined and every handle is dropped: from here on only
    // plain data is touched. Leaks are reported by Miri when main returns.
    let threads = reps.len();
    let sharers = reps.iter().filter(|r| r.held_shared).count();
    let readers = reps.iter().filter(|r| r.touched_shared).count();
    let foreign = reps.iter().any(|r| r.foreign_alloc);
    let ops: usize = reps.iter().map(|r| r.ops).sum();
    let mut events: Vec<(usize, usize, u8)> = reps.into_iter().flat_map(|r| r.events).collect();
    events.sort();
    let trace: String = events
        .iter()
        .map(|(_, t, c)| format!("{t}{}", *c as char))
        .collect();
    println!(
        "MIRISIM-EXEC w={shape} ws={ws} threads={threads} sharers={sharers} readers={readers} one_alloc={} ops={ops} trace={:016x} order={trace}",
        u8::from(!foreign),
        fnv(trace.as_bytes()),
    );
}
