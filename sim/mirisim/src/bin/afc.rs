//! OPTIONAL second witness for C43 / C44 (mode `run.sh C43-miri`, required by
//! nothing): the real futex mutex of aranya-fast-channels (`mutex.rs`, through
//! the guard-only export `verif::SharedMutex`) and the real loan mechanism
//! (`memory/lender.rs`, through `memory::{VerifLender, VerifLoan}`) interpreted
//! by Miri. No hook table is installed, so the crate uses the real
//! `futex(FUTEX_WAIT/FUTEX_WAKE)` system call (emulated by Miri) and
//! `sched_yield`. Miri adds what shuttle (E3) cannot: weak-memory emulation and
//! data-race detection on the protected data, use-after-free / double-free /
//! leak detection on the loaned allocation, and deadlock detection (a lost
//! wake-up ends in "the evaluated program deadlocked").
//!
//! usage: mirisim-afc <mutex|lender> <workload-seed> | probe

use std::{
    sync::{
        Arc,
        atomic::{AtomicUsize, Ordering},
    },
    thread,
};

use aranya_fast_channels::{
    memory::{VerifLender as Lender, VerifLoan as Loan},
    verif::SharedMutex,
};

static TICKET: AtomicUsize = AtomicUsize::new(0);
static DROPS: AtomicUsize = AtomicUsize::new(0);
/// Start flag (Relaxed: no happens-before edge), so that the threads contend
/// instead of running one after the other.
static GO: AtomicUsize = AtomicUsize::new(0);

// Counters fed by the crate's hook table. The hooks only count: `futex_wait` /
// `futex_wake` / `sched_yield` return false, so the crate falls through to the
// real system calls; `point` does not schedule anything (Miri schedules).
static SLEEP_PATH: AtomicUsize = AtomicUsize::new(0);
static FUTEX_WAITS: AtomicUsize = AtomicUsize::new(0);
static FUTEX_WAKES: AtomicUsize = AtomicUsize::new(0);
static SPIN_ACQUIRED: AtomicUsize = AtomicUsize::new(0);
static LENDER_FREE: AtomicUsize = AtomicUsize::new(0);

fn h_point(site: &'static str) {
    if site == "mutex.lock.swap_sleeping" {
        SLEEP_PATH.fetch_add(1, Ordering::Relaxed);
    }
}
fn h_wait(_: &core::sync::atomic::AtomicU32, _: u32) -> bool {
    FUTEX_WAITS.fetch_add(1, Ordering::Relaxed);
    false
}
fn h_wake(_: &core::sync::atomic::AtomicU32, _: u32) -> bool {
    FUTEX_WAKES.fetch_add(1, Ordering::Relaxed);
    false
}
fn h_yield() -> bool {
    false
}
fn h_probe(name: &'static str) {
    match name {
        "mutex.lock.spin_acquired" => SPIN_ACQUIRED.fetch_add(1, Ordering::Relaxed),
        "lender.drop.free" => LENDER_FREE.fetch_add(1, Ordering::Relaxed),
        _ => 0,
    };
}
static HOOKS: aranya_fast_channels::verif::Hooks = aranya_fast_channels::verif::Hooks {
    point: h_point,
    futex_wait: h_wait,
    futex_wake: h_wake,
    sched_yield: h_yield,
    probe: h_probe,
};

fn wait_go() {
    while GO.load(Ordering::Relaxed) == 0 {
        thread::yield_now();
    }
}

fn ticket() -> usize {
    TICKET.fetch_add(1, Ordering::Relaxed)
}

struct Rng(u64);

impl Rng {
    fn next(&mut self) -> u64 {
        self.0 = self.0.wrapping_add(0x9E37_79B9_7F4A_7C15);
        let mut z = self.0;
        z = (z ^ (z >> 30)).wrapping_mul(0xBF58_476D_1CE4_E5B9);
        z = (z ^ (z >> 27)).wrapping_mul(0x94D0_49BB_1331_11EB);
        z ^ (z >> 31)
    }
    fn below(&mut self, n: u64) -> u64 {
        self.next() % n
    }
    fn range(&mut self, lo: u64, hi: u64) -> u64 {
        lo + self.below(hi - lo + 1)
    }
}

fn fnv(bytes: &[u8]) -> u64 {
    let mut h: u64 = 0xcbf2_9ce4_8422_2325;
    for b in bytes {
        h ^= u64::from(*b);
        h = h.wrapping_mul(0x0000_0100_0000_01B3);
    }
    h
}

type Events = Vec<(usize, usize, u8)>;

/// C43: 2-3 threads x 1-3 lock/unlock rounds over plain (non-atomic) data.
/// Oracle: the two plain counters never differ inside the critical section,
/// the total is exact, every thread finishes (else Miri reports a deadlock),
/// and Miri sees no data race on the protected data.
fn mutex(rng: &mut Rng) -> (usize, usize, Events) {
    let n = rng.range(2, 3) as usize;
    let m = Arc::new(SharedMutex::new((0u64, 0u64)));
    let mut joins = Vec::new();
    let mut total = 0u64;
    for t in 0..n {
        let rounds = rng.range(1, 3);
        total += rounds;
        let hold = rng.range(1, 4);
        let gap = rng.below(3);
        let m = Arc::clone(&m);
        joins.push(thread::spawn(move || {
            let mut ev: Events = Vec::new();
            wait_go();
            for _ in 0..rounds {
                let mut g = m.lock();
                ev.push((ticket(), t, b'L'));
                g.0 += 1;
                for _ in 0..hold {
                    thread::yield_now();
                }
                g.1 += 1;
                assert_eq!(g.0, g.1, "two threads inside the critical section");
                ev.push((ticket(), t, b'U'));
                drop(g);
                for _ in 0..gap {
                    thread::yield_now();
                }
            }
            ev
        }));
    }
    GO.store(1, Ordering::Relaxed);
    let mut events = Vec::new();
    for j in joins {
        events.extend(j.join().expect("mutex worker panicked"));
    }
    let g = m.lock();
    assert_eq!((g.0, g.1), (total, total), "lost update under the mutex");
    drop(g);
    (n, total as usize, events)
}

struct Payload(u64);

impl Drop for Payload {
    fn drop(&mut self) {
        DROPS.fetch_add(1, Ordering::Relaxed);
    }
}

fn use_loan(t: usize, loan: &mut Loan<Payload, Payload>, ops: u64, ev: &mut Events) -> bool {
    for i in 0..ops {
        if i % 2 == 0 {
            match loan.get_mut() {
                Some((s, x)) => {
                    ev.push((ticket(), t, b'm'));
                    assert_eq!(s.0, 7);
                    x.0 += 1;
                }
                None => {
                    ev.push((ticket(), t, b'x'));
                    return false;
                }
            }
        } else {
            match loan.get_ref() {
                Some((s, x)) => {
                    ev.push((ticket(), t, b'r'));
                    assert_eq!(s.0, 7);
                    assert!(x.0 >= 100);
                }
                None => {
                    ev.push((ticket(), t, b'x'));
                    return false;
                }
            }
        }
        thread::yield_now();
    }
    true
}

/// C44: the lender side reads the shared part, tries to lend again (must be
/// refused while a loan is live), and drops the lender at a drawn point - on
/// its own thread or on a third one - while the borrower thread uses and
/// drops the loan. Oracle: never two live loans, access through the loan
/// fails once the lender is gone, both payload halves are dropped exactly
/// once, and Miri sees no use-after-free, double free, leak or data race.
fn lender(rng: &mut Rng) -> (usize, usize, Events) {
    let l = Lender::new(Payload(7), Payload(100));
    let mut loan = l.lend().expect("first loan");
    assert!(l.lend().is_none(), "two live loans");
    let b_ops = rng.range(1, 5);
    let a_reads = rng.range(0, 3);
    let third = rng.below(2) == 0;
    let relend = rng.below(2) == 0;
    let b = thread::spawn(move || {
        let mut ev: Events = Vec::new();
        wait_go();
        let alive = use_loan(1, &mut loan, b_ops, &mut ev);
        ev.push((ticket(), 1, if alive { b'd' } else { b'D' }));
        drop(loan);
        ev
    });
    let mut ev: Events = Vec::new();
    GO.store(1, Ordering::Relaxed);
    for _ in 0..a_reads {
        ev.push((ticket(), 0, b's'));
        assert_eq!(l.shared().0, 7);
        thread::yield_now();
    }
    let mut extra_live = false;
    if relend {
        // Allowed to succeed only if the borrower has already dropped its loan.
        if let Some(mut again) = l.lend() {
            extra_live = true;
            ev.push((ticket(), 0, b'l'));
            assert!(l.lend().is_none(), "two live loans");
            let _ = use_loan(0, &mut again, 2, &mut ev);
            drop(again);
        } else {
            ev.push((ticket(), 0, b'n'));
        }
    }
    let mut threads = 2;
    if third {
        threads = 3;
        let c = thread::spawn(move || {
            let t = ticket();
            drop(l);
            vec![(t, 2usize, b'R')]
        });
        ev.extend(c.join().expect("dropper panicked"));
    } else {
        ev.push((ticket(), 0, b'R'));
        drop(l);
    }
    ev.extend(b.join().expect("borrower panicked"));
    let _ = extra_live;
    assert_eq!(DROPS.load(Ordering::Relaxed), 2, "payload halves must be dropped exactly once each");
    let ops = ev.len();
    (threads, ops, ev)
}

fn main() {
    let args: Vec<String> = std::env::args().collect();
    let shape = args.get(1).map(String::as_str).unwrap_or("");
    if shape == "probe" {
        println!("MIRISIM-PROBE ok");
        return;
    }
    let ws: u64 = args.get(2).and_then(|s| s.parse().ok()).unwrap_or_else(|| {
        eprintln!("MIRISIM-USAGE: mirisim-afc <mutex|lender> <workload-seed>");
        std::process::exit(64);
    });
    let mut rng = Rng(ws ^ fnv(shape.as_bytes()));
    aranya_fast_channels::verif::install(&HOOKS);
    let (threads, ops, mut events) = match shape {
        "mutex" => mutex(&mut rng),
        "lender" => lender(&mut rng),
        _ => {
            eprintln!("MIRISIM-USAGE: unknown shape {shape:?}");
            std::process::exit(64);
        }
    };
    events.sort();
    let trace: String = events.iter().map(|(_, t, c)| format!("{t}{}", *c as char)).collect();
    // Same line format as the C33 workload; every thread works on the one
    // shared mutex / loaned allocation by construction.
    println!(
        "MIRISIM-EXEC w={shape} ws={ws} threads={threads} sharers={threads} readers={threads} one_alloc=1 ops={ops} trace={:016x} order={trace} probes=sleep_path:{},futex_wait_syscalls:{},futex_wake_syscalls:{},spin_acquired:{},lender_free:{}",
        fnv(trace.as_bytes()),
        SLEEP_PATH.load(Ordering::Relaxed),
        FUTEX_WAITS.load(Ordering::Relaxed),
        FUTEX_WAKES.load(Ordering::Relaxed),
        SPIN_ACQUIRED.load(Ordering::Relaxed),
        LENDER_FREE.load(Ordering::Relaxed),
    );
}
