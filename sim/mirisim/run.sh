#!/bin/bash
# E4 mirisim front end: run.sh C33 [--tier quick|thorough] [--seed N] [--replay FILE] [--audit]
# Stand-alone crate (own [workspace], own Cargo.lock, target dir /verif/target-miri).
# MIRISIM_REPO=<dir> points the path dependency at another checkout (sensitivity runs).
# exit 0 clean / 1 VIOLATION / 2 harness error.
set -u
export CARGO_NET_OFFLINE=true
command -v python3 >/dev/null || { echo "HARNESS-ERROR: python3 missing" >&2; exit 2; }
cargo +nightly miri --version >/dev/null 2>&1 || { echo "HARNESS-ERROR: cargo +nightly miri is not installed" >&2; exit 2; }
exec python3 "$(dirname "$(readlink -f "$0")")/driver.py" "$@"
