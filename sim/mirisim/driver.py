#!/usr/bin/env python3
"""E4 mirisim driver (called by run.sh): C33 under Miri.

Miri is the simulator: one deterministic schedule per -Zmiri-seed, random
pre-emption, weak-memory emulation, data-race / UB / leak detection. This
driver plans (workload shape, workload seed, miri seed range) chunks from
VERIF_SEED, runs them as parallel `cargo +nightly miri run` processes, parses
Miri's output, confirms every failing seed by re-running it alone, writes
replay files and the evidence file.

exit 0 = clean, 1 = VIOLATION printed, 2 = harness error (build failure,
Miri not starting, nondeterminism, unparsable output).
"""
import concurrent.futures as cf
import hashlib
import json
import os
import re
import subprocess
import sys
import time

ROOT = "/verif"
HERE = os.path.dirname(os.path.abspath(__file__))
TARGET = os.path.join(ROOT, "target-miri")
DEFAULT_SEED = 0x5EEDA2A40C0FFEE5
MASK = (1 << 64) - 1
BASE_FLAGS = ["-Zmiri-preemption-rate=0.1"]
MODES = {
    "C33": {"shapes": ["fanout", "convert", "chain", "scoped", "setkeys"], "prop_of": {}, "bin": "mirisim", "features": [],
            "rustflags": None, "target": "main", "evidence": os.path.join(ROOT, "evidence", "C33.json"), "property": "C33"},
    # optional second witness for C43/C44; required by nothing; evidence stays out of /verif/evidence
    "C43-miri": {"shapes": ["mutex", "lender"], "prop_of": {"mutex": "C43", "lender": "C44"}, "bin": "mirisim-afc", "features": ["afc"],
                 "rustflags": "--cfg aranya_verif", "target": "afc", "evidence": os.path.join(ROOT, "target-miri", "C43-miri.evidence.json"),
                 "property": "C43"},
}
MODES["C33"]["rule"] = ("VERIF_SEED -> chunk i: workload shape i mod 5 of (fanout, convert, chain, scoped, setkeys), workload seed mix(VERIF_SEED,i)>>11 "
    "(passed in argv), miri seeds start+i*per..start+(i+1)*per with start = splitmix(VERIF_SEED) mod 1e6. One evaluation = one complete "
    "interpretation of the workload by Miri under one -Zmiri-seed (pre-emption rate 0.1, weak-memory emulation, data-race, "
    "use-after-free, double-free and leak detection on). 2-3 threads clone, read (as_str, ==, cmp, const_eq, hash), convert "
    "Identifier<->Text and drop handles of one heap-backed (23..48 byte) value created on another thread, no synchronisation between "
    "workers other than the value's own reference count. distinct = (shape, workload seed, FNV of the global order of worker "
    "operations taken from a Relaxed ticket counter); non-trivial = the execution finished, >= 2 threads each held and dropped a handle whose "
    "bytes live at the address of the one shared heap allocation (checked by address), >= 1 of them read the bytes, and no handle "
    "pointed anywhere else. Executions on which Miri "
    "reported an error are counted in evaluations but not in distinct_nontrivial.")
MODES["C33"]["components"] = {"real": ["aranya_policy_text::{Text, Identifier} and repr::arc::ArcStr (the code under test, unmodified, no hooks)", "std::thread, allocator as modelled by Miri"],
                              "stub": ["scheduler, memory model and allocator are Miri's (the simulator)"]}
MODES["C43-miri"]["rule"] = ("OPTIONAL second witness, same chunk plan as C33 with shapes (mutex, lender). mutex: 2-3 threads x 1-3 lock/unlock rounds of the real "
    "futex mutex (verif::SharedMutex -> mutex.rs sys_lock/sys_unlock) over two plain counters, real futex syscall as emulated by Miri; lender: "
    "memory::lender Lender/Loan with a borrower thread, lender dropped on its own or a third thread, re-lend attempts, drop-counting payload. "
    "distinct = (shape, workload seed, FNV of lock/loan event order); non-trivial: mutex = the spin-acquire or the futex sleep path was really "
    "taken in that execution (hook probes, counting only), lender = >= 2 threads used the one loaned allocation.")
MODES["C43-miri"]["components"] = {"real": ["aranya_fast_channels mutex.rs (futex path, real FUTEX_WAIT/FUTEX_WAKE via Miri's syscall emulation)", "aranya_fast_channels memory/lender.rs (BiArc, Lender, Loan)"],
                                   "stub": ["scheduler, memory model and allocator are Miri's", "hook table installed with counting-only functions (every hook returns 'not handled')"]}
MODE = MODES["C33"]
SHAPES = MODE["shapes"]
PROPERTY = "C33"


def set_mode(mid):
    global MODE, SHAPES, PROPERTY
    MODE = MODES[mid]
    SHAPES = MODE["shapes"]
    PROPERTY = MODE["property"]


def prop_of(shape):
    return MODE["prop_of"].get(shape, PROPERTY)


def harness_error(msg):
    print(f"HARNESS-ERROR: {msg}", file=sys.stderr)
    sys.exit(2)


def splitmix(x):
    x = (x + 0x9E3779B97F4A7C15) & MASK
    z = x
    z = ((z ^ (z >> 30)) * 0xBF58476D1CE4E5B9) & MASK
    z = ((z ^ (z >> 27)) * 0x94D049BB133111EB) & MASK
    return x, z ^ (z >> 31)


def rotl(x, r):
    return ((x << r) | (x >> (64 - r))) & MASK


def mix(seed, i):
    """Same function as vcommon::mix."""
    s = seed ^ ((i * 0xD6E8FEB86659FD93) & MASK)
    s, a = splitmix(s)
    s, b = splitmix(s)
    return a ^ rotl(b, 17)


def parse_u64(s):
    s = s.strip()
    try:
        if s.lower().startswith("0x"):
            return int(s, 16) & MASK
        return int(s) & MASK
    except ValueError:
        return None


def parse_args(argv):
    if not argv:
        harness_error("usage: run.sh C33 [--tier quick|thorough] [--seed N] [--replay FILE] [--evidence FILE] [--audit] [--jobs N]")
    a = {
        "id": argv[0],
        "tier": os.environ.get("VERIF_TIER", "quick"),
        "seed": parse_u64(os.environ.get("VERIF_SEED", "")) if os.environ.get("VERIF_SEED") else None,
        "replay": None,
        "evidence": None,
        "audit": False,
        "jobs": os.cpu_count() or 4,
        "verbose": False,
    }
    if a["tier"] not in ("quick", "thorough"):
        a["tier"] = "quick"
    i = 1
    while i < len(argv):
        k = argv[i]
        if k in ("--audit", "--verbose", "--no-minimise", "--fault-free"):
            a[k[2:].replace("-", "_")] = True
            i += 1
            continue
        if not k.startswith("--") or i + 1 >= len(argv):
            harness_error(f"unexpected argument {k!r}")
        v = argv[i + 1]
        i += 2
        if k == "--tier":
            if v not in ("quick", "thorough"):
                harness_error("tier must be quick|thorough")
            a["tier"] = v
        elif k == "--seed":
            a["seed"] = parse_u64(v)
            if a["seed"] is None:
                harness_error("bad --seed")
        elif k == "--replay":
            a["replay"] = v
        elif k == "--evidence":
            a["evidence"] = v
        elif k == "--jobs":
            a["jobs"] = max(1, int(v))
        elif k == "--property":
            if v != a["id"]:
                harness_error("--property disagrees with the id")
        else:
            harness_error(f"unknown option {k}")
    if a["seed"] is None:
        a["seed"] = DEFAULT_SEED
    return a


# ---------------------------------------------------------------- crate / manifest


def manifest_dir(repo):
    """The committed crate points at /repo. For another repository root
    (sensitivity runs: MIRISIM_REPO=/tmp/text-mut) a scratch manifest is
    generated from Cargo.toml.in next to a symlink to the same sources."""
    tmpl = open(os.path.join(HERE, "Cargo.toml.in")).read()
    text = tmpl.replace("@REPO@", repo)
    if repo == "/repo":
        path = os.path.join(HERE, "Cargo.toml")
        if not os.path.exists(path) or open(path).read() != text:
            open(path, "w").write(text)
        return HERE, os.path.join(TARGET, MODE["target"])
    tag = hashlib.sha1(repo.encode()).hexdigest()[:10]
    d = os.path.join(TARGET, f"alt-{tag}")
    os.makedirs(d, exist_ok=True)
    open(os.path.join(d, "Cargo.toml"), "w").write(text)
    lock = os.path.join(repo, "Cargo.lock")
    if not os.path.exists(lock):
        lock = os.path.join(HERE, "Cargo.lock")
    open(os.path.join(d, "Cargo.lock"), "w").write(open(lock).read())
    src = os.path.join(d, "src")
    if not os.path.islink(src):
        os.symlink(os.path.join(HERE, "src"), src)
    return d, os.path.join(d, "target-" + MODE["target"])


def miri_cmd(mdir, prog_args):
    feat = ["--features", ",".join(MODE["features"])] if MODE["features"] else []
    return (["cargo", "+nightly", "miri", "run", "--offline", "-q", "--manifest-path", os.path.join(mdir, "Cargo.toml"), "--bin", MODE["bin"]]
            + feat + ["--"] + prog_args)


def run_miri(mdir, tdir, flags, prog_args, timeout):
    env = dict(os.environ)
    # Values reach the interpreted program through argv only; never through
    # the shell environment (cargo-miri replays build-time env).
    for k in ("VERIF_SEED", "VERIF_TIER", "RUSTFLAGS"):
        env.pop(k, None)
    env["CARGO_TARGET_DIR"] = tdir
    if MODE["rustflags"]:
        env["RUSTFLAGS"] = MODE["rustflags"]
    env["MIRIFLAGS"] = " ".join(flags)
    env["CARGO_NET_OFFLINE"] = "true"
    t0 = time.time()
    try:
        p = subprocess.run(miri_cmd(mdir, prog_args), env=env, cwd=mdir, capture_output=True, text=True, timeout=timeout)
        return {"rc": p.returncode, "out": p.stdout, "err": p.stderr, "wall": time.time() - t0}
    except subprocess.TimeoutExpired as e:
        return {"rc": -9, "out": (e.stdout or b"").decode() if isinstance(e.stdout, bytes) else (e.stdout or ""),
                "err": "TIMEOUT", "wall": time.time() - t0}


EXEC_RE = re.compile(r"^MIRISIM-EXEC w=(\S+) ws=(\d+) threads=(\d+) sharers=(\d+) readers=(\d+) one_alloc=(\d) ops=(\d+) trace=([0-9a-f]+) order=(\S*)(?: probes=(\S+))?$")


def parse_exec(out):
    res = []
    for line in out.splitlines():
        m = EXEC_RE.match(line.strip())
        if m:
            res.append({"w": m[1], "ws": int(m[2]), "threads": int(m[3]), "sharers": int(m[4]), "readers": int(m[5]),
                        "one_alloc": int(m[6]), "ops": int(m[7]), "trace": m[8], "order": m[9],
                        "probes": {k: int(v) for k, v in (kv.split(":") for kv in m[10].split(","))} if m[10] else {}})
    return res


def classify(err, prop=None):
    prop = prop or PROPERTY
    """Map a single-seed Miri report to (class, sig, first error line)."""
    first = ""
    for line in err.splitlines():
        if line.startswith("error:") and "aborting due to" not in line:
            first = line.strip()
            break
    low = first.lower()
    if "data race" in low:
        kind = "data-race"
    elif "memory leaked" in low or "leaked" in low:
        kind = "leak"
    elif "dangling" in low or "has been freed" in low or "use-after-free" in low or "after being freed" in low:
        kind = "use-after-free"
    elif "deallocat" in low:
        kind = "bad-free"
    elif "undefined behavior" in low:
        kind = "undefined-behavior"
    elif "panicked" in err:
        kind = "panic"
        for line in err.splitlines():
            if "panicked at" in line:
                first = line.strip()
                break
    elif "deadlock" in low:
        kind = "deadlock"
    else:
        kind = "other"
    # first frame inside the crate under test: a stable call-site name
    site = "unknown-site"
    m = re.search(r"^\s*\d+: (<?aranya_(?:policy_text|fast_channels)::[^\n]*)$", err, re.M)
    if m:
        s = m[1].strip()
        s = re.sub(r" - shim.*$", "", s)
        s = re.sub(r"\s+", "_", s)
        site = s
    elif kind == "leak":
        m = re.search(r"aranya_(?:policy_text|fast_channels)::[A-Za-z0-9_:<>]+", err)
        if m:
            site = re.sub(r"\s+", "", m[0])
    # data race: the two access kinds are part of the signature
    extra = ""
    m = re.search(r"Data race detected between \(1\) (.*?) on thread .*? and \(2\) (.*?) on thread", first)
    if m:
        a = re.sub(r" of type `.*?`", "", m[1]).replace(" ", "-")
        b = re.sub(r" of type `.*?`", "", m[2]).replace(" ", "-")
        extra = f":{a}/{b}"
    first = re.sub(r"alloc\d+", "allocN", first)
    return f"{prop}.{kind}", f"{kind}:{site}{extra}", first


def load_known():
    out = []
    try:
        for line in open(os.path.join(ROOT, "known-findings.txt")):
            line = line.strip()
            if not line.startswith("finding:"):
                continue
            head, _, desc = line[len("finding:"):].partition("::")
            prop = sig = ""
            for tok in head.split():
                if tok.startswith("property="):
                    prop = tok[9:]
                elif tok.startswith("sig="):
                    sig = tok[4:]
            if prop and sig:
                out.append((prop, sig, desc.strip()))
    except FileNotFoundError:
        pass
    return out


def report(violations):
    """violations: list of dict(class, sig, detail, seed, replay). Returns exit code."""
    known = load_known()
    unknown = 0
    printed = set()
    for v in violations:
        vp = v.get("property", PROPERTY)
        k = next((k for k in known if k[0] == vp and k[1] == v["sig"]), None)
        if k:
            line = f"KNOWN-FINDING: property={k[0]} sig={k[1]} {k[2]}"
            if line not in printed:
                print(line)
                printed.add(line)
        else:
            unknown += 1
            print(f"VIOLATION property={vp} replay={v['replay']}")
            print(f"  class={v['class']} sig={v['sig']} seed={v['seed']} :: {v['detail']}")
    return 1 if unknown else 0


def write_replay(seed, repo, shape, ws, miri_seed, flags, cls, sig, detail, tier):
    d = os.path.join(ROOT, "replays")
    os.makedirs(d, exist_ok=True)
    path = os.path.join(d, f"{prop_of(shape)}{'-miri' if MODE['prop_of'] else ''}-{seed:016x}-{shape}-{miri_seed}.json")
    json.dump({
        "engine": "mirisim", "mode": MODE["bin"], "property": prop_of(shape), "seed": seed,
        "config": {"repo": repo, "tier": tier, "toolchain": "nightly (cargo miri)"},
        "workload": {"shape": shape, "workload_seed": ws},
        "miri_seed": miri_seed,
        "miriflags": flags,
        "violation": {"class": cls, "sig": sig, "detail": detail},
    }, open(path, "w"), indent=1)
    return path


def single_seed(mdir, tdir, shape, ws, miri_seed, flags=None):
    flags = flags if flags is not None else BASE_FLAGS + extra_flags() + [f"-Zmiri-seed={miri_seed}"]
    r = run_miri(mdir, tdir, flags, [shape, str(ws)], 600)
    return r, flags


def extra_flags():
    return [f for f in os.environ.get("MIRISIM_EXTRA_FLAGS", "").split() if f]


def build_failed(r):
    e = r["err"]
    return ("could not compile" in e or "error[E" in e or "error: failed to" in e or "error: no matching package" in e
            or "error: package" in e or "is not installed" in e or "error: no bin target" in e)


def started(r):
    """Did Miri get as far as interpreting the program? (The build is checked by the
    probe run first, so after that a non-zero exit with an `error:` report is Miri's.)"""
    if build_failed(r):
        return False
    return ("MIRISIM-" in r["out"] or "Trying seed" in r["err"] or r["rc"] == 0
            or re.search(r"^error: ", r["err"], re.M) is not None or "panicked at" in r["err"])


def replay_mode(args, repo_default):
    rf = json.load(open(args["replay"]))
    if rf.get("engine") != "mirisim" or rf.get("mode", "mirisim") != MODE["bin"]:
        harness_error("not a mirisim replay file of this mode")
    repo = os.environ.get("MIRISIM_REPO") or repo_default
    mdir, tdir = manifest_dir(repo)
    w = rf["workload"]
    r, flags = single_seed(mdir, tdir, w["shape"], w["workload_seed"], rf["miri_seed"], rf["miriflags"])
    if r["rc"] == 0 and parse_exec(r["out"]):
        print(f"replay {args['replay']} (repository {repo}): miri seed {rf['miri_seed']} of workload {w['shape']}/{w['workload_seed']} runs clean; the recorded violation no longer reproduces")
        sys.exit(0)
    if not started(r):
        sys.stderr.write(r["err"][-4000:])
        harness_error("Miri did not start (build failure?)")
    cls, sig, first = classify(r["err"], rf.get("property", PROPERTY))
    if args["verbose"]:
        sys.stderr.write(r["err"])
    sys.exit(report([{"class": cls, "sig": sig, "detail": first, "seed": rf["seed"], "replay": args["replay"], "property": rf.get("property", PROPERTY)}]))


def main():
    args = parse_args(sys.argv[1:])
    if args["id"] not in MODES:
        harness_error(f"mirisim checks {sorted(MODES)} only, not {args['id']}")
    set_mode(args["id"])
    t_start = time.time()
    os.makedirs(TARGET, exist_ok=True)
    repo = os.environ.get("MIRISIM_REPO") or "/repo"
    if args["replay"]:
        replay_mode(args, repo)
    mdir, tdir = manifest_dir(repo)
    seed, tier = args["seed"], args["tier"]

    # ---- plan
    total, per = (64, 4) if tier == "quick" else (1024, 8)
    nchunks = total // per
    _, start = splitmix(seed)
    start %= 1_000_000
    chunks = []
    for i in range(nchunks):
        chunks.append({"i": i, "shape": SHAPES[i % len(SHAPES)], "ws": mix(seed, i) >> 11,
                       "lo": start + i * per, "hi": start + (i + 1) * per, "audit": False})
    # determinism audit: some chunks are executed a second time in another process
    n_audit = nchunks if args["audit"] else (2 if tier == "quick" else 8)
    audit_jobs = [dict(c, audit=True) for c in chunks[:n_audit]]

    # ---- build + probe (sequential; a failure here is a harness error)
    r = run_miri(mdir, tdir, BASE_FLAGS + extra_flags(), ["probe"], 1800)
    if r["rc"] != 0 or "MIRISIM-PROBE ok" not in r["out"]:
        sys.stderr.write(r["err"][-6000:])
        harness_error("build failed or Miri did not start (probe run)")
    build_wall = r["wall"]

    def run_chunk(c):
        flags = BASE_FLAGS + extra_flags() + [f"-Zmiri-many-seeds={c['lo']}..{c['hi']}", "-Zmiri-many-seeds-keep-going"]
        r = run_miri(mdir, tdir, flags, [c["shape"], str(c["ws"])], 3600)
        return c, r, flags

    results = []
    with cf.ThreadPoolExecutor(max_workers=max(1, min(args["jobs"], 16))) as ex:
        for res in ex.map(run_chunk, chunks + audit_jobs):
            results.append(res)

    # ---- parse
    execs = []          # successful executions (main batch only)
    failing = []        # (chunk, miri_seed)
    audit_map = {}
    main_map = {}
    per_chunk = []
    executed = 0
    for c, r, flags in results:
        ex = parse_exec(r["out"])
        fails = sorted({int(m) for m in re.findall(r"^FAILING SEED: (\d+)", r["err"], re.M)})
        tried = sorted({int(m) for m in re.findall(r"^Trying seed: (\d+)", r["err"], re.M)})
        n = c["hi"] - c["lo"]
        if r["rc"] == -9:
            harness_error(f"chunk {c['i']} timed out")
        if not started(r):
            sys.stderr.write(r["err"][-4000:])
            harness_error(f"chunk {c['i']}: Miri did not start (exit {r['rc']})")
        if r["rc"] == 0 and (fails or len(ex) != n):
            harness_error(f"chunk {c['i']}: exit 0 but {len(ex)} executions reported for {n} seeds, failing={fails}")
        if r["rc"] != 0 and not fails:
            sys.stderr.write(r["err"][-4000:])
            harness_error(f"chunk {c['i']}: Miri exited {r['rc']} without naming a failing seed")
        if len(ex) + len(fails) < n and tried and len(tried) < n:
            harness_error(f"chunk {c['i']}: only {len(tried)} of {n} seeds were tried")
        key = sorted((e["trace"], e["order"]) for e in ex)
        if c["audit"]:
            audit_map[c["i"]] = (key, fails)
            continue
        main_map[c["i"]] = (key, fails)
        executed += len(set(tried)) if tried else n
        # An execution line cannot be attributed to a miri seed. If some seeds of the
        # chunk failed *after* printing their line (leaks are found at exit), the
        # chunk's lines are not counted as clean executions (conservative).
        if len(ex) + len(fails) <= n:
            execs.extend(ex)
        failing.extend((c, s, flags) for s in fails)
        per_chunk.append({"chunk": c["i"], "shape": c["shape"], "workload_seed": c["ws"], "miri_seeds": [c["lo"], c["hi"]],
                          "clean": len(ex), "failing": len(fails), "wall_s": round(r["wall"], 1)})

    for i, v in audit_map.items():
        if main_map.get(i) != v:
            harness_error(f"NONDETERMINISM: chunk {i} gave different traces / failing seeds in two processes")

    # ---- violations: confirm each chunk's lowest failing seed alone, classify
    violations = []
    confirmed = 0
    seen_sigs = {}
    by_chunk = {}
    for c, s, _ in failing:
        by_chunk.setdefault(c["i"], (c, []))[1].append(s)
    for i in sorted(by_chunk):
        c, seeds = by_chunk[i]
        if len(seen_sigs) >= 3 and len(by_chunk) > 6:
            # a broken build fails almost everywhere; confirm a bounded number
            if confirmed >= 6:
                break
        s = min(seeds)
        r, flags = single_seed(mdir, tdir, c["shape"], c["ws"], s)
        if r["rc"] == 0:
            harness_error(f"NONDETERMINISM: miri seed {s} failed inside many-seeds run of chunk {i} but runs clean alone")
        if not started(r):
            sys.stderr.write(r["err"][-4000:])
            harness_error("Miri did not start while confirming a failing seed")
        confirmed += 1
        cls, sig, first = classify(r["err"], prop_of(c["shape"]))
        if sig in seen_sigs:
            seen_sigs[sig]["seeds"] += len(seeds)
            continue
        path = write_replay(seed, repo, c["shape"], c["ws"], s, flags, cls, sig, first, tier)
        v = {"class": cls, "sig": sig, "detail": f"{first} [workload {c['shape']}/{c['ws']}, miri seed {s}; {len(seeds)} of {c['hi'] - c['lo']} seeds of this chunk fail]",
             "seed": seed, "replay": path, "seeds": len(seeds), "property": prop_of(c["shape"])}
        seen_sigs[sig] = v
        violations.append(v)

    # ---- evidence (measured counts only)
    evaluations = executed
    def is_nontrivial(e):
        if e["w"] == "mutex":  # some contention was really observed (spin or futex sleep path)
            return e["probes"].get("spin_acquired", 0) + e["probes"].get("sleep_path", 0) >= 1
        return e["threads"] >= 2 and e["sharers"] >= 2 and e["readers"] >= 1 and e["one_alloc"] == 1
    nontrivial = {(e["w"], e["ws"], e["trace"]) for e in execs if is_nontrivial(e)}
    probe_sums = {}
    for e in execs:
        for k, v in e["probes"].items():
            probe_sums[k] = probe_sums.get(k, 0) + v
    schedules = {(e["w"], e["ws"], e["trace"]) for e in execs}
    samples = []
    seen_shapes = set()
    for e in execs:
        if e["w"] not in seen_shapes and len(samples) < 3:
            seen_shapes.add(e["w"])
            samples.append(e)
    log_hash = hashlib.sha256(json.dumps(sorted((k, v) for k, v in main_map.items()), sort_keys=True).encode()).hexdigest()[:16]
    ev = {
        "property_id": PROPERTY,
        "tier": tier,
        "seed": seed & 0x7FFFFFFFFFFFFFFF,
        "seed_hex": hex(seed),
        "level": "exploration",
        "coverage": {
            "evaluations": evaluations,
            "distinct_nontrivial": len(nontrivial),
            "rule": MODE["rule"],
            "samples": samples,
            "runs_per_hour": round(evaluations / max(time.time() - t_start, 1e-6) * 3600),
            "distinct_schedules": {"count": len(schedules), "measure": "FNV-1a of thread/op order by Relaxed global ticket, per (shape, workload seed)"},
            "faults_fired": {"preemptions": "not measurable: Miri does not report how many pre-emptions it injected (rate 0.1 per basic block, random per seed)",
                             "miri_seeds_executed": evaluations},
            "probes": {"executions_by_shape": {s: sum(1 for e in execs if e["w"] == s) for s in SHAPES},
                       "three_thread_executions": sum(1 for e in execs if e["threads"] == 3),
                       "executions_with_2plus_reader_threads": sum(1 for e in execs if e["readers"] >= 2),
                       "worker_ops_executed": sum(e["ops"] for e in execs), **probe_sums},
            "sim_steps": sum(e["ops"] for e in execs),
            "chunks": per_chunk,
            "miriflags": BASE_FLAGS + extra_flags() + ["-Zmiri-many-seeds=<lo>..<hi>", "-Zmiri-many-seeds-keep-going"],
            "components": dict(MODE["components"], repo=repo),
            "determinism_audit": {"chunks_run_twice_in_separate_processes": len(audit_map), "identical": True, "log_hash": log_hash},
            "failing_seeds": len(failing),
            "violation_signatures": [{"class": v["class"], "sig": v["sig"], "replay": v["replay"], "seeds": v["seeds"]} for v in violations],
            "anomalies": [],
            "build_and_probe_wall_s": round(build_wall, 1),
        },
        "assumptions": [
            "Miri's model of the Rust/C++11 memory model and its scheduler are trusted; it explores one schedule per seed, sampled, not exhaustive",
            "only the workload shapes listed are exercised (<= 3 threads, <= 6 drawn operations per thread); rkyv/serde paths of the text types and the shared-memory tables of fast channels (real shm_open/mmap, which Miri cannot cross) are not driven",
            "x86_64-unknown-linux-gnu host target as interpreted by Miri",
        ],
        "wall_s": round(time.time() - t_start, 3),
        "violations": len(violations),
    }
    evp = args["evidence"] or MODE["evidence"]
    os.makedirs(os.path.dirname(evp), exist_ok=True)
    json.dump(ev, open(evp, "w"), indent=1)

    print(f"mirisim {args['id']} tier={tier} seed={seed:#x} repo={repo}: {evaluations} miri seeds executed in {nchunks} workloads, "
          f"{len(nontrivial)} distinct non-trivial executions, {len(failing)} failing seeds, determinism audit ok "
          f"({len(audit_map)} chunks twice), log hash {log_hash}, wall {time.time() - t_start:.1f}s")
    sys.exit(report(violations))


if __name__ == "__main__":
    main()
