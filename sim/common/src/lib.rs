//! Shared plumbing for every engine: seeded PRNG, CLI, evidence files,
//! known-findings, violation reporting.
//!
//! Rules (DESIGN.md 3.1, 3.10): one integer decides everything; logging never
//! draws from a PRNG and never reads a clock; harness errors are exit 2.

use std::{
    collections::BTreeMap,
    fmt::Write as _,
    path::{Path, PathBuf},
    time::Instant,
};

use serde_json::{Value, json};

pub const DEFAULT_SEED: u64 = 0x5EED_A2A4_0C0F_FEE5;
pub const VERIF_ROOT: &str = "/verif";

// ---------------------------------------------------------------- PRNG

#[inline]
pub fn splitmix(x: &mut u64) -> u64 {
    *x = x.wrapping_add(0x9E37_79B9_7F4A_7C15);
    let mut z = *x;
    z = (z ^ (z >> 30)).wrapping_mul(0xBF58_476D_1CE4_E5B9);
    z = (z ^ (z >> 27)).wrapping_mul(0x94D0_49BB_1331_11EB);
    z ^ (z >> 31)
}

/// Derive the seed of run `i` from the batch seed.
pub fn mix(seed: u64, i: u64) -> u64 {
    let mut s = seed ^ i.wrapping_mul(0xD6E8_FEB8_6659_FD93);
    let a = splitmix(&mut s);
    let b = splitmix(&mut s);
    a ^ b.rotate_left(17)
}

/// FNV-1a, used for stream names and for state/shape hashing.
pub fn fnv(bytes: &[u8]) -> u64 {
    let mut h: u64 = 0xcbf2_9ce4_8422_2325;
    for b in bytes {
        h ^= u64::from(*b);
        h = h.wrapping_mul(0x0000_0100_0000_01B3);
    }
    h
}

/// xoshiro256** seeded through splitmix64.
#[derive(Clone, Debug)]
pub struct Rng {
    s: [u64; 4],
}

impl Rng {
    pub fn new(seed: u64) -> Self {
        let mut x = seed;
        let s = [
            splitmix(&mut x),
            splitmix(&mut x),
            splitmix(&mut x),
            splitmix(&mut x),
        ];
        Self { s }
    }

    /// Independent stream named `name` (adding draws to one stream never
    /// shifts another).
    pub fn derive(seed: u64, name: &str) -> Self {
        Self::new(seed ^ fnv(name.as_bytes()).rotate_left(29))
    }

    #[inline]
    pub fn next_u64(&mut self) -> u64 {
        let r = self.s[1].wrapping_mul(5).rotate_left(7).wrapping_mul(9);
        let t = self.s[1] << 17;
        self.s[2] ^= self.s[0];
        self.s[3] ^= self.s[1];
        self.s[1] ^= self.s[2];
        self.s[0] ^= self.s[3];
        self.s[2] ^= t;
        self.s[3] = self.s[3].rotate_left(45);
        r
    }

    /// Uniform in `0..n` (n > 0).
    #[inline]
    pub fn below(&mut self, n: u64) -> u64 {
        debug_assert!(n > 0);
        // Multiply-shift; bias is irrelevant at these sizes.
        ((u128::from(self.next_u64()) * u128::from(n)) >> 64) as u64
    }

    #[inline]
    pub fn usize_below(&mut self, n: usize) -> usize {
        self.below(n as u64) as usize
    }

    /// Uniform in `lo..=hi`.
    #[inline]
    pub fn range(&mut self, lo: u64, hi: u64) -> u64 {
        lo + self.below(hi - lo + 1)
    }

    /// True with probability `num/den`.
    #[inline]
    pub fn chance(&mut self, num: u64, den: u64) -> bool {
        self.below(den) < num
    }

    pub fn pick<'a, T>(&mut self, xs: &'a [T]) -> &'a T {
        &xs[self.usize_below(xs.len())]
    }

    /// Index drawn proportionally to `weights`.
    pub fn weighted(&mut self, weights: &[u32]) -> usize {
        let total: u64 = weights.iter().map(|w| u64::from(*w)).sum();
        debug_assert!(total > 0);
        let mut x = self.below(total);
        for (i, w) in weights.iter().enumerate() {
            let w = u64::from(*w);
            if x < w {
                return i;
            }
            x -= w;
        }
        weights.len() - 1
    }

    pub fn fill(&mut self, buf: &mut [u8]) {
        for chunk in buf.chunks_mut(8) {
            let v = self.next_u64().to_le_bytes();
            chunk.copy_from_slice(&v[..chunk.len()]);
        }
    }

    pub fn shuffle<T>(&mut self, xs: &mut [T]) {
        for i in (1..xs.len()).rev() {
            let j = self.usize_below(i + 1);
            xs.swap(i, j);
        }
    }
}

// ---------------------------------------------------------------- CLI

#[derive(Clone, Copy, Debug, PartialEq, Eq)]
pub enum Tier {
    Quick,
    Thorough,
}

impl Tier {
    pub fn as_str(self) -> &'static str {
        match self {
            Tier::Quick => "quick",
            Tier::Thorough => "thorough",
        }
    }
}

#[derive(Clone, Debug)]
pub struct Cli {
    pub property: String,
    pub tier: Tier,
    pub seed: u64,
    pub replay: Option<PathBuf>,
    pub evidence: Option<PathBuf>,
    pub jobs: usize,
    /// Free-form `--key value` extras an engine may understand.
    pub extra: BTreeMap<String, String>,
    /// Bare flags (`--audit`).
    pub flags: Vec<String>,
}

/// Parse `--property Cxx --tier quick|thorough --seed N --replay F --evidence F --jobs N`.
/// `VERIF_SEED` / `VERIF_TIER` are honoured when the flags are absent.
pub fn parse_cli() -> Cli {
    let mut args = std::env::args().skip(1);
    let mut cli = Cli {
        property: String::new(),
        tier: match std::env::var("VERIF_TIER").as_deref() {
            Ok("thorough") => Tier::Thorough,
            _ => Tier::Quick,
        },
        seed: std::env::var("VERIF_SEED")
            .ok()
            .and_then(|s| parse_u64(&s))
            .unwrap_or(DEFAULT_SEED),
        replay: None,
        evidence: None,
        jobs: std::thread::available_parallelism().map_or(4, |n| n.get()),
        extra: BTreeMap::new(),
        flags: Vec::new(),
    };
    while let Some(a) = args.next() {
        let Some(key) = a.strip_prefix("--") else {
            harness_error(&format!("unexpected argument {a:?}"));
        };
        match key {
            "audit" | "fault-free" | "no-minimise" | "verbose" => cli.flags.push(key.to_string()),
            _ => {
                let Some(v) = args.next() else {
                    harness_error(&format!("missing value for --{key}"));
                };
                match key {
                    "property" => cli.property = v,
                    "tier" => {
                        cli.tier = match v.as_str() {
                            "quick" => Tier::Quick,
                            "thorough" => Tier::Thorough,
                            _ => harness_error("tier must be quick|thorough"),
                        }
                    }
                    "seed" => {
                        cli.seed = parse_u64(&v).unwrap_or_else(|| harness_error("bad --seed"));
                    }
                    "replay" => cli.replay = Some(PathBuf::from(v)),
                    "evidence" => cli.evidence = Some(PathBuf::from(v)),
                    "jobs" => cli.jobs = v.parse().unwrap_or_else(|_| harness_error("bad --jobs")),
                    _ => {
                        cli.extra.insert(key.to_string(), v);
                    }
                }
            }
        }
    }
    cli
}

pub fn parse_u64(s: &str) -> Option<u64> {
    let s = s.trim();
    if let Some(h) = s.strip_prefix("0x") {
        u64::from_str_radix(h, 16).ok()
    } else {
        // Accept negative integers too (wrap), so any integer VERIF_SEED works.
        s.parse::<u64>()
            .ok()
            .or_else(|| s.parse::<i64>().ok().map(|v| v as u64))
    }
}

impl Cli {
    pub fn has_flag(&self, f: &str) -> bool {
        self.flags.iter().any(|x| x == f)
    }
    pub fn evidence_path(&self) -> PathBuf {
        self.evidence
            .clone()
            .unwrap_or_else(|| Path::new(VERIF_ROOT).join("evidence").join(format!("{}.json", self.property)))
    }
}

/// Harness errors (never violations): exit 2.
pub fn harness_error(msg: &str) -> ! {
    eprintln!("HARNESS-ERROR: {msg}");
    std::process::exit(2);
}

// ---------------------------------------------------------------- known findings

#[derive(Clone, Debug)]
pub struct KnownFinding {
    pub property: String,
    /// Signature: identifies the specific failing input / call site / history class.
    pub sig: String,
    pub text: String,
}

/// `/verif/known-findings.txt`:
///   `finding: property=C45 sig=<signature> :: <what fails>`   -> suppressed, printed as KNOWN-FINDING
///   `fixed: property=C39 <commit> sig=<signature> :: <what failed>` -> suppresses nothing
pub fn load_known_findings() -> Vec<KnownFinding> {
    let path = Path::new(VERIF_ROOT).join("known-findings.txt");
    let Ok(text) = std::fs::read_to_string(path) else {
        return Vec::new();
    };
    let mut out = Vec::new();
    for line in text.lines() {
        let line = line.trim();
        let Some(rest) = line.strip_prefix("finding:") else {
            continue;
        };
        let (head, desc) = rest.split_once("::").unwrap_or((rest, ""));
        let mut property = String::new();
        let mut sig = String::new();
        for tok in head.split_whitespace() {
            if let Some(p) = tok.strip_prefix("property=") {
                property = p.to_string();
            } else if let Some(s) = tok.strip_prefix("sig=") {
                sig = s.to_string();
            }
        }
        if !property.is_empty() && !sig.is_empty() {
            out.push(KnownFinding {
                property,
                sig,
                text: desc.trim().to_string(),
            });
        }
    }
    out
}

// ---------------------------------------------------------------- violations

#[derive(Clone, Debug)]
pub struct Violation {
    pub property: String,
    /// Oracle / violation class, e.g. `C06.accepted-not-committed`.
    pub class: String,
    /// Signature used to match known findings (stable across seeds).
    pub sig: String,
    pub detail: String,
    pub seed: u64,
    pub replay: PathBuf,
}

/// Prints the VIOLATION / KNOWN-FINDING lines and returns the exit code.
pub fn report(property: &str, violations: &[Violation]) -> i32 {
    let known = load_known_findings();
    let mut unknown = 0;
    let mut printed_known: Vec<String> = Vec::new();
    for v in violations {
        if let Some(k) = known
            .iter()
            .find(|k| k.property == v.property && k.sig == v.sig)
        {
            let line = format!(
                "KNOWN-FINDING: property={} sig={} {}",
                k.property, k.sig, k.text
            );
            if !printed_known.contains(&line) {
                println!("{line}");
                printed_known.push(line);
            }
        } else {
            unknown += 1;
            println!(
                "VIOLATION property={} replay={}",
                v.property,
                v.replay.display()
            );
            println!(
                "  class={} sig={} seed={} :: {}",
                v.class, v.sig, v.seed, v.detail
            );
        }
    }
    let _ = property;
    if unknown > 0 { 1 } else { 0 }
}

// ---------------------------------------------------------------- evidence

pub struct Evidence {
    pub property: String,
    pub tier: Tier,
    pub seed: u64,
    pub level: &'static str,
    pub start: Instant,
    pub evaluations: u64,
    pub distinct_nontrivial: u64,
    pub rule: String,
    pub samples: Vec<Value>,
    pub extra: serde_json::Map<String, Value>,
    pub assumptions: Vec<String>,
    pub violations: u64,
}

impl Evidence {
    pub fn new(cli: &Cli, level: &'static str) -> Self {
        Self {
            property: cli.property.clone(),
            tier: cli.tier,
            seed: cli.seed,
            level,
            start: Instant::now(),
            evaluations: 0,
            distinct_nontrivial: 0,
            rule: String::new(),
            samples: Vec::new(),
            extra: serde_json::Map::new(),
            assumptions: Vec::new(),
            violations: 0,
        }
    }

    pub fn set(&mut self, key: &str, v: Value) {
        self.extra.insert(key.to_string(), v);
    }

    pub fn write(&self, path: &Path) {
        let wall = self.start.elapsed().as_secs_f64();
        let mut coverage = serde_json::Map::new();
        coverage.insert("evaluations".into(), json!(self.evaluations));
        coverage.insert("distinct_nontrivial".into(), json!(self.distinct_nontrivial));
        coverage.insert("rule".into(), json!(self.rule));
        coverage.insert("samples".into(), Value::Array(self.samples.clone()));
        if wall > 0.0 {
            coverage.insert(
                "runs_per_hour".into(),
                json!((self.evaluations as f64 / wall * 3600.0).round()),
            );
        }
        for (k, v) in &self.extra {
            coverage.insert(k.clone(), v.clone());
        }
        // `seed` must be a JSON integer; keep it in i64 range for portability.
        let doc = json!({
            "property_id": self.property,
            "tier": self.tier.as_str(),
            "seed": (self.seed & 0x7FFF_FFFF_FFFF_FFFF) as i64,
            "seed_hex": format!("{:#x}", self.seed),
            "level": self.level,
            "coverage": Value::Object(coverage),
            "assumptions": self.assumptions,
            "wall_s": (wall * 1000.0).round() / 1000.0,
            "violations": self.violations,
        });
        if let Some(dir) = path.parent() {
            let _ = std::fs::create_dir_all(dir);
        }
        let text = serde_json::to_string_pretty(&doc).expect("evidence serialises");
        if let Err(e) = std::fs::write(path, text) {
            harness_error(&format!("cannot write evidence {}: {e}", path.display()));
        }
    }
}

/// Tiny helper: hex string of bytes for logs and replay files.
pub fn hex(bytes: &[u8]) -> String {
    let mut s = String::with_capacity(bytes.len() * 2);
    for b in bytes {
        let _ = write!(s, "{b:02x}");
    }
    s
}

pub fn unhex(s: &str) -> Option<Vec<u8>> {
    if s.len() % 2 != 0 {
        return None;
    }
    (0..s.len())
        .step_by(2)
        .map(|i| u8::from_str_radix(&s[i..i + 2], 16).ok())
        .collect()
}

/// Path for a replay file: `/verif/replays/<property>-<seed hex>[-tag].json`.
pub fn replay_path(property: &str, seed: u64, tag: &str) -> PathBuf {
    let dir = Path::new(VERIF_ROOT).join("replays");
    let _ = std::fs::create_dir_all(&dir);
    if tag.is_empty() {
        dir.join(format!("{property}-{seed:016x}.json"))
    } else {
        dir.join(format!("{property}-{seed:016x}-{tag}.json"))
    }
}

/// Run `f(i)` for i in 0..n on `jobs` worker threads; results come back in
/// index order so the outcome never depends on thread timing.
pub fn parallel_map<T: Send, F: Fn(u64) -> T + Sync>(n: u64, jobs: usize, f: F) -> Vec<T> {
    use std::sync::atomic::{AtomicU64, Ordering};
    let next = AtomicU64::new(0);
    let mut buckets: Vec<Vec<(u64, T)>> = Vec::new();
    std::thread::scope(|s| {
        let handles: Vec<_> = (0..jobs.max(1))
            .map(|_| {
                s.spawn(|| {
                    let mut local = Vec::new();
                    loop {
                        let i = next.fetch_add(1, Ordering::Relaxed);
                        if i >= n {
                            break;
                        }
                        // A panic in harness code is a harness error; say where, so it can be fixed.
                        match std::panic::catch_unwind(std::panic::AssertUnwindSafe(|| f(i))) {
                            Ok(v) => local.push((i, v)),
                            Err(p) => {
                                let msg = p.downcast_ref::<String>().cloned().or_else(|| p.downcast_ref::<&str>().map(|s| (*s).to_string())).unwrap_or_default();
                                harness_error(&format!("worker panicked outside a guarded call in item {i}: {msg}"));
                            }
                        }
                    }
                    local
                })
            })
            .collect();
        for h in handles {
            match h.join() {
                Ok(v) => buckets.push(v),
                Err(_) => harness_error("worker thread panicked outside catch_unwind"),
            }
        }
    });
    let mut all: Vec<(u64, T)> = buckets.into_iter().flatten().collect();
    all.sort_by_key(|(i, _)| *i);
    all.into_iter().map(|(_, t)| t).collect()
}
