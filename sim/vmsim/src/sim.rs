//! The simulator: replicas, explicit steps, the oracles of C29 and C07.
//!
//! Multi-replica model (documented choice): every full fact key has one *owner* field whose value
//! is always drawn from the acting replica's own alphabet, so writers on different replicas touch
//! disjoint keys and every mutator reads only the key it writes. The expected committed fact
//! state of a replica is therefore the union, over writers, of the writes of the commands of that
//! writer the replica holds (always a prefix of the writer's chain), whatever order a braid
//! chose. Reporters and `map` read across writers and are compared against that union.

use std::collections::{BTreeMap, BTreeSet};

use aranya_runtime::{
    Address, ClientError, CmdId, Command as _, GraphId, MAX_SYNC_MESSAGE_SIZE, MemSpill, PeerCache,
    Prior, SyncIncoming, SyncRequester, SyncResponder,
};
use serde::{Deserialize, Serialize};

use crate::{
    model::{self, Act, Eff, FailKind, Op, Outcome, Pred, Store, Val},
    policy::{FACTS, MAPS, MAPS_FIRST_VALUE_BOUND, REPORTS},
    replica::{Dump, Guarded, HeadInfo, RecSink, Replica, SimRng, guarded},
};

#[derive(Serialize, Deserialize, Clone, Debug, PartialEq)]
pub struct Cfg {
    pub seed: u64,
    pub family: String,
    pub n_reps: usize,
    pub max_steps: usize,
    /// Generate `map` actions whose fact literal binds a value field.
    pub map_values: bool,
}

#[derive(Serialize, Deserialize, Clone, Debug, PartialEq)]
pub enum Step {
    Act { r: usize, act: Act },
    /// Replica `a` pulls from `b`: one complete sync session, then commit.
    Sync { a: usize, b: usize },
}

#[derive(Clone, Debug, Serialize, Deserialize, PartialEq)]
pub struct Found {
    pub property: String,
    pub class: String,
    pub sig: String,
    pub detail: String,
    pub step: usize,
}

#[derive(Clone, Debug, Default)]
pub struct Stats {
    pub steps: u64,
    pub counters: BTreeMap<String, u64>,
    pub probes: BTreeMap<String, u64>,
    pub anomalies: Vec<String>,
}

impl Stats {
    pub fn bump(&mut self, k: &str) {
        *self.counters.entry(k.to_string()).or_insert(0) += 1;
    }
    pub fn add(&mut self, k: &str, n: u64) {
        *self.counters.entry(k.to_string()).or_insert(0) += n;
    }
}

// ------------------------------------------------------------ alphabets and ownership

pub const OWN_INTS: [&[i64]; 3] = [&[i64::MIN, -256, -1, 0, 1, 255, 256, i64::MAX], &[i64::MIN + 1, -2, 2, 65_535, i64::MAX - 1], &[-3, 3, 1 << 32]];
pub const OWN_STRS: [&[&str]; 3] = [&["", "a", "ab", "b"], &["aa", "ba", "c"], &["abc", "d"]];

/// Does replica `r` own this value of an owner field?
pub fn owns(r: usize, v: &Val) -> bool {
    match v {
        Val::I(i) => r < 3 && OWN_INTS[r].contains(i),
        Val::S(s) => r < 3 && OWN_STRS[r].contains(&s.as_str()),
        _ => false,
    }
}

// ------------------------------------------------------------ simulator

pub struct RepState {
    pub rep: Replica,
    /// Expected committed facts of this replica.
    pub model: Store,
    /// Per writer: how many commands of its chain this replica holds.
    pub known: Vec<usize>,
    pub acts: u64,
}

pub struct Sim {
    pub cfg: Cfg,
    pub gid: Option<GraphId>,
    pub reps: Vec<RepState>,
    /// Per writer: its commands in publish order with their writes.
    pub chains: Vec<Vec<(CmdId, Vec<Op>)>>,
    pub owner_of: BTreeMap<CmdId, (usize, usize)>,
    pub stats: Stats,
    pub found: Vec<Found>,
    pub step_no: usize,
    pub dead: bool,
    pub event_hash: u64,
    pub trace: bool,
    // non-triviality
    pub nt_report: bool,
    pub nt_map: bool,
    pub nt_c07: bool,
}

fn short(id: &CmdId) -> String {
    id.to_string().chars().take(8).collect()
}

impl Sim {
    pub fn new(cfg: Cfg) -> Self {
        let n = cfg.n_reps.clamp(1, 3);
        let mut reps = Vec::new();
        for i in 0..n {
            reps.push(RepState { rep: Replica::new(cfg.seed, i), model: Store::new(), known: vec![0; n], acts: 0 });
        }
        let mut sim = Self {
            cfg,
            gid: None,
            reps,
            chains: vec![Vec::new(); n],
            owner_of: BTreeMap::new(),
            stats: Stats::default(),
            found: Vec::new(),
            step_no: 0,
            dead: false,
            event_hash: 0xcbf2_9ce4_8422_2325,
            trace: std::env::var_os("VMSIM_TRACE").is_some(),
            nt_report: false,
            nt_map: false,
            nt_c07: false,
        };
        sim.setup();
        sim
    }

    /// Replica 0 creates the graph; the others fetch the init command.
    fn setup(&mut self) {
        let nonce = (self.cfg.seed & 0x7fff_ffff) as i64;
        let mut sink = RecSink::default();
        match self.reps[0].rep.new_graph(nonce, &mut sink) {
            Guarded::Done(Ok(gid)) => self.gid = Some(gid),
            Guarded::Done(Err(e)) => vcommon::harness_error(&format!("new_graph failed: {e}")),
            Guarded::Panicked(m) => vcommon::harness_error(&format!("new_graph panicked: {m}")),
        }
        for a in 1..self.reps.len() {
            self.step_sync(a, 0);
            let gid = self.gid.expect("graph");
            if !self.reps[a].rep.has_graph(gid) {
                vcommon::harness_error("setup: replica did not receive the init command");
            }
        }
    }

    /// The committed-state checks after a sync and at the end of a run belong to both
    /// statements ("... together with their facts"); they are labelled with the property the
    /// run was generated for.
    fn run_property(&self) -> &'static str {
        if self.cfg.family == "c07" { "C07" } else { "C29" }
    }

    pub fn note(&mut self, s: &str) {
        if self.trace {
            eprintln!("TRACE step {}: {s}", self.step_no);
        }
        self.event_hash = vcommon::fnv(&[&self.event_hash.to_le_bytes()[..], s.as_bytes()].concat());
    }

    pub fn violation(&mut self, property: &str, class: &str, sig: &str, detail: String) {
        self.note(&format!("VIOLATION {property} {class} {sig}"));
        if self.found.len() < 8 {
            self.found.push(Found { property: property.to_string(), class: class.to_string(), sig: sig.to_string(), detail, step: self.step_no });
        }
    }

    pub fn anomaly(&mut self, what: String) {
        self.note(&format!("ANOMALY {what}"));
        if self.stats.anomalies.len() < 16 {
            self.stats.anomalies.push(format!("step {}: {what}", self.step_no));
        }
        self.stats.bump("anomaly_events");
    }

    pub fn exec(&mut self, step: &Step) {
        if self.dead {
            return;
        }
        self.step_no += 1;
        self.stats.steps += 1;
        match step {
            Step::Act { r, act } => self.step_act(*r, act),
            Step::Sync { a, b } => {
                if *a < self.reps.len() && *b < self.reps.len() && a != b {
                    self.step_sync(*a, *b);
                } else {
                    self.note("skip sync");
                }
            }
        }
    }

    // ------------------------------------------------------------------ observation

    fn heads(&mut self, r: usize) -> Option<Vec<HeadInfo>> {
        let gid = self.gid.expect("graph");
        match self.reps[r].rep.heads(gid) {
            Ok(h) => Some(h),
            Err(e) => {
                self.anomaly(format!("cannot read heads of r{r}: {e}"));
                self.dead = true;
                None
            }
        }
    }

    fn dump(&mut self, r: usize) -> Option<Dump> {
        let gid = self.gid.expect("graph");
        match guarded(|| self.reps[r].rep.dump(gid)) {
            Guarded::Done(Ok(d)) => Some(d),
            Guarded::Done(Err(e)) => {
                self.anomaly(format!("cannot dump facts of r{r}: {e}"));
                self.dead = true;
                None
            }
            Guarded::Panicked(m) => {
                self.violation("C29", "C29.panic", "panic:fact-dump", format!("reading committed facts of r{r} panicked: {m}"));
                self.dead = true;
                None
            }
        }
    }

    /// Committed facts of `r` (decoded, storage order) against the model (key order).
    fn check_facts(&mut self, r: usize, dump: &Dump, property: &str, ctx: &str) -> bool {
        if let Some(u) = dump.undecodable.first() {
            self.violation(property, &format!("{property}.facts-mismatch"), &format!("facts-undecodable:{ctx}"), format!("r{r}: stored row does not decode against its schema: {u}"));
            return false;
        }
        let want: Vec<(u8, Vec<Val>, Vec<Val>)> = self.reps[r].model.iter().map(|((f, k), v)| (*f, k.clone(), v.clone())).collect();
        if dump.rows != want {
            let first = dump.rows.iter().zip(want.iter()).position(|(a, b)| a != b).unwrap_or(dump.rows.len().min(want.len()));
            let same_set = {
                let mut a = dump.rows.clone();
                a.sort();
                a == want
            };
            let sig = if same_set { format!("facts-order:{ctx}") } else { format!("facts:{ctx}") };
            self.violation(
                property,
                &format!("{property}.facts-mismatch"),
                &sig,
                format!("r{r}: committed facts differ from the model at row {first}: storage has {:?}, model has {:?} ({} rows vs {})", dump.rows.get(first), want.get(first), dump.rows.len(), want.len()),
            );
            return false;
        }
        true
    }

    // ------------------------------------------------------------------ actions

    fn step_act(&mut self, r: usize, act: &Act) {
        let gid = self.gid.expect("graph");
        if r >= self.reps.len() || !model::well_formed(act) {
            self.note("skip act (not applicable)");
            return;
        }
        if let Act::Map { shape, .. } = act {
            if !self.cfg.map_values && *shape >= MAPS_FIRST_VALUE_BOUND {
                self.note("skip act (map with bound values not enabled)");
                return;
            }
        }
        // Ownership rule: soundness of the union model rests on it, so enforce it on data too.
        for (f, key) in model::written_keys(act) {
            if !owns(r, &key[FACTS[f as usize].owner]) {
                self.note("skip act (key not owned by the acting replica)");
                return;
            }
        }
        let kind = model::act_kind(act);
        let p = if matches!(act, Act::Multi { .. }) { "C07" } else { "C29" };
        let pred = model::predict(&self.reps[r].model, act);
        let Some(before_heads) = self.heads(r) else { return };
        let Some(before) = self.dump(r) else { return };
        let multi_head = before_heads.len() > 1;
        let (name, args) = model::call(act);
        let mut sink = RecSink::default();
        let res = self.reps[r].rep.action(gid, &name, &args, &mut sink);
        self.reps[r].acts += 1;
        self.stats.bump(&format!("act.{kind}"));
        if multi_head {
            self.stats.bump("multi_head_actions");
        }
        let res: Result<(), ClientError> = match res {
            Guarded::Done(x) => x,
            Guarded::Panicked(m) => {
                self.violation(p, &format!("{p}.panic"), &format!("panic:action:{kind}"), format!("r{r} {name}{args:?} panicked inside the library: {m}"));
                self.dead = true;
                return;
            }
        };
        if let Some(o) = sink.odd.first() {
            self.violation(p, &format!("{p}.effects-mismatch"), "effect-value-type", format!("effect field of unexpected type: {o}"));
        }
        let shape = sink.shape();
        let consumed = sink.consumed();
        self.note(&format!("act r{r} {name}{args:?} -> {} sink {shape} heads {}", if res.is_ok() { "ok".to_string() } else { format!("err({})", res.as_ref().err().map(ToString::to_string).unwrap_or_default()) }, before_heads.len()));

        // ---- outcome
        match (&pred.outcome, &res) {
            (Outcome::Ok, Err(e)) => {
                self.violation(p, &format!("{p}.unexpected-failure"), &format!("unexpected-failure:{kind}"), format!("r{r} {name}{args:?} failed with `{e}` but the model expects success with effects {:?}", pred.effects));
                self.dead = true;
            }
            (Outcome::Fail(fk), Ok(())) => {
                self.violation(p, &format!("{p}.unexpected-success"), &format!("unexpected-success:{kind}:{}", fk.name()), format!("r{r} {name}{args:?} succeeded but the model expects failure ({}) after {} accepted commands", fk.name(), pred.cmds.len()));
                self.dead = true;
            }
            _ => {}
        }
        for q in &pred.queries {
            self.stats.bump(&format!("query.{q}"));
        }

        match res {
            Ok(()) => self.after_success(r, act, p, kind, &pred, &before_heads, &sink, &consumed, multi_head),
            Err(e) => self.after_failure(r, act, p, kind, &pred, &before_heads, &before, &shape, &consumed, multi_head, &e),
        }
    }

    #[allow(clippy::too_many_arguments)]
    fn after_failure(&mut self, r: usize, _act: &Act, p: &str, kind: &str, pred: &Pred, before_heads: &[HeadInfo], before: &Dump, shape: &str, consumed: &[(Eff, CmdId)], multi_head: bool, err: &ClientError) {
        let fk = match &pred.outcome {
            Outcome::Fail(fk) => fk.name(),
            Outcome::NoPublish => "no_publish",
            Outcome::Ok => "unexpected",
        };
        let pos = pred.cmds.len();
        self.stats.bump("actions_failed");
        self.stats.bump(&format!("fail.{fk}.p{pos}"));
        if matches!(pred.outcome, Outcome::Fail(FailKind::Rejected | FailKind::RejectedDirty)) {
            self.stats.bump("rejected_commands");
        }
        if multi_head {
            self.stats.bump("multi_head_actions_failed");
            if pos >= 1 && matches!(pred.outcome, Outcome::Fail(_)) {
                self.stats.bump("multi_head_failed_after_publish");
                self.nt_c07 = true;
            }
        }
        // Sink: nothing committed; consumed effects must have been rolled back.
        if shape.contains('C') {
            self.violation(p, &format!("{p}.effects-committed-on-failure"), &format!("effects-committed-on-failure:{fk}"), format!("r{r}: the action failed (`{err}`) but the sink saw commit: transcript {shape}, {} effects", consumed.len()));
        } else if shape.contains('e') && !shape.ends_with('R') {
            self.violation(p, &format!("{p}.effects-dangling-on-failure"), &format!("effects-dangling-on-failure:{fk}"), format!("r{r}: the action failed (`{err}`) leaving {} consumed effects neither committed nor rolled back: transcript {shape}", consumed.len()));
        } else if !shape.ends_with('R') && !shape.is_empty() {
            // Begin without effects and without rollback: nothing was committed, nothing dangles.
            self.stats.bump("probe.failed_action_begin_without_rollback");
        }
        let Some(after_heads) = self.heads(r) else { return };
        let same_heads = after_heads.len() == before_heads.len() && after_heads.iter().zip(before_heads).all(|(a, b)| a.id == b.id && a.max_cut == b.max_cut);
        if !same_heads {
            self.violation(
                p,
                &format!("{p}.heads-changed-on-failure"),
                &format!("heads-changed-on-failure:{fk}"),
                format!("r{r}: the action failed (`{err}`) but the committed heads changed from {:?} to {:?}", before_heads.iter().map(|h| (short(&h.id), h.max_cut)).collect::<Vec<_>>(), after_heads.iter().map(|h| (short(&h.id), h.max_cut)).collect::<Vec<_>>()),
            );
            self.dead = true;
        }
        let Some(after) = self.dump(r) else { return };
        if after.raw != before.raw {
            self.violation(p, &format!("{p}.facts-changed-on-failure"), &format!("facts-changed-on-failure:{fk}"), format!("r{r}: the action failed (`{err}`) but the committed facts changed ({} rows before, {} after)", before.raw.len(), after.raw.len()));
            self.dead = true;
        }
        let _ = kind;
    }

    #[allow(clippy::too_many_arguments)]
    fn after_success(&mut self, r: usize, act: &Act, p: &str, kind: &str, pred: &Pred, before_heads: &[HeadInfo], sink: &RecSink, consumed: &[(Eff, CmdId)], multi_head: bool) {
        let gid = self.gid.expect("graph");
        self.stats.bump("actions_ok");
        if multi_head {
            self.stats.bump("multi_head_actions_ok");
        }
        let shape = sink.shape();
        let ok_shape = shape.starts_with('B') && shape.ends_with('C') && shape[1..shape.len() - 1].chars().all(|c| c == 'e');
        if !ok_shape {
            self.violation("C07", "C07.sink-transcript", "success-transcript", format!("r{r}: a successful action must produce begin, effects, commit; transcript is {shape}"));
        }
        // ---- effects against the model
        let effects: Vec<Eff> = consumed.iter().map(|(e, _)| e.clone()).collect();
        if pred.outcome == Outcome::Ok && effects != pred.effects {
            match act {
                Act::Report { shape: si, args } => {
                    let (got, want) = (effects.first(), pred.effects.first());
                    let field = match (got, want) {
                        (Some(g), Some(w)) if effects.len() == 1 && g.name == w.name => w.fields.iter().find(|(k, v)| g.fields.get(*k) != Some(v)).map(|(k, _)| k.clone()).or_else(|| g.fields.keys().find(|k| !w.fields.contains_key(*k)).cloned()).unwrap_or_default(),
                        _ => "effect-count".to_string(),
                    };
                    let qk = match field.get(..2) {
                        Some("cu") => "count_up_to",
                        Some("al") => "at_least",
                        Some("am") => "at_most",
                        Some("xe") => "exactly",
                        Some("ex") => "exists",
                        _ => "query",
                    };
                    self.violation(
                        "C29",
                        "C29.report-mismatch",
                        &format!("report:{qk}"),
                        format!("r{r} reporter {} args {args:?} ({} matching rows in the model): field `{field}` is {:?}, model says {:?}; full effect {:?}", REPORTS[*si].literal(&|n| format!("<{n}>")), pred.matching_rows, got.and_then(|g| g.fields.get(&field)), want.and_then(|w| w.fields.get(&field)), got),
                    );
                }
                Act::Map { shape: si, args } => {
                    let s = &MAPS[*si];
                    let sig = if s.any_value_bound() { "map-rows:bound-values" } else { "map-rows:keys-only" };
                    self.violation(
                        "C29",
                        "C29.map-mismatch",
                        sig,
                        format!("r{r} map {} args {args:?}: published rows {:?}, model rows {:?}", s.literal(&|n| format!("<{n}>")), effects.iter().map(row_brief).collect::<Vec<_>>(), pred.effects.iter().map(row_brief).collect::<Vec<_>>()),
                    );
                }
                _ => {
                    self.violation(p, &format!("{p}.effects-mismatch"), &format!("effects:{kind}"), format!("r{r}: committed effects {effects:?}, model expects {:?}", pred.effects));
                }
            }
        }
        if let Act::Report { .. } = act {
            if pred.truncating {
                self.nt_report = true;
                self.stats.bump("report.truncating_cap_with_2plus_rows");
            }
            if pred.matching_rows >= 2 {
                self.stats.bump("report.2plus_rows");
            }
        }
        if let Act::Map { shape: si, .. } = act {
            self.stats.add("map.rows_published", effects.len() as u64);
            if effects.len() >= 2 {
                self.nt_map = true;
                self.stats.bump("map.2plus_rows");
            }
            if MAPS[*si].any_value_bound() {
                self.stats.bump("map.bound_value_shape");
            }
        }

        // ---- C07 structure: one new head on top of every previous head, commands in order.
        let mut ids: Vec<CmdId> = Vec::new();
        for (_, id) in consumed {
            if ids.last() != Some(id) {
                ids.push(*id);
            }
        }
        self.stats.add("commands_published", ids.len() as u64);
        let Some(after_heads) = self.heads(r) else { return };
        let mut structure_ok = true;
        if after_heads.len() != 1 {
            self.violation("C07", "C07.head-count", "head-count-after-success", format!("r{r}: {} heads after a successful action", after_heads.len()));
            structure_ok = false;
        }
        if structure_ok {
            let head = &after_heads[0];
            if before_heads.iter().any(|h| h.id == head.id) || self.owner_of.contains_key(&head.id) {
                self.violation("C07", "C07.head-not-new", "head-not-new", format!("r{r}: the head after a successful action, {}, is not a new command", short(&head.id)));
                structure_ok = false;
            }
        }
        if structure_ok && !ids.is_empty() {
            // Walk parent links down from the head through the published commands.
            let mut loc = after_heads[0].loc;
            let mut base: Option<Address> = None;
            for (i, want) in ids.iter().enumerate().rev() {
                match self.reps[r].rep.command_at(gid, loc) {
                    Ok((id, parent)) => {
                        if id != *want {
                            self.violation("C07", "C07.commands-out-of-order", "published-chain", format!("r{r}: walking down from the new head, position {i} holds {} but the {i}-th published command is {}", short(&id), short(want)));
                            structure_ok = false;
                            break;
                        }
                        match parent {
                            Prior::Single(a) => {
                                if i == 0 {
                                    base = Some(a);
                                } else {
                                    match self.reps[r].rep.locate(gid, a) {
                                        Ok(Some(l)) => loc = l,
                                        other => {
                                            self.violation("C07", "C07.commands-out-of-order", "published-chain", format!("r{r}: parent of published command {i} cannot be located: {other:?}"));
                                            structure_ok = false;
                                            break;
                                        }
                                    }
                                }
                            }
                            other => {
                                self.violation("C07", "C07.commands-out-of-order", "published-chain", format!("r{r}: published command {i} has parent {other:?}"));
                                structure_ok = false;
                                break;
                            }
                        }
                    }
                    Err(e) => {
                        self.violation("C07", "C07.commands-out-of-order", "published-chain", format!("r{r}: cannot read published command {i}: {e}"));
                        structure_ok = false;
                        break;
                    }
                }
            }
            if structure_ok {
                let base = base.expect("first command has a single parent");
                let base_loc = match self.reps[r].rep.locate(gid, base) {
                    Ok(Some(l)) => Some(l),
                    other => {
                        self.violation("C07", "C07.previous-head-not-ancestor", "base-not-found", format!("r{r}: the parent of the first published command cannot be located: {other:?}"));
                        None
                    }
                };
                if let Some(base_loc) = base_loc {
                    for h in before_heads {
                        let ok = h.id == base.id
                            || match self.reps[r].rep.locate(gid, Address { id: h.id, max_cut: aranya_runtime::MaxCut::new(h.max_cut) }) {
                                Ok(Some(hl)) => self.reps[r].rep.is_ancestor(gid, hl, base_loc).unwrap_or(false),
                                _ => false,
                            };
                        if !ok {
                            self.violation("C07", "C07.previous-head-not-ancestor", "previous-head-not-ancestor", format!("r{r}: previous head {} is not an ancestor of the first published command (parent {})", short(&h.id), short(&base.id)));
                        }
                    }
                    if before_heads.len() > 1 {
                        self.stats.bump("merges_by_collapse");
                    }
                }
            }
        }
        if pred.outcome == Outcome::Ok && ids.len() != pred.cmds.len() && !matches!(act, Act::Map { .. }) {
            self.violation(p, &format!("{p}.effects-mismatch"), &format!("command-count:{kind}"), format!("r{r}: effects name {} distinct commands, the action publishes {}", ids.len(), pred.cmds.len()));
        }

        // ---- bookkeeping + facts
        let mut ops_per_cmd: Vec<Vec<Op>> = if ids.len() == pred.cmds.len() { pred.cmds.clone() } else { vec![Vec::new(); ids.len()] };
        if ids.len() != pred.cmds.len() {
            if let Some(last) = ops_per_cmd.last_mut() {
                *last = pred.cmds.iter().flatten().cloned().collect();
            }
        }
        for (id, ops) in ids.iter().zip(ops_per_cmd) {
            for op in &ops {
                model::apply(&mut self.reps[r].model, op);
                self.stats.bump(match op {
                    Op::Put(..) => "fact_writes.put",
                    Op::Del(..) => "fact_writes.delete",
                });
            }
            self.owner_of.insert(*id, (r, self.chains[r].len()));
            self.chains[r].push((*id, ops));
        }
        self.reps[r].known[r] = self.chains[r].len();
        let Some(after) = self.dump(r) else { return };
        if !self.check_facts(r, &after, p, kind) {
            self.dead = true;
        }
    }

    // ------------------------------------------------------------------ sync

    pub fn step_sync(&mut self, a: usize, b: usize) {
        let Some(gid) = self.gid else { return };
        let seed = vcommon::mix(self.cfg.seed, 0x5_0000 + self.step_no as u64 * 8 + a as u64);
        let (ra, rb) = two_mut(&mut self.reps, a, b);
        let mut sink = RecSink::default();
        let mut received: Vec<CmdId> = Vec::new();
        let res = guarded(|| -> Result<bool, String> {
            let mut requester = SyncRequester::new(gid, SimRng::new(seed));
            let mut trx = ra.rep.client.transaction(gid);
            let req_cache = PeerCache::new();
            let mut resp_cache = PeerCache::new();
            let mut responder = SyncResponder::new();
            let mut rounds = 0;
            while requester.ready() && rounds < 8 {
                rounds += 1;
                let mut buf = vec![0u8; MAX_SYNC_MESSAGE_SIZE];
                let (len, _) = requester.poll(&mut buf, ra.rep.client.provider(), &trx.session_heads(&req_cache), &mut ra.rep.buffers.traversal.primary).map_err(|e| format!("requester.poll: {e}"))?;
                match SyncIncoming::decode(&buf[..len]).map_err(|e| format!("decode request: {e}"))? {
                    SyncIncoming::Poll(p) => responder.receive(p).map_err(|e| format!("responder.receive: {e}"))?,
                    _ => return Err("unexpected request type".into()),
                }
                let mut polls = 0;
                while responder.ready() && polls < 4096 {
                    polls += 1;
                    let mut target = vec![0u8; MAX_SYNC_MESSAGE_SIZE];
                    let len = responder.poll(&mut target, rb.rep.client.provider(), &mut resp_cache, &mut rb.rep.buffers.traversal).map_err(|e| format!("responder.poll: {e}"))?;
                    if len == 0 {
                        break;
                    }
                    if let Some(cmds) = requester.receive(&target[..len]).map_err(|e| format!("requester.receive: {e}"))? {
                        for c in &cmds {
                            received.push(c.id());
                        }
                        ra.rep.client.add_commands(&mut trx, &mut sink, &cmds, &mut ra.rep.buffers, MemSpill::new).map_err(|e| format!("add_commands: {e}"))?;
                    }
                }
            }
            ra.rep.client.commit(trx, &mut sink, &mut ra.rep.buffers, MemSpill::new).map_err(|e| format!("commit: {e}"))
        });
        self.stats.bump("syncs");
        match res {
            Guarded::Panicked(m) => {
                // Sync ingest is owned by other properties (dagsim); here it is a tool.
                self.anomaly(format!("sync r{a}<-r{b} panicked: {m}"));
                self.dead = true;
                return;
            }
            Guarded::Done(Err(e)) => {
                self.anomaly(format!("sync r{a}<-r{b} failed: {e}"));
                self.dead = true;
                return;
            }
            Guarded::Done(Ok(_)) => {}
        }
        self.stats.add("sync_commands_received", received.len() as u64);
        self.stats.add("sync_effects", sink.consumed().len() as u64);
        // Which commands of which writer did `a` gain?
        let n = self.reps.len();
        let mut gained: Vec<BTreeSet<usize>> = vec![BTreeSet::new(); n];
        let mut merges = 0u64;
        for id in &received {
            match self.owner_of.get(id) {
                Some((w, i)) => {
                    gained[*w].insert(*i);
                }
                None => merges += 1,
            }
        }
        self.stats.add("merge_or_init_commands_received", merges);
        for w in 0..n {
            let known = self.reps[a].known[w];
            let new: Vec<usize> = gained[w].iter().copied().filter(|i| *i >= known).collect();
            if new.is_empty() {
                continue;
            }
            // Graphs are ancestor closed and a writer's commands form a chain.
            if new.iter().enumerate().any(|(j, i)| *i != known + j) {
                self.anomaly(format!("sync r{a}<-r{b}: commands of writer {w} arrived with a gap: held {known}, gained {new:?}"));
                self.dead = true;
                return;
            }
            for i in &new {
                let ops = self.chains[w][*i].1.clone();
                for op in &ops {
                    model::apply(&mut self.reps[a].model, op);
                }
            }
            self.reps[a].known[w] = known + new.len();
        }
        let heads = self.heads(a).map(|h| h.len()).unwrap_or(0);
        if heads > 1 {
            self.stats.bump("syncs_leaving_multi_head");
        }
        self.note(&format!("sync r{a}<-r{b} received {} heads {heads} known {:?}", received.len(), self.reps[a].known));
        if self.dead {
            return;
        }
        let Some(d) = self.dump(a) else { return };
        self.stats.bump("fact_checks_after_sync");
        let p = self.run_property();
        if !self.check_facts(a, &d, p, "after-sync") {
            self.dead = true;
        }
    }

    /// End of run: every replica's committed facts against its model.
    pub fn final_checks(&mut self) {
        if self.dead {
            return;
        }
        self.step_no += 1;
        for r in 0..self.reps.len() {
            let Some(d) = self.dump(r) else { return };
            self.stats.bump("fact_checks_final");
            self.stats.add("facts_compared", d.rows.len() as u64);
            let p = self.run_property();
            if !self.check_facts(r, &d, p, "final") {
                return;
            }
            let h = vcommon::fnv(format!("{:?}", d.rows).as_bytes());
            self.note(&format!("final r{r} rows {} hash {h:016x}", d.rows.len()));
        }
    }
}

fn row_brief(e: &Eff) -> String {
    let f = |k: &str| e.fields.get(k).map(|v| format!("{v:?}")).unwrap_or_default();
    format!("({},{},{},{},{},{})", f("i1"), f("s1"), f("b1"), f("e1"), f("i2"), f("s2"))
}

fn two_mut<T>(v: &mut [T], a: usize, b: usize) -> (&mut T, &mut T) {
    assert!(a != b);
    if a < b {
        let (x, y) = v.split_at_mut(b);
        (&mut x[a], &mut y[0])
    } else {
        let (x, y) = v.split_at_mut(a);
        (&mut y[0], &mut x[b])
    }
}
