//! The model fact store and the predicted outcome of every action.
//!
//! Facts are a plain `BTreeMap` keyed by (fact, typed key tuple): ints order numerically, strings
//! bytewise, `false < true`, enum values by ordinal. A pattern selects the facts whose leading
//! key fields equal the bound keys, in key order, filtered by the bound value fields.

use std::collections::BTreeMap;

use serde::{Deserialize, Serialize};

use crate::policy::{self, DIRTY_VALUE, FACTS, LIMITS, MAPS, REPORTS, ROW_FIELDS, Shape, Ty};

#[derive(Clone, Debug, PartialEq, Eq, PartialOrd, Ord, Serialize, Deserialize)]
pub enum Val {
    I(i64),
    B(bool),
    S(String),
    /// Ordinal of `enum Color`.
    E(i64),
}

impl Val {
    pub fn ty(&self) -> Ty {
        match self {
            Val::I(_) => Ty::Int,
            Val::B(_) => Ty::Bool,
            Val::S(_) => Ty::Str,
            Val::E(_) => Ty::Enum,
        }
    }
    pub fn default_of(t: Ty) -> Val {
        match t {
            Ty::Int => Val::I(0),
            Ty::Bool => Val::B(false),
            Ty::Str => Val::S(String::new()),
            Ty::Enum => Val::E(0),
        }
    }
}

pub type Key = (u8, Vec<Val>);
pub type Store = BTreeMap<Key, Vec<Val>>;

#[derive(Clone, Debug, PartialEq, Eq, Serialize, Deserialize)]
pub enum Op {
    Put(Key, Vec<Val>),
    Del(Key),
}

pub fn apply(store: &mut Store, op: &Op) {
    match op {
        Op::Put(k, v) => {
            store.insert(k.clone(), v.clone());
        }
        Op::Del(k) => {
            store.remove(k);
        }
    }
}

/// One effect, by name and fields.
#[derive(Clone, Debug, PartialEq, Eq, Serialize, Deserialize)]
pub struct Eff {
    pub name: String,
    pub fields: BTreeMap<String, Val>,
}

impl Eff {
    pub fn new(name: &str) -> Self {
        Self { name: name.to_string(), fields: BTreeMap::new() }
    }
    pub fn with(mut self, k: &str, v: Val) -> Self {
        self.fields.insert(k.to_string(), v);
        self
    }
}

/// The actions of the policy document, with explicit argument values.
#[derive(Clone, Debug, PartialEq, Eq, Serialize, Deserialize)]
pub enum Act {
    Create { f: usize, key: Vec<Val>, val: Vec<Val> },
    Update { f: usize, key: Vec<Val>, val: Vec<Val> },
    UpdateBlind { f: usize, key: Vec<Val>, val: Vec<Val> },
    UpdateExp { f: usize, key: Vec<Val>, val: Vec<Val>, old: Vec<Val> },
    Delete { f: usize, key: Vec<Val> },
    Upsert { f: usize, key: Vec<Val>, val: Vec<Val> },
    /// Reporter `REPORTS[shape]` with the bound keys then bound values.
    Report { shape: usize, args: Vec<Val> },
    /// `map` action `MAPS[shape]`.
    Map { shape: usize, args: Vec<Val> },
    /// `multi` / `multiF`: up to four `Step` commands (key, mode), `af` = action-level failure
    /// position (-1: none).
    Multi { fallible: bool, n: usize, af: i64, v: i64, steps: [(i64, i64); 4] },
}

#[derive(Clone, Copy, Debug, PartialEq, Eq)]
pub enum FailKind {
    /// A command's `check` failed: `PolicyError::Rejected`.
    Rejected,
    /// Rejected by a recall block that wrote facts and emitted an effect first.
    RejectedDirty,
    /// `test_fail()` in a command's policy block.
    CmdPanic,
    /// `test_fail()` in a command's seal block.
    SealPanic,
    /// `test_fail()` in the action body.
    ActionPanic,
    /// `return Err(..)` from a fallible action.
    ActionErr,
}

impl FailKind {
    pub fn name(self) -> &'static str {
        match self {
            FailKind::Rejected => "cmd_rejected",
            FailKind::RejectedDirty => "cmd_rejected_after_recall_writes",
            FailKind::CmdPanic => "cmd_panic",
            FailKind::SealPanic => "seal_panic",
            FailKind::ActionPanic => "action_panic",
            FailKind::ActionErr => "action_returned_err",
        }
    }
}

#[derive(Clone, Debug, PartialEq, Eq)]
pub enum Outcome {
    Ok,
    Fail(FailKind),
    /// The action publishes nothing: the statement does not say whether that is a success;
    /// either way nothing may change.
    NoPublish,
}

/// What the model expects of one action.
#[derive(Clone, Debug)]
pub struct Pred {
    pub outcome: Outcome,
    /// Effects of the commands that are accepted before the action ends (committed on success).
    pub effects: Vec<Eff>,
    /// Writes of each accepted command, in publish order.
    pub cmds: Vec<Vec<Op>>,
    /// Query-kind evaluations performed (coverage).
    pub queries: Vec<&'static str>,
    /// Reporter saw >= 2 matching rows and a cap truncated the count.
    pub truncating: bool,
    pub matching_rows: usize,
}

impl Pred {
    fn ok(effects: Vec<Eff>, cmds: Vec<Vec<Op>>) -> Self {
        Self { outcome: Outcome::Ok, effects, cmds, queries: Vec::new(), truncating: false, matching_rows: 0 }
    }
    fn fail(kind: FailKind) -> Self {
        Self { outcome: Outcome::Fail(kind), effects: Vec::new(), cmds: Vec::new(), queries: Vec::new(), truncating: false, matching_rows: 0 }
    }
}

pub struct Pattern {
    pub fact: u8,
    pub keys: Vec<Val>,
    pub vals: Vec<Option<Val>>,
}

impl Pattern {
    pub fn from_shape(s: &Shape, args: &[Val]) -> Option<Pattern> {
        let d = s.def();
        let want = s.args();
        if args.len() != want.len() || args.iter().zip(&want).any(|(a, (_, t))| a.ty() != *t) {
            return None;
        }
        let keys = args[..s.nb].to_vec();
        let mut vals = Vec::new();
        let mut next = s.nb;
        for i in 0..d.vals.len() {
            if s.value_bound(i) {
                vals.push(Some(args[next].clone()));
                next += 1;
            } else {
                vals.push(None);
            }
        }
        Some(Pattern { fact: s.fact as u8, keys, vals })
    }
}

/// Facts selected by `p`, in key order.
pub fn matching<'a>(store: &'a Store, p: &'a Pattern) -> impl Iterator<Item = (&'a Vec<Val>, &'a Vec<Val>)> + 'a {
    store
        .range((p.fact, Vec::new())..)
        .take_while(move |((f, _), _)| *f == p.fact)
        .filter(move |((_, k), v)| k.starts_with(&p.keys) && p.vals.iter().zip(v.iter()).all(|(want, have)| want.as_ref().is_none_or(|w| w == have)))
        .map(|((_, k), v)| (k, v))
}

fn typed(vals: &[Val], tys: &[(&'static str, Ty)]) -> bool {
    vals.len() == tys.len() && vals.iter().zip(tys).all(|(v, (_, t))| v.ty() == *t)
}

/// Is the action well formed with respect to the policy's signatures? (Replay files are data.)
pub fn well_formed(act: &Act) -> bool {
    match act {
        Act::Create { f, key, val } | Act::Update { f, key, val } | Act::UpdateBlind { f, key, val } | Act::Upsert { f, key, val } => *f < FACTS.len() && typed(key, FACTS[*f].keys) && typed(val, FACTS[*f].vals),
        Act::UpdateExp { f, key, val, old } => *f < FACTS.len() && typed(key, FACTS[*f].keys) && typed(val, FACTS[*f].vals) && typed(old, FACTS[*f].vals),
        Act::Delete { f, key } => *f < FACTS.len() && typed(key, FACTS[*f].keys),
        Act::Report { shape, args } => *shape < REPORTS.len() && Pattern::from_shape(&REPORTS[*shape], args).is_some(),
        Act::Map { shape, args } => *shape < MAPS.len() && Pattern::from_shape(&MAPS[*shape], args).is_some(),
        Act::Multi { n, af, .. } => *n <= 4 && (-1..=4).contains(af),
    }
}

/// The key fields an action writes under (fact, full key), for the ownership rule.
pub fn written_keys(act: &Act) -> Vec<Key> {
    match act {
        Act::Create { f, key, .. } | Act::Update { f, key, .. } | Act::UpdateBlind { f, key, .. } | Act::UpdateExp { f, key, .. } | Act::Delete { f, key } | Act::Upsert { f, key, .. } => vec![(*f as u8, key.clone())],
        Act::Multi { n, steps, .. } => steps[..*n].iter().map(|(k, _)| (0u8, vec![Val::I(*k)])).collect(),
        Act::Report { .. } | Act::Map { .. } => Vec::new(),
    }
}

fn wrote(tag: i64) -> Eff {
    Eff::new("Wrote").with("tag", Val::I(tag))
}

pub fn predict(store: &Store, act: &Act) -> Pred {
    match act {
        Act::Create { f, key, val } => {
            let k = (*f as u8, key.clone());
            if store.contains_key(&k) {
                return Pred::fail(FailKind::Rejected);
            }
            Pred::ok(vec![wrote(policy::wrote_tag(*f, 0, 0))], vec![vec![Op::Put(k, val.clone())]])
        }
        Act::Update { f, key, val } | Act::UpdateBlind { f, key, val } => {
            let kind = if matches!(act, Act::Update { .. }) { 1 } else { 2 };
            let k = (*f as u8, key.clone());
            if !store.contains_key(&k) {
                return Pred::fail(FailKind::Rejected);
            }
            Pred::ok(vec![wrote(policy::wrote_tag(*f, kind, 0))], vec![vec![Op::Put(k, val.clone())]])
        }
        Act::UpdateExp { f, key, val, old } => {
            let k = (*f as u8, key.clone());
            if store.get(&k) != Some(old) {
                return Pred::fail(FailKind::Rejected);
            }
            Pred::ok(vec![wrote(policy::wrote_tag(*f, 3, 0))], vec![vec![Op::Put(k, val.clone())]])
        }
        Act::Delete { f, key } => {
            let k = (*f as u8, key.clone());
            if !store.contains_key(&k) {
                return Pred::fail(FailKind::Rejected);
            }
            Pred::ok(vec![wrote(policy::wrote_tag(*f, 4, 0))], vec![vec![Op::Del(k)]])
        }
        Act::Upsert { f, key, val } => {
            let k = (*f as u8, key.clone());
            let had = store.contains_key(&k);
            Pred::ok(vec![wrote(policy::wrote_tag(*f, 5, i64::from(had)))], vec![vec![Op::Put(k, val.clone())]])
        }
        Act::Report { shape, args } => {
            let s = &REPORTS[*shape];
            let d = s.def();
            let p = Pattern::from_shape(s, args).expect("well formed");
            let rows: Vec<(&Vec<Val>, &Vec<Val>)> = matching(store, &p).collect();
            let n = rows.len() as i64;
            let mut e = Eff::new(&policy::report_effect(s.fact)).with("shape", Val::I(*shape as i64)).with("found", Val::B(n > 0));
            for (j, (name, ty)) in d.keys.iter().chain(d.vals.iter()).enumerate() {
                let v = match rows.first() {
                    Some((k, v)) => {
                        if j < k.len() {
                            k[j].clone()
                        } else {
                            v[j - k.len()].clone()
                        }
                    }
                    None => Val::default_of(*ty),
                };
                e = e.with(&format!("r{name}"), v);
            }
            e = e.with("ex", Val::B(n > 0));
            let mut truncating = false;
            for (li, l) in LIMITS.iter().enumerate() {
                e = e.with(&format!("cu{li}"), Val::I(n.min(*l)));
                e = e.with(&format!("al{li}"), Val::B(n >= *l));
                e = e.with(&format!("am{li}"), Val::B(n <= *l));
                e = e.with(&format!("xe{li}"), Val::B(n == *l));
                if n >= 2 && *l < n {
                    truncating = true;
                }
            }
            let mut pr = Pred::ok(vec![e], vec![Vec::new()]);
            pr.queries = vec!["query", "exists", "count_up_to", "count_up_to", "count_up_to", "count_up_to", "at_least", "at_least", "at_least", "at_least", "at_most", "at_most", "at_most", "at_most", "exactly", "exactly", "exactly", "exactly"];
            pr.truncating = truncating;
            pr.matching_rows = rows.len();
            pr
        }
        Act::Map { shape, args } => {
            let s = &MAPS[*shape];
            let d = s.def();
            let p = Pattern::from_shape(s, args).expect("well formed");
            let mut effects = Vec::new();
            let mut cmds = Vec::new();
            for (k, v) in matching(store, &p) {
                let mut e = Eff::new("RowSeen");
                for (slot, ty) in ROW_FIELDS {
                    e = e.with(slot, Val::default_of(ty));
                }
                e = e.with("t", Val::I(*shape as i64));
                for j in 0..d.keys.len() + d.vals.len() {
                    let val = if j < k.len() { k[j].clone() } else { v[j - k.len()].clone() };
                    e = e.with(policy::row_slot(s.fact, j), val);
                }
                effects.push(e);
                cmds.push(Vec::new());
            }
            let rows = effects.len();
            let mut pr = Pred::ok(effects, cmds);
            if rows == 0 {
                pr.outcome = Outcome::NoPublish;
            }
            pr.queries = vec!["map"];
            pr.matching_rows = rows;
            pr
        }
        Act::Multi { fallible, n, af, v, steps } => {
            let mut st = store.clone();
            let mut effects = Vec::new();
            let mut cmds = Vec::new();
            let action_fail = if *fallible { FailKind::ActionErr } else { FailKind::ActionPanic };
            let done = |kind: FailKind, effects: Vec<Eff>, cmds: Vec<Vec<Op>>| {
                let mut p = Pred::fail(kind);
                p.effects = effects;
                p.cmds = cmds;
                p
            };
            for slot in 0..=4usize {
                if *af == slot as i64 {
                    return done(action_fail, effects, cmds);
                }
                if slot == 4 || slot >= *n {
                    continue;
                }
                let (k, mode) = steps[slot];
                match mode {
                    policy::MODE_SEAL_PANIC => return done(FailKind::SealPanic, effects, cmds),
                    policy::MODE_REJECT => return done(FailKind::Rejected, effects, cmds),
                    policy::MODE_REJECT_DIRTY => {
                        // The recall block's effect is consumed before the rejection.
                        effects.push(Eff::new("Stepped").with("k", Val::I(k)).with("v", Val::I(DIRTY_VALUE)).with("had", Val::B(false)));
                        return done(FailKind::RejectedDirty, effects, cmds);
                    }
                    policy::MODE_PANIC => return done(FailKind::CmdPanic, effects, cmds),
                    _ => {}
                }
                let key = (0u8, vec![Val::I(k)]);
                let cur = st.get(&key).cloned();
                let (op, eff) = match (mode == policy::MODE_TOGGLE, cur) {
                    (true, Some(c)) => (Op::Del(key), Eff::new("Stepped").with("k", Val::I(k)).with("v", c[0].clone()).with("had", Val::B(true))),
                    (_, had) => (Op::Put(key, vec![Val::I(*v)]), Eff::new("Stepped").with("k", Val::I(k)).with("v", Val::I(*v)).with("had", Val::B(had.is_some()))),
                };
                apply(&mut st, &op);
                effects.push(eff);
                cmds.push(vec![op]);
            }
            let mut p = Pred::ok(effects, cmds);
            if p.cmds.is_empty() {
                p.outcome = Outcome::NoPublish;
            }
            p
        }
    }
}

/// Action name and arguments as the policy declares them.
pub fn call(act: &Act) -> (String, Vec<Val>) {
    let cat = |parts: &[&[Val]]| -> Vec<Val> { parts.iter().flat_map(|p| p.iter().cloned()).collect() };
    match act {
        Act::Create { f, key, val } => (format!("create{}", FACTS[*f].name), cat(&[key, val])),
        Act::Update { f, key, val } => (format!("update{}", FACTS[*f].name), cat(&[key, val])),
        Act::UpdateBlind { f, key, val } => (format!("updateBlind{}", FACTS[*f].name), cat(&[key, val])),
        Act::UpdateExp { f, key, val, old } => (format!("updateExp{}", FACTS[*f].name), cat(&[key, val, old])),
        Act::Delete { f, key } => (format!("delete{}", FACTS[*f].name), key.clone()),
        Act::Upsert { f, key, val } => (format!("upsert{}", FACTS[*f].name), cat(&[key, val])),
        Act::Report { shape, args } => (policy::report_action(*shape), args.clone()),
        Act::Map { shape, args } => (policy::map_action(*shape), args.clone()),
        Act::Multi { fallible, n, af, v, steps } => {
            let mut a = vec![Val::I(*n as i64), Val::I(*af), Val::I(*v)];
            for (k, m) in steps {
                a.push(Val::I(*k));
                a.push(Val::I(*m));
            }
            ((if *fallible { "multiF" } else { "multi" }).to_string(), a)
        }
    }
}

pub fn act_kind(act: &Act) -> &'static str {
    match act {
        Act::Create { .. } => "create",
        Act::Update { .. } => "update",
        Act::UpdateBlind { .. } => "update_blind",
        Act::UpdateExp { .. } => "update_expected",
        Act::Delete { .. } => "delete",
        Act::Upsert { .. } => "upsert",
        Act::Report { .. } => "report",
        Act::Map { .. } => "map",
        Act::Multi { fallible: false, .. } => "multi",
        Act::Multi { fallible: true, .. } => "multi_fallible",
    }
}
