//! The ONE policy document of this engine, and the tables it is written from.
//!
//! The document is text in the repository's policy language; it is assembled once per process
//! from the small tables below (fact schemas, reporter shapes, map shapes) so that the model's
//! predictions and the policy text cannot drift apart, and compiled by the real parser and
//! compiler at start-up. `vmsim --property C29 --print-policy` prints it.

use std::fmt::Write as _;

use serde::{Deserialize, Serialize};

#[derive(Clone, Copy, PartialEq, Eq, Debug)]
pub enum Ty {
    Int,
    Bool,
    Str,
    Enum,
}

impl Ty {
    pub fn text(self) -> &'static str {
        match self {
            Ty::Int => "int",
            Ty::Bool => "bool",
            Ty::Str => "string",
            Ty::Enum => "enum Color",
        }
    }
    pub fn default_expr(self) -> &'static str {
        match self {
            Ty::Int => "0",
            Ty::Bool => "false",
            Ty::Str => "\"\"",
            Ty::Enum => "Color::Red",
        }
    }
}

pub struct FactDef {
    pub name: &'static str,
    pub keys: &'static [(&'static str, Ty)],
    pub vals: &'static [(&'static str, Ty)],
    /// Index of the key field whose value is always drawn from the acting replica's own
    /// alphabet: full keys written by different replicas are therefore disjoint.
    pub owner: usize,
}

pub const FACTS: [FactDef; 4] = [
    FactDef { name: "A", keys: &[("k", Ty::Int)], vals: &[("v", Ty::Int)], owner: 0 },
    FactDef { name: "B", keys: &[("k", Ty::Int), ("s", Ty::Str)], vals: &[("v", Ty::Int), ("f", Ty::Bool)], owner: 1 },
    FactDef { name: "C", keys: &[("s", Ty::Str), ("k", Ty::Int), ("b", Ty::Bool)], vals: &[("v", Ty::Str)], owner: 1 },
    FactDef { name: "E", keys: &[("e", Ty::Enum), ("k", Ty::Int)], vals: &[("v", Ty::Int)], owner: 1 },
];

/// Count limits used by every reporter (`0` is refused by the compiler).
pub const LIMITS: [i64; 4] = [1, 2, 3, 1000];

/// A fact-literal shape: which leading keys are bound, which value fields are bound.
#[derive(Clone, Copy, PartialEq, Eq, Debug, Serialize, Deserialize)]
pub struct Shape {
    pub fact: usize,
    /// Number of bound leading key fields.
    pub nb: usize,
    /// `None`: the literal has no `=> {..}` block. `Some(mask)`: bit i set = value field i bound.
    pub vmask: Option<u8>,
}

impl Shape {
    pub fn def(&self) -> &'static FactDef {
        &FACTS[self.fact]
    }
    pub fn value_bound(&self, i: usize) -> bool {
        self.vmask.is_some_and(|m| m & (1 << i) != 0)
    }
    pub fn any_value_bound(&self) -> bool {
        self.vmask.is_some_and(|m| m != 0)
    }
    pub fn tag(&self) -> String {
        let d = self.def();
        let v = match self.vmask {
            None => "n".to_string(),
            Some(m) => (0..d.vals.len()).map(|i| if m & (1 << i) != 0 { 'b' } else { 'q' }).collect(),
        };
        format!("{}{}{}", d.name, self.nb, v)
    }
    /// (name, type) of the arguments: bound keys then bound values.
    pub fn args(&self) -> Vec<(&'static str, Ty)> {
        let d = self.def();
        let mut out: Vec<(&'static str, Ty)> = d.keys[..self.nb].to_vec();
        for (i, v) in d.vals.iter().enumerate() {
            if self.value_bound(i) {
                out.push(*v);
            }
        }
        out
    }
    /// The fact literal, bound fields taken from `src(field)`.
    pub fn literal(&self, src: &dyn Fn(&str) -> String) -> String {
        let d = self.def();
        let mut s = format!("{}[", d.name);
        for (i, (k, _)) in d.keys.iter().enumerate() {
            if i > 0 {
                s.push_str(", ");
            }
            if i < self.nb {
                let _ = write!(s, "{k}: {}", src(k));
            } else {
                let _ = write!(s, "{k}: ?");
            }
        }
        s.push(']');
        if self.vmask.is_some() {
            s.push_str("=>{");
            for (i, (v, _)) in d.vals.iter().enumerate() {
                if i > 0 {
                    s.push_str(", ");
                }
                if self.value_bound(i) {
                    let _ = write!(s, "{v}: {}", src(v));
                } else {
                    let _ = write!(s, "{v}: ?");
                }
            }
            s.push('}');
        }
        s
    }
}

const fn sh(fact: usize, nb: usize, vmask: Option<u8>) -> Shape {
    Shape { fact, nb, vmask }
}

/// Reporter shapes: 0, 1, 2, 3 bound leading keys, bound and `?` value fields, no value block.
pub const REPORTS: [Shape; 26] = [
    sh(0, 0, None),
    sh(0, 0, Some(0)),
    sh(0, 0, Some(1)),
    sh(0, 1, Some(0)),
    sh(0, 1, Some(1)),
    sh(1, 0, Some(0)),
    sh(1, 0, Some(1)),
    sh(1, 1, Some(0)),
    sh(1, 1, Some(1)),
    sh(1, 1, Some(2)),
    sh(1, 1, Some(3)),
    sh(1, 1, None),
    sh(1, 2, Some(0)),
    sh(1, 2, Some(2)),
    sh(2, 0, Some(0)),
    sh(2, 1, Some(0)),
    sh(2, 1, Some(1)),
    sh(2, 2, Some(0)),
    sh(2, 2, Some(1)),
    sh(2, 3, Some(0)),
    sh(2, 3, Some(1)),
    sh(3, 0, Some(0)),
    sh(3, 1, Some(0)),
    sh(3, 1, Some(1)),
    sh(3, 2, Some(1)),
    sh(3, 2, None),
];

/// `map` shapes. The last three bind a value field.
pub const MAPS: [Shape; 14] = [
    sh(0, 0, None),
    sh(0, 1, Some(0)),
    sh(1, 0, Some(0)),
    sh(1, 1, None),
    sh(1, 2, Some(0)),
    sh(2, 0, None),
    sh(2, 1, Some(0)),
    sh(2, 2, None),
    sh(2, 3, Some(0)),
    sh(3, 0, Some(0)),
    sh(3, 1, None),
    sh(0, 0, Some(1)),
    sh(1, 1, Some(1)),
    sh(3, 1, Some(1)),
];

/// Index of the first `map` shape with a bound value field.
pub const MAPS_FIRST_VALUE_BOUND: usize = 11;

pub fn report_cmd(i: usize) -> String {
    format!("Rep{}", REPORTS[i].tag())
}
pub fn report_action(i: usize) -> String {
    format!("rep{}", REPORTS[i].tag())
}
pub fn map_action(i: usize) -> String {
    format!("map{}", MAPS[i].tag())
}
pub fn report_effect(fact: usize) -> String {
    format!("Rep{}", FACTS[fact].name)
}

pub fn wrote_tag(fact: usize, kind: usize, variant: i64) -> i64 {
    (fact as i64) * 100 + (kind as i64) * 10 + variant
}

// `Step` modes of the C07 command.
pub const MODE_UPSERT: i64 = 0;
pub const MODE_REJECT: i64 = 1;
pub const MODE_REJECT_DIRTY: i64 = 2;
pub const MODE_PANIC: i64 = 3;
pub const MODE_SEAL_PANIC: i64 = 5;
pub const MODE_TOGGLE: i64 = 6;
pub const DIRTY_VALUE: i64 = 424_242;

const SEAL_OPEN: &str = "    seal { return envelope::do_seal(payload) }\n    open { return envelope::do_open(payload, envelope) }\n";

fn fields_decl(fs: &[(String, Ty)]) -> String {
    fs.iter().map(|(n, t)| format!("{n} {}", t.text())).collect::<Vec<_>>().join(", ")
}

fn struct_from(fs: &[(String, Ty)], src: &dyn Fn(&str) -> String) -> String {
    fs.iter().map(|(n, _)| format!("{n}: {}", src(n))).collect::<Vec<_>>().join(", ")
}

fn this(n: &str) -> String {
    format!("this.{n}")
}

fn full_key(d: &FactDef, src: &dyn Fn(&str) -> String) -> String {
    let ks: Vec<String> = d.keys.iter().map(|(k, _)| format!("{k}: {}", src(k))).collect();
    format!("{}[{}]", d.name, ks.join(", "))
}

fn vals_block(d: &FactDef, src: &dyn Fn(&str) -> String) -> String {
    let vs: Vec<String> = d.vals.iter().map(|(v, _)| format!("{v}: {}", src(v))).collect();
    format!("{{{}}}", vs.join(", "))
}

fn command(out: &mut String, name: &str, prio: u32, fields: &[(String, Ty)], body: &str, recall: bool) {
    let _ = writeln!(out, "command {name} {{");
    let _ = writeln!(out, "    attributes {{ priority: {prio} }}");
    let _ = writeln!(out, "    fields {{ {} }}", fields_decl(fields));
    out.push_str(SEAL_OPEN);
    let _ = writeln!(out, "    policy {{\n{body}    }}");
    if recall {
        let _ = writeln!(out, "    recall reject() {{ finish {{}} }}");
    }
    let _ = writeln!(out, "}}");
}

fn action(out: &mut String, name: &str, cmd: &str, fields: &[(String, Ty)]) {
    let _ = writeln!(out, "action {name}({}) {{\n    publish {cmd} {{ {} }}\n}}\n", fields_decl(fields), struct_from(fields, &|n| n.to_string()));
}

fn own(fs: &[(&'static str, Ty)]) -> Vec<(String, Ty)> {
    fs.iter().map(|(n, t)| ((*n).to_string(), *t)).collect()
}

/// Fields of the `Row` command / `RowSeen` effect that carry one row of any fact.
pub const ROW_FIELDS: [(&str, Ty); 8] = [("t", Ty::Int), ("i1", Ty::Int), ("i2", Ty::Int), ("s1", Ty::Str), ("s2", Ty::Str), ("b1", Ty::Bool), ("b2", Ty::Bool), ("e1", Ty::Enum)];

/// Which `Row` field carries fact field `j` (keys then values) of `fact`.
pub fn row_slot(fact: usize, j: usize) -> &'static str {
    let d = &FACTS[fact];
    let all: Vec<Ty> = d.keys.iter().chain(d.vals.iter()).map(|x| x.1).collect();
    let nth = all[..j].iter().filter(|t| **t == all[j]).count();
    match (all[j], nth) {
        (Ty::Int, 0) => "i1",
        (Ty::Int, _) => "i2",
        (Ty::Str, 0) => "s1",
        (Ty::Str, _) => "s2",
        (Ty::Bool, 0) => "b1",
        (Ty::Bool, _) => "b2",
        (Ty::Enum, _) => "e1",
    }
}

pub fn document() -> String {
    let mut o = String::new();
    o.push_str("---\npolicy-version: 2\n---\n\n```policy\nuse envelope\n\nenum Color { Red, Green, Blue }\n\n");
    for d in &FACTS {
        let _ = writeln!(o, "fact {}[{}]=>{{{}}}", d.name, fields_decl(&own(d.keys)), fields_decl(&own(d.vals)));
    }
    o.push_str("\neffect Wrote { tag int }\n");
    o.push_str("effect Stepped { k int, v int, had bool }\n");
    let _ = writeln!(o, "effect RowSeen {{ {} }}", fields_decl(&own(&ROW_FIELDS)));
    for (fi, d) in FACTS.iter().enumerate() {
        let mut fs: Vec<(String, Ty)> = vec![("shape".into(), Ty::Int), ("found".into(), Ty::Bool)];
        for (n, t) in d.keys.iter().chain(d.vals.iter()) {
            fs.push((format!("r{n}"), *t));
        }
        fs.push(("ex".into(), Ty::Bool));
        for (li, _) in LIMITS.iter().enumerate() {
            fs.push((format!("cu{li}"), Ty::Int));
            fs.push((format!("al{li}"), Ty::Bool));
            fs.push((format!("am{li}"), Ty::Bool));
            fs.push((format!("xe{li}"), Ty::Bool));
        }
        let _ = writeln!(o, "effect {} {{ {} }}", report_effect(fi), fields_decl(&fs));
    }
    o.push_str("\ncommand Init {\n    attributes { init: true }\n    fields { nonce int }\n");
    o.push_str(SEAL_OPEN);
    o.push_str("    policy { finish {} }\n}\naction init(nonce int) {\n    publish Init { nonce: nonce }\n}\n\n");

    // ---- mutators
    for (fi, d) in FACTS.iter().enumerate() {
        let n = d.name;
        let keys = own(d.keys);
        let vals = own(d.vals);
        let all: Vec<(String, Ty)> = keys.iter().chain(vals.iter()).cloned().collect();
        let fk = full_key(d, &this);
        let binds = format!("{{{}}}", d.vals.iter().map(|(v, _)| format!("{v}: ?")).collect::<Vec<_>>().join(", "));

        // Create: refused (before any write) when the key exists.
        let body = format!(
            "        check !exists {fk} else recall reject()\n        finish {{\n            create {fk}=>{}\n            emit Wrote {{ tag: {} }}\n        }}\n",
            vals_block(d, &this),
            wrote_tag(fi, 0, 0)
        );
        command(&mut o, &format!("Create{n}"), 1, &all, &body, true);
        action(&mut o, &format!("create{n}"), &format!("Create{n}"), &all);

        // Update: queries the old value first; refused when absent.
        let body = format!(
            "        let old = query {fk}=>{binds} or recall reject()\n        finish {{\n            update {fk}=>{} to {}\n            emit Wrote {{ tag: {} }}\n        }}\n",
            vals_block(d, &|v| format!("old.{v}")),
            vals_block(d, &this),
            wrote_tag(fi, 1, 0)
        );
        command(&mut o, &format!("Update{n}"), 2, &all, &body, true);
        action(&mut o, &format!("update{n}"), &format!("Update{n}"), &all);

        // UpdateBlind: `update` without naming the old value; refused when absent.
        let body = format!(
            "        check exists {fk}=>{binds} else recall reject()\n        finish {{\n            update {fk} to {}\n            emit Wrote {{ tag: {} }}\n        }}\n",
            vals_block(d, &this),
            wrote_tag(fi, 2, 0)
        );
        command(&mut o, &format!("UpdateBlind{n}"), 2, &all, &body, true);
        action(&mut o, &format!("updateBlind{n}"), &format!("UpdateBlind{n}"), &all);

        // UpdateExp: the caller names the expected old value; refused unless it is current.
        let mut exp_fields = all.clone();
        for (v, t) in d.vals {
            exp_fields.push((format!("o{v}"), *t));
        }
        let oldv = vals_block(d, &|v| format!("this.o{v}"));
        let body = format!(
            "        check exists {fk}=>{oldv} else recall reject()\n        finish {{\n            update {fk}=>{oldv} to {}\n            emit Wrote {{ tag: {} }}\n        }}\n",
            vals_block(d, &this),
            wrote_tag(fi, 3, 0)
        );
        command(&mut o, &format!("UpdateExp{n}"), 2, &exp_fields, &body, true);
        action(&mut o, &format!("updateExp{n}"), &format!("UpdateExp{n}"), &exp_fields);

        // Delete: refused when absent.
        let body = format!(
            "        check exists {fk} else recall reject()\n        finish {{\n            delete {fk}\n            emit Wrote {{ tag: {} }}\n        }}\n",
            wrote_tag(fi, 4, 0)
        );
        command(&mut o, &format!("Delete{n}"), 3, &keys, &body, true);
        action(&mut o, &format!("delete{n}"), &format!("Delete{n}"), &keys);

        // Upsert.
        let body = format!(
            "        let cur = query {fk}=>{binds}\n        match cur {{\n            Some(c) => {{\n                finish {{\n                    update {fk}=>{} to {}\n                    emit Wrote {{ tag: {} }}\n                }}\n            }}\n            None => {{\n                finish {{\n                    create {fk}=>{}\n                    emit Wrote {{ tag: {} }}\n                }}\n            }}\n        }}\n",
            vals_block(d, &|v| format!("c.{v}")),
            vals_block(d, &this),
            wrote_tag(fi, 5, 1),
            vals_block(d, &this),
            wrote_tag(fi, 5, 0)
        );
        command(&mut o, &format!("Upsert{n}"), 4, &all, &body, false);
        action(&mut o, &format!("upsert{n}"), &format!("Upsert{n}"), &all);
    }

    // ---- reporters
    for (ri, s) in REPORTS.iter().enumerate() {
        let d = s.def();
        let lit = s.literal(&this);
        let mut body = String::new();
        let _ = writeln!(body, "        let q = query {lit}");
        let _ = writeln!(body, "        let found = q is Some");
        for (n, t) in d.keys.iter().chain(d.vals.iter()) {
            let _ = writeln!(body, "        let r{n} = match q {{\n            Some(x) => x.{n}\n            None => {}\n        }}", t.default_expr());
        }
        let _ = writeln!(body, "        let ex = exists {lit}");
        for (li, l) in LIMITS.iter().enumerate() {
            let _ = writeln!(body, "        let cu{li} = count_up_to {l} {lit}");
            let _ = writeln!(body, "        let al{li} = at_least {l} {lit}");
            let _ = writeln!(body, "        let am{li} = at_most {l} {lit}");
            let _ = writeln!(body, "        let xe{li} = exactly {l} {lit}");
        }
        let mut fs = vec![format!("shape: {ri}"), "found: found".to_string()];
        for (n, _) in d.keys.iter().chain(d.vals.iter()) {
            fs.push(format!("r{n}: r{n}"));
        }
        fs.push("ex: ex".into());
        for (li, _) in LIMITS.iter().enumerate() {
            for p in ["cu", "al", "am", "xe"] {
                fs.push(format!("{p}{li}: {p}{li}"));
            }
        }
        let _ = writeln!(body, "        finish {{\n            emit {} {{ {} }}\n        }}", report_effect(s.fact), fs.join(", "));
        let args = own(&s.args());
        command(&mut o, &report_cmd(ri), 5, &args, &body, false);
        action(&mut o, &report_action(ri), &report_cmd(ri), &args);
    }

    // ---- map
    command(
        &mut o,
        "Row",
        6,
        &own(&ROW_FIELDS),
        &format!("        finish {{\n            emit RowSeen {{ {} }}\n        }}\n", struct_from(&own(&ROW_FIELDS), &this)),
        false,
    );
    for (mi, s) in MAPS.iter().enumerate() {
        let d = s.def();
        let lit = s.literal(&|n| n.to_string());
        let mut fs: Vec<String> = Vec::new();
        for (slot, ty) in ROW_FIELDS {
            if slot == "t" {
                fs.push(format!("t: {mi}"));
                continue;
            }
            let src = (0..d.keys.len() + d.vals.len()).find(|j| row_slot(s.fact, *j) == slot);
            match src {
                Some(j) => {
                    let n = d.keys.iter().chain(d.vals.iter()).nth(j).expect("field").0;
                    fs.push(format!("{slot}: f.{n}"));
                }
                None => fs.push(format!("{slot}: {}", ty.default_expr())),
            }
        }
        let _ = writeln!(o, "action {}({}) {{\n    map {lit} as f {{\n        publish Row {{ {} }}\n    }}\n}}\n", map_action(mi), fields_decl(&own(&s.args())), fs.join(", "));
    }

    // ---- C07: multi-command actions
    o.push_str(
        r#"command Step {
    attributes { priority: 2 }
    fields { k int, v int, mode int }
    seal {
        check this.mode != 5 else test_fail("seal fails")
        return envelope::do_seal(payload)
    }
    open { return envelope::do_open(payload, envelope) }
    policy {
        check this.mode != 1 else recall reject()
        check this.mode != 2 else recall dirty()
        check this.mode != 3 else test_fail("step panics")
        let cur = query A[k: this.k]=>{v: ?}
        if this.mode == 6 {
            match cur {
                Some(c) => {
                    finish {
                        delete A[k: this.k]
                        emit Stepped { k: this.k, v: c.v, had: true }
                    }
                }
                None => {
                    finish {
                        create A[k: this.k]=>{v: this.v}
                        emit Stepped { k: this.k, v: this.v, had: false }
                    }
                }
            }
        } else {
            match cur {
                Some(c) => {
                    finish {
                        update A[k: this.k]=>{v: c.v} to {v: this.v}
                        emit Stepped { k: this.k, v: this.v, had: true }
                    }
                }
                None => {
                    finish {
                        create A[k: this.k]=>{v: this.v}
                        emit Stepped { k: this.k, v: this.v, had: false }
                    }
                }
            }
        }
    }
    recall reject() { finish {} }
    recall dirty() {
        finish {
            delete A[k: this.k]
            create A[k: this.k]=>{v: 424242}
            emit Stepped { k: this.k, v: 424242, had: false }
        }
    }
}

action multi(n int, af int, v int, k0 int, m0 int, k1 int, m1 int, k2 int, m2 int, k3 int, m3 int) {
    check af != 0 else test_fail("action fails before the first publish")
    if n > 0 {
        publish Step { k: k0, v: v, mode: m0 }
    }
    check af != 1 else test_fail("action fails after slot 0")
    if n > 1 {
        publish Step { k: k1, v: v, mode: m1 }
    }
    check af != 2 else test_fail("action fails after slot 1")
    if n > 2 {
        publish Step { k: k2, v: v, mode: m2 }
    }
    check af != 3 else test_fail("action fails after slot 2")
    if n > 3 {
        publish Step { k: k3, v: v, mode: m3 }
    }
    check af != 4 else test_fail("action fails after slot 3")
}

action multiF(n int, af int, v int, k0 int, m0 int, k1 int, m1 int, k2 int, m2 int, k3 int, m3 int) result[unit, string] {
    check af != 0 else return Err("fails before the first publish")
    if n > 0 {
        publish Step { k: k0, v: v, mode: m0 }
    }
    if af == 1 {
        return Err("fails after slot 0")
    }
    if n > 1 {
        publish Step { k: k1, v: v, mode: m1 }
    }
    check af != 2 else return Err("fails after slot 1")
    if n > 2 {
        publish Step { k: k2, v: v, mode: m2 }
    }
    if af == 3 {
        return Err("fails after slot 2")
    }
    if n > 3 {
        publish Step { k: k3, v: v, mode: m3 }
    }
    check af != 4 else return Err("fails after slot 3")
    return Ok(Unit)
}
"#,
    );
    o.push_str("```\n");
    o
}
