//! A replica: the real `ClientState` with the real `VmPolicy`, memory-backed linear storage, a
//! recording sink, and observation helpers that read only through the public storage API.

use std::{
    borrow::Cow,
    cell::{Cell, RefCell},
    panic::{AssertUnwindSafe, catch_unwind},
    rc::Rc,
};

use aranya_crypto::{Csprng, DeviceId, default::DefaultEngine, id::IdExt as _};
use aranya_policy_compiler::Compiler;
use aranya_policy_lang::lang::parse_policy_document;
use aranya_policy_vm::{FactValue, Machine, Value, ffi::FfiModule as _};
use aranya_runtime::{
    ClientError, ClientState, CmdId, Command as _, FfiCallable, GraphId, Location, MemSpill, Prior,
    Query as _, RuntimeBuffers, Segment as _, Sink, Storage as _, StorageProvider as _, VmAction,
    VmEffect, VmPolicy,
    policy::{PolicyError, PolicyId, PolicyStore},
    storage::linear::testing::MemStorageProvider,
    vm_policy::testing::TestFfiEnvelope,
};

use crate::{
    model::{Eff, Val},
    policy::{self, FACTS},
};

// ------------------------------------------------------------ panics

thread_local! {
    static LAST_PANIC: RefCell<Option<String>> = const { RefCell::new(None) };
    static MACHINE: RefCell<Option<Machine>> = const { RefCell::new(None) };
}

pub fn install_quiet_panic_hook() {
    std::panic::set_hook(Box::new(|info| {
        let msg = if let Some(s) = info.payload().downcast_ref::<&str>() {
            (*s).to_string()
        } else if let Some(s) = info.payload().downcast_ref::<String>() {
            s.clone()
        } else {
            "non-string panic".to_string()
        };
        let loc = info.location().map(|l| format!("{}:{}", l.file().rsplit('/').next().unwrap_or(""), l.line())).unwrap_or_default();
        if std::env::var_os("VMSIM_TRACE").is_some() {
            eprintln!("PANIC {msg} @ {loc}");
        }
        LAST_PANIC.with(|p| *p.borrow_mut() = Some(format!("{msg} @ {loc}")));
    }));
}

pub enum Guarded<T> {
    Done(T),
    Panicked(String),
}

pub fn guarded<T>(f: impl FnOnce() -> T) -> Guarded<T> {
    match catch_unwind(AssertUnwindSafe(f)) {
        Ok(v) => Guarded::Done(v),
        Err(_) => Guarded::Panicked(LAST_PANIC.with(|p| p.borrow_mut().take()).unwrap_or_else(|| "panic".into())),
    }
}

// ------------------------------------------------------------ policy machine

/// Parse and compile the policy document with the real parser and compiler (once per thread).
pub fn machine() -> Machine {
    MACHINE.with(|m| {
        let mut m = m.borrow_mut();
        if m.is_none() {
            let doc = policy::document();
            let ast = parse_policy_document(&doc).unwrap_or_else(|e| vcommon::harness_error(&format!("policy document does not parse: {e}")));
            let module = Compiler::new(&ast)
                .ffi_modules(&[TestFfiEnvelope::SCHEMA])
                .debug(true)
                .compile()
                .unwrap_or_else(|e| vcommon::harness_error(&format!("policy document does not compile: {e}")));
            *m = Some(Machine::from_module(module).unwrap_or_else(|e| vcommon::harness_error(&format!("cannot load compiled module: {e}"))));
        }
        m.clone().expect("machine")
    })
}

/// Seeded stand-in for the OS randomness the crypto engine and the sync requester ask for.
#[derive(Clone)]
pub struct SimRng(pub Rc<Cell<u64>>);

impl SimRng {
    pub fn new(seed: u64) -> Self {
        Self(Rc::new(Cell::new(seed)))
    }
}

impl Csprng for SimRng {
    fn fill_bytes(&self, dst: &mut [u8]) {
        let mut s = self.0.get();
        for b in dst.iter_mut() {
            *b = (vcommon::splitmix(&mut s) & 0xff) as u8;
        }
        self.0.set(s);
    }
}

pub type Engine = DefaultEngine<SimRng>;

pub struct Store {
    policy: VmPolicy<Engine>,
}

impl PolicyStore for Store {
    type Policy = VmPolicy<Engine>;
    type Effect = VmEffect;

    fn add_policy(&mut self, _policy: &[u8]) -> Result<PolicyId, PolicyError> {
        Ok(PolicyId::new(0))
    }

    fn get_policy(&self, _id: PolicyId) -> Result<&Self::Policy, PolicyError> {
        Ok(&self.policy)
    }
}

// ------------------------------------------------------------ sink

#[derive(Clone, Debug, PartialEq, Eq)]
pub enum SinkEv {
    Begin,
    Consume(Eff, CmdId, bool),
    Commit,
    Rollback,
}

#[derive(Default)]
pub struct RecSink {
    pub ev: Vec<SinkEv>,
    /// Effects that could not be converted (unknown value type): reported by the oracle.
    pub odd: Vec<String>,
}

impl Sink<VmEffect> for RecSink {
    fn begin(&mut self) {
        self.ev.push(SinkEv::Begin);
    }
    fn consume(&mut self, e: VmEffect) {
        let mut eff = Eff::new(e.name.as_str());
        for f in &e.fields {
            match from_value(f.value()) {
                Some(v) => {
                    eff.fields.insert(f.key().as_str().to_string(), v);
                }
                None => self.odd.push(format!("{}.{} = {}", e.name, f.key(), f.value())),
            }
        }
        self.ev.push(SinkEv::Consume(eff, e.command, e.recalled));
    }
    fn rollback(&mut self) {
        self.ev.push(SinkEv::Rollback);
    }
    fn commit(&mut self) {
        self.ev.push(SinkEv::Commit);
    }
}

impl RecSink {
    pub fn shape(&self) -> String {
        self.ev
            .iter()
            .map(|e| match e {
                SinkEv::Begin => 'B',
                SinkEv::Consume(..) => 'e',
                SinkEv::Commit => 'C',
                SinkEv::Rollback => 'R',
            })
            .collect()
    }
    pub fn consumed(&self) -> Vec<(Eff, CmdId)> {
        self.ev
            .iter()
            .filter_map(|e| match e {
                SinkEv::Consume(e, id, _) => Some((e.clone(), *id)),
                _ => None,
            })
            .collect()
    }
}

// ------------------------------------------------------------ values

pub fn to_value(v: &Val) -> Value {
    match v {
        Val::I(i) => Value::Int(*i),
        Val::B(b) => Value::Bool(*b),
        Val::S(s) => Value::String(s.parse().expect("alphabet strings are valid text")),
        Val::E(n) => Value::Enum("Color".parse().expect("identifier"), *n),
    }
}

pub fn from_value(v: &Value) -> Option<Val> {
    Some(match v {
        Value::Int(i) => Val::I(*i),
        Value::Bool(b) => Val::B(*b),
        Value::String(s) => Val::S(s.as_str().to_string()),
        Value::Enum(name, n) if name.as_str() == "Color" => Val::E(*n),
        _ => return None,
    })
}

/// Independent decoder of one stored key component: `u64-be len | field name | type tag | bytes`
/// with ints and enum ordinals as sign-flipped big-endian (the documented order-preserving form).
pub fn decode_key(bytes: &[u8]) -> Option<(String, Val)> {
    let (len, rest) = bytes.split_first_chunk::<8>()?;
    let len = usize::try_from(u64::from_be_bytes(*len)).ok()?;
    if rest.len() < len + 1 {
        return None;
    }
    let name = std::str::from_utf8(&rest[..len]).ok()?.to_string();
    let tag = rest[len];
    let body = &rest[len + 1..];
    let int = |b: &[u8]| -> Option<i64> { Some(i64::from_be_bytes(b.try_into().ok()?) ^ i64::MIN) };
    let v = match tag {
        0 => Val::I(int(body)?),
        1 => match body {
            [0] => Val::B(false),
            [1] => Val::B(true),
            _ => return None,
        },
        2 => Val::S(std::str::from_utf8(body).ok()?.to_string()),
        4 => {
            let (ord, name) = body.split_first_chunk::<8>()?;
            if name != b"Color" {
                return None;
            }
            Val::E(int(ord)?)
        }
        _ => return None,
    };
    Some((name, v))
}

/// One stored row, raw and decoded.
#[derive(Clone, Debug, PartialEq, Eq)]
pub struct RawRow {
    pub fact: u8,
    pub key: Vec<Vec<u8>>,
    pub value: Vec<u8>,
}

pub struct Dump {
    pub raw: Vec<RawRow>,
    /// Decoded rows in the order the storage returned them: (fact, key tuple, value tuple).
    pub rows: Vec<(u8, Vec<Val>, Vec<Val>)>,
    /// Rows that did not decode against the schema.
    pub undecodable: Vec<String>,
}

// ------------------------------------------------------------ replica

pub type Client = ClientState<Store, MemStorageProvider>;

pub struct Replica {
    pub client: Client,
    pub buffers: RuntimeBuffers<<MemStorageProvider as aranya_runtime::StorageProvider>::Segment>,
}

pub struct HeadInfo {
    pub id: CmdId,
    pub max_cut: u64,
    pub loc: Location,
}

impl Replica {
    pub fn new(seed: u64, idx: usize) -> Self {
        let rng = SimRng::new(vcommon::mix(seed, 0x5EC0 + idx as u64));
        let (eng, _) = DefaultEngine::from_entropy(rng.clone());
        let device = DeviceId::random(rng.clone());
        let ffis: Vec<Box<dyn FfiCallable<Engine> + Send + 'static>> = vec![Box::from(TestFfiEnvelope { device })];
        let policy = VmPolicy::new(machine(), eng, ffis).unwrap_or_else(|e| vcommon::harness_error(&format!("VmPolicy::new: {e}")));
        Self { client: ClientState::new(Store { policy }, MemStorageProvider::default()), buffers: RuntimeBuffers::new() }
    }

    pub fn new_graph(&mut self, nonce: i64, sink: &mut RecSink) -> Guarded<Result<GraphId, ClientError>> {
        let action = VmAction { name: "init".parse().expect("identifier"), args: Cow::Owned(vec![Value::Int(nonce)]) };
        guarded(|| self.client.new_graph(&[0u8], action, sink))
    }

    pub fn action(&mut self, gid: GraphId, name: &str, args: &[Val], sink: &mut RecSink) -> Guarded<Result<(), ClientError>> {
        let action = VmAction { name: name.parse().expect("action names are identifiers"), args: Cow::Owned(args.iter().map(to_value).collect()) };
        guarded(|| self.client.action(gid, sink, action, &mut self.buffers, MemSpill::new))
    }

    pub fn has_graph(&mut self, gid: GraphId) -> bool {
        self.client.provider().get_storage(gid).is_ok()
    }

    pub fn heads(&mut self, gid: GraphId) -> Result<Vec<HeadInfo>, String> {
        let st = self.client.provider().get_storage(gid).map_err(|e| e.to_string())?;
        let hs = st.get_heads().map_err(|e| e.to_string())?;
        let mut out: Vec<HeadInfo> = hs.iter().map(|h| HeadInfo { id: h.id, max_cut: h.max_cut.get(), loc: h.location() }).collect();
        out.sort_by_key(|h| (h.max_cut, h.id));
        Ok(out)
    }

    /// Id and parent of the command stored at `loc`.
    pub fn command_at(&mut self, gid: GraphId, loc: Location) -> Result<(CmdId, Prior<aranya_runtime::Address>), String> {
        let st = self.client.provider().get_storage(gid).map_err(|e| e.to_string())?;
        let seg = st.get_segment(loc).map_err(|e| e.to_string())?;
        let c = seg.get_command(loc).ok_or_else(|| format!("no command at {loc}"))?;
        Ok((c.id(), c.parent()))
    }

    pub fn locate(&mut self, gid: GraphId, addr: aranya_runtime::Address) -> Result<Option<Location>, String> {
        let buf = &mut self.buffers.traversal.primary;
        let st = self.client.provider().get_storage(gid).map_err(|e| e.to_string())?;
        st.get_location(addr, buf).map_err(|e| e.to_string())
    }

    pub fn is_ancestor(&mut self, gid: GraphId, a: Location, of: Location) -> Result<bool, String> {
        let buf = &mut self.buffers.traversal.primary;
        let st = self.client.provider().get_storage(gid).map_err(|e| e.to_string())?;
        st.is_ancestor(a, of, buf).map_err(|e| e.to_string())
    }

    /// All committed facts of every fact name of the policy, read through
    /// `Storage::fact_cache()` and `query_prefix(name, [])`.
    pub fn dump(&mut self, gid: GraphId) -> Result<Dump, String> {
        let st = self.client.provider().get_storage(gid).map_err(|e| e.to_string())?;
        let idx = st.fact_cache().map_err(|e| e.to_string())?;
        let mut d = Dump { raw: Vec::new(), rows: Vec::new(), undecodable: Vec::new() };
        for (fi, def) in FACTS.iter().enumerate() {
            let it = idx.query_prefix(def.name, &[]).map_err(|e| e.to_string())?;
            for f in it {
                let f = f.map_err(|e| e.to_string())?;
                let key: Vec<Vec<u8>> = f.key.iter().map(|b| b.to_vec()).collect();
                d.raw.push(RawRow { fact: fi as u8, key: key.clone(), value: f.value.to_vec() });
                match decode_row(fi, &key, &f.value) {
                    Some((k, v)) => d.rows.push((fi as u8, k, v)),
                    None => d.undecodable.push(format!("{}: key {:?} value {}", def.name, key.iter().map(|k| vcommon::hex(k)).collect::<Vec<_>>(), vcommon::hex(&f.value))),
                }
            }
        }
        Ok(d)
    }
}

fn decode_row(fi: usize, key: &[Vec<u8>], value: &[u8]) -> Option<(Vec<Val>, Vec<Val>)> {
    let def = &FACTS[fi];
    if key.len() != def.keys.len() {
        return None;
    }
    let mut k = Vec::new();
    for (b, (name, ty)) in key.iter().zip(def.keys) {
        let (n, v) = decode_key(b)?;
        if n != *name || v.ty() != *ty {
            return None;
        }
        k.push(v);
    }
    let vals: Vec<FactValue> = postcard::from_bytes(value).ok()?;
    if vals.len() != def.vals.len() {
        return None;
    }
    let mut v = Vec::new();
    for (name, ty) in def.vals {
        let fv = vals.iter().find(|fv| fv.identifier.as_str() == *name)?;
        let x = from_value(&fv.value)?;
        if x.ty() != *ty {
            return None;
        }
        v.push(x);
    }
    Some((k, v))
}
