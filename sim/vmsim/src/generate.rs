//! Seeded workload generation (interleaved with execution so choices can look at the model),
//! replay of explicit step lists, and the outcome of one run.

use vcommon::Rng;

use crate::{
    model::{Act, Val},
    policy::{self, FACTS, MAPS, MAPS_FIRST_VALUE_BOUND, REPORTS, Shape, Ty},
    sim::{Cfg, Found, OWN_INTS, OWN_STRS, Sim, Stats, Step, owns},
};

pub struct Outcome {
    pub steps: Vec<Step>,
    pub found: Vec<Found>,
    pub stats: Stats,
    pub event_hash: u64,
    pub nontrivial_c29: bool,
    pub nontrivial_c07: bool,
    pub commands: usize,
}

pub fn family_cfg(property: &str, seed: u64, index: u64, map_values: bool) -> Cfg {
    let mut r = Rng::derive(seed, "family");
    let long = index % 12 == 11;
    match property {
        "C07" => {
            let n_reps = if r.chance(1, 5) { 1 } else { r.range(2, 3) as usize };
            Cfg { seed, family: "c07".into(), n_reps, max_steps: if long { 110 } else { r.range(25, 55) as usize }, map_values }
        }
        _ => {
            let single = r.chance(35, 100);
            let n_reps = if single { 1 } else { r.range(2, 3) as usize };
            Cfg { seed, family: if single { "c29-single".into() } else { "c29-multi".into() }, n_reps, max_steps: if long { 130 } else { r.range(30, 65) as usize }, map_values }
        }
    }
}

const HOT_INTS: [i64; 3] = [-1, 0, 1];
const HOT_STRS: [&str; 3] = ["", "a", "ab"];
const VAL_INTS: [i64; 7] = [0, 1, -1, 7, i64::MAX, i64::MIN, 424_242];

fn any_int(rng: &mut Rng) -> i64 {
    if rng.chance(60, 100) {
        *rng.pick(&HOT_INTS)
    } else {
        let r = rng.usize_below(3);
        *rng.pick(OWN_INTS[r])
    }
}

fn any_str(rng: &mut Rng) -> String {
    if rng.chance(55, 100) {
        (*rng.pick(&HOT_STRS)).to_string()
    } else {
        let r = rng.usize_below(3);
        (*rng.pick(OWN_STRS[r])).to_string()
    }
}

fn any_of(ty: Ty, rng: &mut Rng) -> Val {
    match ty {
        Ty::Int => Val::I(any_int(rng)),
        Ty::Str => Val::S(any_str(rng)),
        Ty::Bool => Val::B(rng.chance(1, 2)),
        Ty::Enum => Val::E(rng.below(3) as i64),
    }
}

fn value_of(ty: Ty, rng: &mut Rng) -> Val {
    match ty {
        Ty::Int => Val::I(*rng.pick(&VAL_INTS)),
        other => any_of(other, rng),
    }
}

fn own_of(ty: Ty, r: usize, rng: &mut Rng) -> Val {
    match ty {
        Ty::Int => Val::I(*rng.pick(OWN_INTS[r])),
        Ty::Str => Val::S((*rng.pick(OWN_STRS[r])).to_string()),
        other => any_of(other, rng),
    }
}

fn fresh_key(f: usize, r: usize, rng: &mut Rng) -> Vec<Val> {
    let d = &FACTS[f];
    d.keys.iter().enumerate().map(|(j, (_, ty))| if j == d.owner { own_of(*ty, r, rng) } else { any_of(*ty, rng) }).collect()
}

fn fresh_vals(f: usize, rng: &mut Rng) -> Vec<Val> {
    FACTS[f].vals.iter().map(|(_, ty)| value_of(*ty, rng)).collect()
}

/// A key of fact `f` present in the model of replica `r` and owned by `r`.
fn existing_own_key(sim: &Sim, f: usize, r: usize, rng: &mut Rng) -> Option<(Vec<Val>, Vec<Val>)> {
    let own: Vec<(&Vec<Val>, &Vec<Val>)> = sim.reps[r].model.iter().filter(|((ff, k), _)| *ff as usize == f && owns(r, &k[FACTS[f].owner])).map(|((_, k), v)| (k, v)).collect();
    if own.is_empty() {
        return None;
    }
    let (k, v) = own[rng.usize_below(own.len())];
    Some((k.clone(), v.clone()))
}

fn any_row(sim: &Sim, f: usize, r: usize, rng: &mut Rng) -> Option<(Vec<Val>, Vec<Val>)> {
    let rows: Vec<(&Vec<Val>, &Vec<Val>)> = sim.reps[r].model.iter().filter(|((ff, _), _)| *ff as usize == f).map(|((_, k), v)| (k, v)).collect();
    if rows.is_empty() {
        return None;
    }
    let (k, v) = rows[rng.usize_below(rows.len())];
    Some((k.clone(), v.clone()))
}

fn gen_mutator(sim: &Sim, r: usize, rng: &mut Rng) -> Act {
    let f = rng.usize_below(FACTS.len());
    let kind = rng.weighted(&[30, 12, 8, 10, 15, 25]);
    let existing = existing_own_key(sim, f, r, rng);
    let prefer_existing = match kind {
        0 => rng.chance(20, 100),
        5 => rng.chance(50, 100),
        _ => rng.chance(78, 100),
    };
    let (key, cur) = match (prefer_existing, existing) {
        (true, Some((k, v))) => (k, Some(v)),
        _ => (fresh_key(f, r, rng), None),
    };
    let val = fresh_vals(f, rng);
    match kind {
        0 => Act::Create { f, key, val },
        1 => Act::Update { f, key, val },
        2 => Act::UpdateBlind { f, key, val },
        3 => {
            let old = match cur {
                Some(v) if rng.chance(70, 100) => v,
                _ => fresh_vals(f, rng),
            };
            Act::UpdateExp { f, key, val, old }
        }
        4 => Act::Delete { f, key },
        _ => Act::Upsert { f, key, val },
    }
}

fn gen_pattern_args(sim: &Sim, s: &Shape, r: usize, rng: &mut Rng) -> Vec<Val> {
    let d = s.def();
    let row = if rng.chance(82, 100) { any_row(sim, s.fact, r, rng) } else { None };
    let mut args = Vec::new();
    for j in 0..s.nb {
        match &row {
            Some((k, _)) if rng.chance(90, 100) => args.push(k[j].clone()),
            _ => args.push(any_of(d.keys[j].1, rng)),
        }
    }
    for (i, (_, ty)) in d.vals.iter().enumerate() {
        if s.value_bound(i) {
            match &row {
                Some((_, v)) if rng.chance(75, 100) => args.push(v[i].clone()),
                _ => args.push(value_of(*ty, rng)),
            }
        }
    }
    args
}

fn gen_multi(r: usize, fail_pct: u64, rng: &mut Rng) -> Act {
    let n = rng.weighted(&[3, 20, 30, 27, 20]);
    let mut steps = [(0i64, policy::MODE_UPSERT); 4];
    for s in steps.iter_mut() {
        s.0 = *rng.pick(OWN_INTS[r]);
        s.1 = if rng.chance(1, 4) { policy::MODE_TOGGLE } else { policy::MODE_UPSERT };
    }
    let mut af = -1;
    if rng.chance(fail_pct, 100) {
        if n > 0 && rng.chance(60, 100) {
            let p = rng.usize_below(n);
            steps[p].1 = *rng.pick(&[policy::MODE_REJECT, policy::MODE_REJECT_DIRTY, policy::MODE_PANIC, policy::MODE_SEAL_PANIC]);
        } else {
            af = rng.range(0, n as u64) as i64;
            if af as usize == n && rng.chance(1, 3) {
                af = 4;
            }
        }
    }
    Act::Multi { fallible: rng.chance(1, 2), n, af, v: *rng.pick(&VAL_INTS), steps }
}

pub fn gen_step(sim: &Sim, rng: &mut Rng) -> Step {
    let n = sim.reps.len();
    let c07 = sim.cfg.family == "c07";
    // mutate, report, map, multi, sync
    let mut w: [u32; 5] = if c07 { [18, 4, 6, 50, 22] } else { [45, 28, 12, 5, 10] };
    if n < 2 {
        w[4] = 0;
    }
    let r = if c07 || n == 1 {
        rng.usize_below(n)
    } else if rng.chance(70, 100) {
        0
    } else {
        1 + rng.usize_below(n - 1)
    };
    match rng.weighted(&w) {
        0 => Step::Act { r, act: gen_mutator(sim, r, rng) },
        1 => {
            // Fewer bound keys select more rows: lean towards them.
            let w: Vec<u32> = REPORTS.iter().map(|s| [4, 3, 2, 1][s.nb.min(3)]).collect();
            let shape = rng.weighted(&w);
            Step::Act { r, act: Act::Report { shape, args: gen_pattern_args(sim, &REPORTS[shape], r, rng) } }
        }
        2 => {
            let limit = if sim.cfg.map_values { MAPS.len() } else { MAPS_FIRST_VALUE_BOUND };
            let shape = rng.usize_below(limit);
            Step::Act { r, act: Act::Map { shape, args: gen_pattern_args(sim, &MAPS[shape], r, rng) } }
        }
        3 => Step::Act { r, act: gen_multi(r, if c07 { 48 } else { 30 }, rng) },
        _ => {
            let a = rng.usize_below(n);
            let mut b = rng.usize_below(n - 1);
            if b >= a {
                b += 1;
            }
            Step::Sync { a, b }
        }
    }
}

impl Sim {
    pub fn finish(mut self, steps: Vec<Step>) -> Outcome {
        self.final_checks();
        for (k, v) in aranya_runtime::verif::take_probes() {
            *self.stats.probes.entry(k.to_string()).or_insert(0) += v;
        }
        let commands = self.chains.iter().map(Vec::len).sum();
        Outcome { steps, found: self.found, event_hash: self.event_hash, nontrivial_c29: self.nt_report && self.nt_map, nontrivial_c07: self.nt_c07, commands, stats: self.stats }
    }
}

/// One seeded run: generate and execute step by step.
pub fn run_seeded(cfg: &Cfg) -> Outcome {
    let _ = aranya_runtime::verif::take_probes();
    let mut sim = Sim::new(cfg.clone());
    let mut rng = Rng::derive(cfg.seed, "workload");
    let mut steps = Vec::new();
    for _ in 0..cfg.max_steps {
        if sim.dead {
            break;
        }
        let s = gen_step(&sim, &mut rng);
        sim.exec(&s);
        steps.push(s);
    }
    sim.finish(steps)
}

/// Execute an explicit step list in a fresh simulator (no PRNG involved in the workload).
pub fn replay(cfg: &Cfg, steps: &[Step]) -> Outcome {
    let _ = aranya_runtime::verif::take_probes();
    let mut sim = Sim::new(cfg.clone());
    for s in steps {
        sim.exec(s);
        if sim.dead {
            break;
        }
    }
    sim.finish(steps.to_vec())
}
