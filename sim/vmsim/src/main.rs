//! Engine `vmsim` (skeleton).
fn main() {
    let cli = vcommon::parse_cli();
    vcommon::harness_error(&format!("vmsim: property {:?} not built yet", cli.property));
}
