//! Engine E2 `vmsim`: the real policy compiler, policy VM and `VmPolicy` in the loop
//! (properties C29 and C07; DESIGN section 5).

mod generate;
mod minimise;
mod model;
mod policy;
mod replica;
mod sim;

use std::collections::{BTreeMap, BTreeSet};

use serde_json::json;
use vcommon::{Cli, Evidence, Tier, Violation};

use crate::{
    generate::{Outcome, family_cfg, run_seeded},
    sim::{Cfg, Found, Step},
};

struct Plan {
    reports: &'static [&'static str],
    quick_runs: u64,
    thorough_runs: u64,
    nontrivial: &'static str,
}

fn plan(p: &str) -> Option<Plan> {
    match p {
        "C29" => Some(Plan {
            reports: &["C29"],
            quick_runs: 36000,
            thorough_runs: 360000,
            nontrivial: "at least one reporter command ran against >= 2 matching rows with a count limit smaller than the number of matches (the cap truncates), and at least one map iteration published >= 2 rows",
        }),
        "C07" => Some(Plan {
            reports: &["C07"],
            quick_runs: 36000,
            thorough_runs: 360000,
            nontrivial: "an action failed after >= 1 of its commands had been accepted, on a replica whose committed head set had >= 2 heads",
        }),
        _ => None,
    }
}

fn nontrivial(property: &str, o: &Outcome) -> bool {
    match property {
        "C29" => o.nontrivial_c29,
        "C07" => o.nontrivial_c07,
        _ => false,
    }
}

#[derive(serde::Serialize, serde::Deserialize)]
struct ReplayFile {
    engine: String,
    property: String,
    seed: u64,
    cfg: Cfg,
    steps: Vec<Step>,
    violation: Found,
    minimised_from: usize,
}

fn main() {
    replica::install_quiet_panic_hook();
    if std::env::args().any(|a| a == "--print-policy") {
        println!("{}", policy::document());
        return;
    }
    let cli = vcommon::parse_cli();
    if let Some(path) = &cli.replay {
        std::process::exit(replay_file(&cli, path));
    }
    let Some(plan) = plan(&cli.property) else {
        vcommon::harness_error(&format!("vmsim does not serve property {:?}", cli.property));
    };
    // `--map-values off` leaves out the `map` actions whose fact literal binds a value field
    // (a generation switch; the oracle is the same).
    let map_values = cli.extra.get("map-values").is_none_or(|v| v != "off");
    if cli.has_flag("audit") {
        std::process::exit(audit(&cli, map_values));
    }
    let runs = cli.extra.get("runs").and_then(|s| s.parse().ok()).unwrap_or(match cli.tier {
        Tier::Quick => plan.quick_runs,
        Tier::Thorough => plan.thorough_runs,
    });
    let max_steps: Option<usize> = cli.extra.get("steps").and_then(|s| s.parse().ok());
    let mut ev = Evidence::new(&cli, "exploration");
    let seed = cli.seed;
    let property = cli.property.clone();
    let mut counters: BTreeMap<String, u64> = BTreeMap::new();
    let mut probes: BTreeMap<String, u64> = BTreeMap::new();
    let mut histories: BTreeSet<u64> = BTreeSet::new();
    let mut distinct_nontrivial: BTreeSet<u64> = BTreeSet::new();
    let mut anomalies: Vec<String> = Vec::new();
    let mut other: BTreeMap<String, u64> = BTreeMap::new();
    let mut families: BTreeMap<String, u64> = BTreeMap::new();
    let mut violations: Vec<Violation> = Vec::new();
    let mut samples = Vec::new();
    let mut fallback_sample = None;
    let mut steps_total = 0u64;
    let mut max_commands = 0usize;
    let mut evaluations = 0u64;
    // The batch is executed in chunks so memory stays flat in the thorough tier; the result does
    // not depend on the chunking (run i always uses mix(seed, i), aggregation is in index order).
    const CHUNK: u64 = 4096;
    let mut base = 0u64;
    while base < runs {
        let len = CHUNK.min(runs - base);
        let outcomes: Vec<(u64, Cfg, Outcome)> = vcommon::parallel_map(len, cli.jobs, |j| {
            let i = base + j;
            let s = vcommon::mix(seed, i);
            let mut cfg = family_cfg(&property, s, i, map_values);
            if let Some(n) = max_steps {
                cfg.max_steps = n;
            }
            let mut o = run_seeded(&cfg);
            // Step lists are kept only where they are needed (violations, sample candidates).
            if o.found.is_empty() && i >= 256 {
                o.steps = Vec::new();
            }
            (s, cfg, o)
        });
        base += len;
        for (s, cfg, o) in &outcomes {
            evaluations += 1;
            for (k, v) in &o.stats.counters {
                *counters.entry(k.clone()).or_insert(0) += v;
            }
            for (k, v) in &o.stats.probes {
                *probes.entry(k.clone()).or_insert(0) += v;
            }
            *families.entry(format!("{}/{}reps", cfg.family, cfg.n_reps)).or_insert(0) += 1;
            histories.insert(o.event_hash);
            steps_total += o.stats.steps;
            max_commands = max_commands.max(o.commands);
            let nt = nontrivial(&cli.property, o);
            if nt {
                distinct_nontrivial.insert(o.event_hash);
            }
            for a in &o.stats.anomalies {
                if anomalies.len() < 12 {
                    anomalies.push(format!("seed {s:#x}: {a}"));
                }
                *counters.entry("anomalies".into()).or_insert(0) += 1;
            }
            let mut had_mine = false;
            for f in &o.found {
                if plan.reports.contains(&f.property.as_str()) {
                    had_mine = true;
                    if violations.len() < 6 && !violations.iter().any(|v| v.sig == f.sig && v.class == f.class) {
                        violations.push(minimise::minimise_and_write(&cli.property, *s, cfg, &o.steps, f));
                    }
                } else {
                    *other.entry(format!("{}:{}", f.class, f.sig)).or_insert(0) += 1;
                }
            }
            if had_mine {
                *counters.entry("violating_runs".into()).or_insert(0) += 1;
            }
            if samples.len() < 2 && nt && !o.steps.is_empty() && o.steps.len() <= 45 && o.found.is_empty() {
                samples.push(json!({"seed": format!("{s:#x}"), "family": cfg.family, "replicas": cfg.n_reps, "steps": o.steps}));
            }
            if fallback_sample.is_none() {
                fallback_sample = Some(json!({"seed": format!("{s:#x}"), "family": cfg.family, "replicas": cfg.n_reps, "steps": o.steps.iter().take(30).collect::<Vec<_>>()}));
            }
        }
    }
    if samples.is_empty() {
        samples.extend(fallback_sample);
    }
    ev.evaluations = evaluations;
    ev.distinct_nontrivial = distinct_nontrivial.len() as u64;
    ev.rule = format!(
        "each evaluation is one seeded simulated run of 1-3 replicas executing the real aranya-runtime ClientState with the real VmPolicy (policy document compiled at start-up by the real parser and compiler): a list of explicit steps (actions with explicit argument values drawn from small alphabets with i64 boundaries, negative ints, empty strings and strings that are prefixes of one another; complete sync sessions between replicas) drawn from PRNG streams derived from mix(seed, run index), checked step by step against a model fact store. A run counts as non-trivial when: {}. Distinct = distinct event-log hash (every step, outcome, sink transcript, head count, final fact dump).",
        plan.nontrivial
    );
    ev.samples = samples;
    ev.violations = violations.len() as u64;
    let pick = |prefix: &str| -> BTreeMap<String, u64> { counters.iter().filter(|(k, _)| k.starts_with(prefix)).map(|(k, v)| (k[prefix.len()..].to_string(), *v)).collect() };
    let c = |k: &str| counters.get(k).copied().unwrap_or(0);
    ev.set("queries_evaluated", json!(pick("query.")));
    ev.set("actions_by_kind", json!(pick("act.")));
    ev.set("fact_writes", json!(pick("fact_writes.")));
    ev.set("failed_actions_by_kind_and_accepted_commands_before_failure", json!(pick("fail.")));
    ev.set("rejected_commands", json!(c("rejected_commands")));
    ev.set("multi_head_actions", json!({"total": c("multi_head_actions"), "succeeded": c("multi_head_actions_ok"), "failed": c("multi_head_actions_failed"), "failed_after_publish": c("multi_head_failed_after_publish")}));
    ev.set("syncs", json!(c("syncs")));
    ev.set("merges", json!({"by_collapse_in_action": c("merges_by_collapse"), "syncs_leaving_multi_head": c("syncs_leaving_multi_head")}));
    ev.set("faults_fired", json!({"none": 0, "note": "this engine injects no faults; failures are policy outcomes (check, test_fail, Err) chosen by the workload"}));
    ev.set("probes", json!(probes));
    ev.set("counters", json!(counters));
    ev.set("families", json!(families));
    ev.set("distinct_histories", json!(histories.len()));
    ev.set("distinct_measure", json!("FNV hash of the per-run event log"));
    ev.set("sim_steps", json!(steps_total));
    ev.set("largest_graph_commands", json!(max_commands));
    ev.set("map_actions_with_bound_value_fields_generated", json!(map_values));
    ev.set("anomalies_outside_claimed_properties", json!(anomalies));
    ev.set("other_property_findings_not_reported_by_this_check", json!(other));
    ev.set("policy_document", json!({"lines": policy::document().lines().count(), "fact_schemas": policy::FACTS.iter().map(|d| d.name).collect::<Vec<_>>(), "reporter_shapes": policy::REPORTS.len(), "map_shapes": policy::MAPS.len(), "print": "vmsim --print-policy"}));
    ev.set(
        "components",
        json!({
            "real": ["aranya-policy-lang parser", "aranya-policy-compiler", "aranya-policy-vm Machine", "aranya-runtime VmPolicy (call_action, call_rule, VmPolicyIO, key/value serialisation)", "aranya-runtime ClientState::action / transaction / commit / braid", "linear storage with the in-memory IoManager of the testing module (fact indexes, compaction)", "SyncRequester / SyncResponder"],
            "stub": ["network (sync messages are moved by the harness, no faults)", "effect sink (recording sink: begin / consume / commit / rollback transcript)", "envelope FFI (TestFfiEnvelope: hash-based command ids, no signatures)", "crypto randomness (seeded Csprng for DefaultEngine::from_entropy, DeviceId and sync session ids)", "spill (MemSpill)"],
        }),
    );
    ev.assumptions = vec![
        "the quantifier 'any stored facts / all fact schemas' is covered by the fixed schema family A[k int], B[k int, s string], C[s string, k int, b bool], E[e enum Color, k int] only".into(),
        "multi-replica expectation: writers on different replicas touch disjoint full keys (one owner key field per schema is drawn from the acting replica's own alphabet) and every mutator reads only the key it writes, so the committed state after any merge is the union of the per-writer histories the replica holds; reporters and map read across writers".into(),
        "stored keys are decoded by the harness's own reader of the documented order-preserving key encoding (length-prefixed field name, type tag, sign-flipped big-endian ints); a change of that encoding needs the reader updated".into(),
        "an action that publishes no command is left undefined by the statement: either outcome is accepted, nothing may change".into(),
        "count limit 0 is refused by the compiler, so limits are 1, 2, 3 and 1000".into(),
        "a clean batch is evidence, not proof: the search is sampled".into(),
    ];
    ev.write(&cli.evidence_path());
    let code = vcommon::report(&cli.property, &violations);
    println!(
        "{}: {} runs, {} steps, {} distinct histories, {} non-trivial, {} violations, {} anomalies",
        cli.property,
        evaluations,
        steps_total,
        histories.len(),
        distinct_nontrivial.len(),
        violations.len(),
        c("anomalies")
    );
    std::process::exit(code);
}

fn replay_file(cli: &Cli, path: &std::path::Path) -> i32 {
    let text = std::fs::read_to_string(path).unwrap_or_else(|e| vcommon::harness_error(&format!("cannot read replay {}: {e}", path.display())));
    let rf: ReplayFile = serde_json::from_str(&text).unwrap_or_else(|e| vcommon::harness_error(&format!("bad replay file: {e}")));
    let o = generate::replay(&rf.cfg, &rf.steps);
    let hit = o.found.iter().find(|f| f.class == rf.violation.class && f.sig == rf.violation.sig);
    match hit {
        Some(f) => {
            let v = Violation { property: rf.property.clone(), class: f.class.clone(), sig: f.sig.clone(), detail: f.detail.clone(), seed: rf.seed, replay: path.to_path_buf() };
            println!("replay reproduces: {} at step {}", f.class, f.step);
            vcommon::report(&cli.property, &[v])
        }
        None => {
            println!("replay did not reproduce {} (found: {:?})", rf.violation.class, o.found.iter().map(|f| &f.class).collect::<Vec<_>>());
            0
        }
    }
}

/// Determinism audit: N seeds, each executed twice on different worker layouts; event-log hashes
/// must agree. Exit 2 on mismatch.
fn audit(cli: &Cli, map_values: bool) -> i32 {
    let n = cli.extra.get("runs").and_then(|s| s.parse().ok()).unwrap_or(200u64);
    let seed = cli.seed;
    let property = cli.property.clone();
    let one = |jobs: usize| -> Vec<(u64, usize, u64)> {
        vcommon::parallel_map(n, jobs, |i| {
            let s = vcommon::mix(seed, i);
            let cfg = family_cfg(&property, s, i, map_values);
            let o = run_seeded(&cfg);
            // The explicit step list must give the same log as the seeded run.
            let again = generate::replay(&cfg, &o.steps);
            (o.event_hash, o.found.len(), again.event_hash)
        })
    };
    let a = one(cli.jobs);
    let digest = |v: &[(u64, usize, u64)]| {
        let mut h = Vec::new();
        for x in v {
            h.extend_from_slice(&x.0.to_le_bytes());
            h.extend_from_slice(&(x.1 as u64).to_le_bytes());
        }
        vcommon::fnv(&h)
    };
    if cli.extra.contains_key("audit-child") {
        // Second execution, in a separate process with another worker count.
        println!("audit-digest {:016x}", digest(&a));
        return 0;
    }
    let b = one((cli.jobs / 3).max(1));
    for (x, y) in a.iter().zip(b.iter()) {
        if x != y || x.0 != x.2 {
            eprintln!("HARNESS-ERROR: nondeterminism detected: {x:?} vs {y:?}");
            return 2;
        }
    }
    let exe = std::env::current_exe().unwrap_or_else(|e| vcommon::harness_error(&format!("current_exe: {e}")));
    let child = std::process::Command::new(exe)
        .args(["--property", &cli.property, "--audit", "--audit-child", "1", "--runs", &n.to_string(), "--seed", &seed.to_string(), "--jobs", &(cli.jobs / 2).max(1).to_string(), "--map-values", if map_values { "on" } else { "off" }])
        .output()
        .unwrap_or_else(|e| vcommon::harness_error(&format!("cannot start the audit child process: {e}")));
    let want = format!("audit-digest {:016x}", digest(&a));
    if !String::from_utf8_lossy(&child.stdout).contains(&want) {
        eprintln!("HARNESS-ERROR: nondeterminism detected across processes: parent {want}, child printed {:?}", String::from_utf8_lossy(&child.stdout));
        return 2;
    }
    println!("audit ok: {n} seeds x 3 executions (two worker counts in this process, one in a separate process) + replay of each explicit step list: identical; digest {:016x}", digest(&a));
    0
}
