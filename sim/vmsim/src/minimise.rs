//! Delta-debugging over the explicit step list (DESIGN 3.6).

use vcommon::Violation;

use crate::{
    ReplayFile,
    generate::replay,
    model::Act,
    policy,
    sim::{Cfg, Found, Step},
};

fn fails(cfg: &Cfg, steps: &[Step], class: &str, sig: &str) -> Option<Found> {
    replay(cfg, steps).found.into_iter().find(|f| f.class == class && f.sig == sig)
}

fn simplify(step: &Step) -> Vec<Step> {
    let mut out = Vec::new();
    if let Step::Act { r, act: Act::Multi { fallible, n, af, v, steps } } = step {
        if *n > 1 {
            // Drop the last slot.
            out.push(Step::Act { r: *r, act: Act::Multi { fallible: *fallible, n: n - 1, af: (*af).min(*n as i64 - 1), v: *v, steps: *steps } });
        }
        if *af >= 0 {
            out.push(Step::Act { r: *r, act: Act::Multi { fallible: *fallible, n: *n, af: -1, v: *v, steps: *steps } });
        }
        for i in 0..*n {
            if steps[i].1 != policy::MODE_UPSERT {
                let mut s = *steps;
                s[i].1 = policy::MODE_UPSERT;
                out.push(Step::Act { r: *r, act: Act::Multi { fallible: *fallible, n: *n, af: *af, v: *v, steps: s } });
            }
        }
        if *fallible {
            out.push(Step::Act { r: *r, act: Act::Multi { fallible: false, n: *n, af: *af, v: *v, steps: *steps } });
        }
    }
    out
}

pub fn minimise(cfg: &Cfg, steps: &[Step], class: &str, sig: &str) -> (Cfg, Vec<Step>, Found) {
    let mut cfg = cfg.clone();
    let mut cur: Vec<Step> = steps.to_vec();
    let mut found = fails(&cfg, &cur, class, sig).expect("violation reproduces from its explicit step list");
    // Cut everything after the violating step.
    if found.step < cur.len() {
        let cut = cur[..found.step].to_vec();
        if let Some(f) = fails(&cfg, &cut, class, sig) {
            cur = cut;
            found = f;
        }
    }
    let mut budget = 600usize;
    let mut chunk = (cur.len() / 2).max(1);
    loop {
        let mut i = 0;
        let mut removed_any = false;
        while i < cur.len() && budget > 0 {
            let end = (i + chunk).min(cur.len());
            let mut cand = cur[..i].to_vec();
            cand.extend_from_slice(&cur[end..]);
            budget -= 1;
            if let Some(f) = fails(&cfg, &cand, class, sig) {
                cur = cand;
                found = f;
                removed_any = true;
            } else {
                i = end;
            }
        }
        if budget == 0 || (chunk == 1 && !removed_any) {
            break;
        }
        chunk = (chunk / 2).max(1);
    }
    // Per-step simplification.
    let mut progress = true;
    while progress && budget > 0 {
        progress = false;
        for i in 0..cur.len() {
            for alt in simplify(&cur[i]) {
                if budget == 0 {
                    break;
                }
                budget -= 1;
                let mut cand = cur.clone();
                cand[i] = alt;
                if let Some(f) = fails(&cfg, &cand, class, sig) {
                    cur = cand;
                    found = f;
                    progress = true;
                    break;
                }
            }
        }
    }
    // Fewer replicas when the tail ones are unused.
    while cfg.n_reps > 1 {
        let top = cfg.n_reps - 1;
        let used = cur.iter().any(|s| match s {
            Step::Act { r, .. } => *r == top,
            Step::Sync { a, b } => *a == top || *b == top,
        });
        if used {
            break;
        }
        let mut c = cfg.clone();
        c.n_reps -= 1;
        match fails(&c, &cur, class, sig) {
            Some(f) => {
                cfg = c;
                found = f;
            }
            None => break,
        }
    }
    (cfg, cur, found)
}

pub fn minimise_and_write(property: &str, seed: u64, cfg: &Cfg, steps: &[Step], found: &Found) -> Violation {
    if fails(cfg, steps, &found.class, &found.sig).is_none() {
        vcommon::harness_error(&format!("violation {} of seed {seed:#x} does not reproduce from its explicit step list (nondeterminism)", found.class));
    }
    let no_min = std::env::args().any(|a| a == "--no-minimise");
    let (min_cfg, min_steps, f) = if no_min { (cfg.clone(), steps.to_vec(), found.clone()) } else { minimise(cfg, steps, &found.class, &found.sig) };
    let rf = ReplayFile { engine: "vmsim".into(), property: property.to_string(), seed, cfg: min_cfg, steps: min_steps, violation: f.clone(), minimised_from: steps.len() };
    let tag = f.sig.chars().filter(|c| c.is_ascii_alphanumeric() || *c == '-').take(40).collect::<String>();
    let path = if std::env::var_os("VERIF_MUTANT").is_some() {
        // Sensitivity runs against a patched copy of the repository keep their replays apart.
        let dir = std::env::temp_dir().join("vmsim-mutant-replays");
        let _ = std::fs::create_dir_all(&dir);
        dir.join(format!("{property}-{seed:016x}-{tag}.json"))
    } else {
        vcommon::replay_path(property, seed, &tag)
    };
    std::fs::write(&path, serde_json::to_string_pretty(&rf).expect("replay serialises")).unwrap_or_else(|e| vcommon::harness_error(&format!("cannot write replay: {e}")));
    // Confirm in a fresh process.
    let exe = std::env::current_exe().unwrap_or_else(|e| vcommon::harness_error(&format!("current_exe: {e}")));
    let out = std::process::Command::new(exe).args(["--property", property, "--replay"]).arg(&path).output();
    match out {
        Ok(o) if String::from_utf8_lossy(&o.stdout).contains("replay reproduces") => {}
        Ok(o) => vcommon::harness_error(&format!("replay {} does not reproduce in a fresh process: {}", path.display(), String::from_utf8_lossy(&o.stdout))),
        Err(e) => vcommon::harness_error(&format!("cannot re-run replay: {e}")),
    }
    Violation { property: property.to_string(), class: f.class, sig: f.sig, detail: f.detail, seed, replay: path }
}
