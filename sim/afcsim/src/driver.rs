//! Batch driver for the shuttle based checks (C40-C44): units in parallel,
//! evidence, minimisation, replay files, replay, determinism hashes.

use std::{
    collections::{BTreeMap, BTreeSet},
    path::{Path, PathBuf},
    sync::Arc,
};

use serde_json::{Value, json};
use vcommon::{Cli, Evidence, Rng, Tier, Violation};

use crate::{
    keys::{self, ChanKeys},
    sim::{self, Failure, Faults, SchedKind, UnitOutcome, Workload},
};

pub type Keys = Arc<Vec<ChanKeys>>;

pub trait Check: Sync {
    fn id(&self) -> &'static str;
    /// Draws the workload parameters of one unit.
    fn params(&self, rng: &mut Rng, tier: Tier, fault_free: bool) -> Value;
    /// Strictly smaller parameter sets (one dimension reduced by one step).
    fn shrink(&self, p: &Value) -> Vec<Value>;
    /// The closure run once per execution inside shuttle.
    fn workload(&self, p: &Value, keys: Keys) -> Workload;
    fn rule(&self) -> String;
    fn components(&self) -> Value;
    fn assumptions(&self) -> Vec<String>;
    /// (units, executions per unit).
    fn budget(&self, tier: Tier) -> (u64, usize) {
        match tier {
            Tier::Quick => (1600, 300),
            Tier::Thorough => (8000, 300),
        }
    }
}

/// Called at the start of an execution (inside shuttle): swarm-style draw
/// of the fault family for this execution from shuttle's recorded
/// randomness. 1/4 none, 1/4 spurious wake-ups, 1/4 EINTR, 1/4 both.
pub fn draw_faults(fault_free: bool) {
    let fam = if fault_free { 0 } else { sim::rand_below(4) };
    let f = match fam {
        0 => Faults::default(),
        1 => Faults { spurious_p16: 65536 / 6, eintr_p16: 0 },
        2 => Faults { spurious_p16: 0, eintr_p16: 65536 / 3 },
        _ => Faults { spurious_p16: 65536 / 8, eintr_p16: 65536 / 4 },
    };
    sim::with_ctx(|c| c.faults = f);
    sim::count(match fam {
        0 => "family.fault_free",
        1 => "family.spurious",
        2 => "family.eintr",
        _ => "family.both",
    });
}

fn kind_for(i: u64, tier: Tier) -> SchedKind {
    match tier {
        // half random, half PCT (depth 2 and 3)
        Tier::Quick => match i % 4 {
            0 | 1 => SchedKind::Random,
            2 => SchedKind::Pct(2),
            _ => SchedKind::Pct(3),
        },
        // PCT depth sweep 1..=6
        Tier::Thorough => match i % 10 {
            0..=3 => SchedKind::Random,
            k => SchedKind::Pct((k - 3) as usize),
        },
    }
}

struct UnitRun {
    index: u64,
    seed: u64,
    kind: SchedKind,
    params: Value,
    out: UnitOutcome,
}

fn run_one(check: &dyn Check, cli: &Cli, keys: &Keys, i: u64, iters: usize, keep_logs: bool) -> UnitRun {
    let seed = vcommon::mix(cli.seed, i);
    let kind = kind_for(i, cli.tier);
    let mut prng = Rng::derive(seed, "params");
    let params = check.params(&mut prng, cli.tier, cli.has_flag("fault-free"));
    let out = sim::run_unit(kind, seed, iters, keep_logs, check.workload(&params, Arc::clone(keys)));
    UnitRun { index: i, seed, kind, params, out }
}

fn unit_to_json(u: &UnitRun) -> Value {
    json!({
        "index": u.index,
        "seed": u.seed,
        "kind": u.kind.name(),
        "params": u.params,
        // compact: 16 hex (schedule hash) + 16 hex (log hash) + n|t + 6 hex (steps)
        "execs": u.out.execs.iter().map(|e| format!("{:016x}{:016x}{}{:06x}", e.sched_hash, e.log_hash, if e.nontrivial { 't' } else { 'n' }, e.steps.min(0xff_ffff))).collect::<String>(),
        "counters": u.out.counters,
        "points": u.out.points,
        "sample": u.out.sample,
        "failures": u.out.failures.iter().map(|f| json!({
            "class": f.found.class, "sig": f.found.sig, "detail": f.found.detail,
            "exec_index": f.exec_index, "schedule": f.schedule, "log": f.log,
        })).collect::<Vec<_>>(),
    })
}

fn unit_from_json(v: &Value) -> Option<UnitRun> {
    let strs = |x: &Value| -> Vec<String> { x.as_array().map(|a| a.iter().filter_map(|s| s.as_str().map(str::to_string)).collect()).unwrap_or_default() };
    let mut out = UnitOutcome::default();
    let ex = v["execs"].as_str()?.as_bytes();
    if ex.len() % 39 != 0 {
        return None;
    }
    for c in ex.chunks(39) {
        let c = std::str::from_utf8(c).ok()?;
        out.execs.push(sim::ExecRecord {
            sched_hash: u64::from_str_radix(&c[0..16], 16).ok()?,
            log_hash: u64::from_str_radix(&c[16..32], 16).ok()?,
            nontrivial: &c[32..33] == "t",
            steps: u64::from_str_radix(&c[33..39], 16).ok()?,
        });
    }
    for (k, n) in v["counters"].as_object()? {
        out.counters.insert(k.clone(), n.as_u64()?);
    }
    out.points = v["points"].as_u64()?;
    out.sample = strs(&v["sample"]);
    for f in v["failures"].as_array()? {
        out.failures.push(Failure {
            found: sim::Found {
                class: f["class"].as_str()?.to_string(),
                sig: f["sig"].as_str()?.to_string(),
                detail: f["detail"].as_str()?.to_string(),
            },
            exec_index: f["exec_index"].as_u64()?,
            schedule: f["schedule"].as_str()?.to_string(),
            log: strs(&f["log"]),
        });
    }
    Some(UnitRun {
        index: v["index"].as_u64()?,
        seed: v["seed"].as_u64()?,
        kind: SchedKind::parse(v["kind"].as_str()?)?,
        params: v["params"].clone(),
        out,
    })
}

/// Runs units `0..n`. With more than one job the units are dealt to worker
/// PROCESSES (`--worker k/W`), not threads: every execution maps and unmaps
/// shared memory and coroutine stacks, and threads of one process serialise
/// on the address-space lock. Results come back as one JSON line per unit
/// and are put in index order, so nothing depends on timing.
/// A worker process that died (signal / abort) while running a unit: the
/// code under test corrupted memory or aborted. Reported as a violation.
struct Crash {
    unit: u64,
    status: String,
    stderr_tail: String,
    skipped: u64,
    /// The dead process ran units `k, k+of, k+2*of, ...` up to `unit`
    /// (heap corruption may stem from an earlier unit of the same process).
    k: u64,
    of: u64,
}

fn worker_cmd(check_id: &str, cli: &Cli, n: u64, iters: usize, k: u64, of: u64) -> std::process::Command {
    let exe = std::env::current_exe().unwrap_or_else(|e| vcommon::harness_error(&format!("current_exe: {e}")));
    let mut cmd = std::process::Command::new(exe);
    cmd.args(["--property", check_id, "--tier", cli.tier.as_str(), "--seed", &format!("{:#x}", cli.seed)])
        .args(["--jobs", "1", "--units", &n.to_string(), "--iters", &iters.to_string()])
        .args(["--worker", &format!("{k}/{of}")])
        .env_remove("SHUTTLE_RANDOM_SEED");
    if cli.has_flag("fault-free") {
        cmd.arg("--fault-free");
    }
    cmd
}

fn run_units(check: &dyn Check, cli: &Cli, keys: &Keys, n: u64, iters: usize) -> (Vec<UnitRun>, Vec<Crash>) {
    let workers = (cli.jobs as u64).min(n).max(1);
    let _ = keys; // the workers derive the same key pool from the batch seed
    let mut children = Vec::new();
    for k in 0..workers {
        let mut cmd = worker_cmd(check.id(), cli, n, iters, k, workers);
        cmd.stdout(std::process::Stdio::piped()).stderr(std::process::Stdio::piped());
        children.push(cmd.spawn().unwrap_or_else(|e| vcommon::harness_error(&format!("cannot spawn worker: {e}"))));
    }
    let mut runs: Vec<UnitRun> = Vec::new();
    let mut crashes: Vec<Crash> = Vec::new();
    let outputs: Vec<std::process::Output> = std::thread::scope(|s| {
        let hs: Vec<_> = children.into_iter().map(|c| s.spawn(move || c.wait_with_output())).collect();
        hs.into_iter()
            .map(|h| match h.join() {
                Ok(Ok(o)) => o,
                _ => vcommon::harness_error("worker process could not be collected"),
            })
            .collect()
    });
    let mut skipped_total = 0;
    for (k, o) in outputs.into_iter().enumerate() {
        let mut got: Vec<u64> = Vec::new();
        for line in String::from_utf8_lossy(&o.stdout).lines() {
            if let Some(j) = line.strip_prefix("UNITJSON ") {
                // a line cut short by a crash is not a unit
                let Ok(v) = serde_json::from_str::<Value>(j) else { continue };
                let Some(u) = unit_from_json(&v) else { continue };
                got.push(u.index);
                runs.push(u);
            }
        }
        if !o.status.success() {
            let err = String::from_utf8_lossy(&o.stderr);
            // An orderly exit 2 is a harness error of the worker, not a crash.
            if o.status.code() == Some(2) {
                let msg = err.lines().rev().find(|l| l.contains("HARNESS-ERROR")).unwrap_or("worker exited with 2");
                vcommon::harness_error(&format!("worker {k}: {msg}"));
            }
            let mine: Vec<u64> = (k as u64..n).step_by(workers as usize).collect();
            let unit = mine.iter().copied().find(|i| !got.contains(i)).unwrap_or(k as u64);
            let skipped = mine.iter().filter(|i| **i > unit).count() as u64;
            skipped_total += skipped + 1;
            let tail: Vec<&str> = err.lines().filter(|l| !l.is_empty()).collect();
            let tail = tail[tail.len().saturating_sub(4)..].join(" | ");
            crashes.push(Crash { unit, status: format!("{}", o.status), stderr_tail: tail.chars().take(400).collect(), skipped, k: k as u64, of: workers });
        }
    }
    runs.sort_by_key(|r| r.index);
    if runs.len() as u64 + skipped_total != n {
        vcommon::harness_error(&format!("workers returned {} of {} units", runs.len(), n));
    }
    (runs, crashes)
}

fn unit_hash(u: &UnitRun) -> u64 {
    let mut s = String::new();
    for e in &u.out.execs {
        s.push_str(&format!("{:x}.{:x}.{}.{};", e.sched_hash, e.log_hash, e.nontrivial, e.steps));
    }
    for (k, v) in &u.out.counters {
        s.push_str(&format!("{k}={v};"));
    }
    for f in &u.out.failures {
        s.push_str(&format!("F{}:{}:{};", f.exec_index, f.found.class, f.schedule));
    }
    vcommon::fnv(s.as_bytes())
}

fn extra_u64(cli: &Cli, key: &str) -> Option<u64> {
    cli.extra.get(key).and_then(|v| vcommon::parse_u64(v))
}

pub fn key_pool(cli: &Cli) -> Keys {
    Arc::new(keys::derive_channels(cli.seed, 8))
}

/// Entry point for C40-C44.
pub fn run(check: &dyn Check, cli: &Cli) -> i32 {
    if let Some(file) = &cli.replay {
        return replay(check, cli, file);
    }
    let keys = key_pool(cli);
    let (mut units, mut iters) = check.budget(cli.tier);
    if let Some(u) = extra_u64(cli, "units") {
        units = u;
    }
    if let Some(n) = extra_u64(cli, "iters") {
        iters = n as usize;
    }

    // Worker process: run my share of the units, one JSON line each.
    if let Some(w) = cli.extra.get("worker") {
        let (k, of) = w.split_once('/').and_then(|(a, b)| Some((a.parse::<u64>().ok()?, b.parse::<u64>().ok()?))).unwrap_or_else(|| vcommon::harness_error("bad --worker"));
        let mut i = k;
        while i < units {
            let r = run_one(check, cli, &keys, i, iters, false);
            println!("UNITJSON {}", unit_to_json(&r));
            i += of.max(1);
        }
        return 0;
    }

    // Failure-analysis process: confirm, minimise, write the replay file.
    if let Some(spec) = cli.extra.get("analyse") {
        let text = std::fs::read_to_string(spec).unwrap_or_else(|e| vcommon::harness_error(&format!("cannot read {spec}: {e}")));
        let v: Value = serde_json::from_str(&text).unwrap_or_else(|e| vcommon::harness_error(&format!("bad analyse spec: {e}")));
        let r = unit_from_json(&v["unit"]).unwrap_or_else(|| vcommon::harness_error("bad analyse spec (unit)"));
        let idx = v["failure"].as_u64().unwrap_or(0) as usize;
        let f = r.out.failures.get(idx).cloned().unwrap_or_else(|| vcommon::harness_error("bad analyse spec (failure)"));
        let viol = process_failure(check, cli, &keys, &r, &f, iters);
        println!(
            "VIOLJSON {}",
            json!({"class": viol.class, "sig": viol.sig, "detail": viol.detail, "seed": viol.seed, "replay": viol.replay.display().to_string()})
        );
        return 0;
    }

    // Child mode of the determinism audit: print per-unit hashes only.
    if let Some(n) = extra_u64(cli, "hash-units") {
        let (runs, crashes) = run_units(check, cli, &keys, n, iters);
        if !crashes.is_empty() {
            vcommon::harness_error("a worker process crashed during the determinism audit");
        }
        for r in &runs {
            println!("UNIT {} {:016x} execs={}", r.index, unit_hash(r), r.out.execs.len());
        }
        return 0;
    }

    let mut ev = Evidence::new(cli, "exploration");
    let (runs, crashes) = run_units(check, cli, &keys, units, iters);

    // ---- aggregate
    let mut sched_hashes = BTreeSet::new();
    let mut nontrivial_hist = BTreeSet::new();
    let mut all_hist = BTreeSet::new();
    let mut counters: BTreeMap<String, u64> = BTreeMap::new();
    let mut by_kind: BTreeMap<String, u64> = BTreeMap::new();
    let (mut execs, mut steps, mut points, mut nontrivial_total) = (0u64, 0u64, 0u64, 0u64);
    for r in &runs {
        *by_kind.entry(r.kind.name()).or_insert(0) += r.out.execs.len() as u64;
        for e in &r.out.execs {
            execs += 1;
            steps += e.steps;
            sched_hashes.insert(e.sched_hash);
            all_hist.insert(e.log_hash);
            if e.nontrivial {
                nontrivial_total += 1;
                nontrivial_hist.insert(e.log_hash);
            }
        }
        points += r.out.points;
        for (k, v) in &r.out.counters {
            *counters.entry(k.clone()).or_insert(0) += v;
        }
    }
    ev.evaluations = execs;
    ev.distinct_nontrivial = nontrivial_hist.len() as u64;
    ev.rule = check.rule();
    ev.assumptions = check.assumptions();
    let mut faults = serde_json::Map::new();
    let mut probes = serde_json::Map::new();
    for (k, v) in &counters {
        if k.starts_with("fault.") || k.starts_with("family.") {
            faults.insert(k.clone(), json!(v));
        } else {
            probes.insert(k.clone(), json!(v));
        }
    }
    ev.set("faults_fired", Value::Object(faults));
    ev.set("probes", Value::Object(probes));
    ev.set("sim_steps", json!(steps));
    ev.set("hook_points_executed", json!(points));
    ev.set(
        "distinct_schedules",
        json!({"count": sched_hashes.len(), "measure": "FNV-1a over shuttle's schedule (sequence of scheduled task ids and random draws) of each execution"}),
    );
    ev.set(
        "distinct_histories",
        json!({"count": all_hist.len(), "nontrivial_executions": nontrivial_total, "measure": "FNV chain over the execution's event log (operations, outcomes, global order)"}),
    );
    ev.set("executions_by_scheduler", json!(by_kind));
    ev.set("units", json!({"count": units, "executions_per_unit": iters, "max_steps_per_execution": sim::MAX_STEPS}));
    ev.set("components", check.components());
    // samples: the first execution of the first units whose first execution
    // was non-trivial (falling back to unit 0), one per scheduler kind
    let mut sampled: BTreeSet<String> = BTreeSet::new();
    for r in &runs {
        if ev.samples.len() >= 3 {
            break;
        }
        let nontrivial = r.out.execs.first().is_some_and(|e| e.nontrivial);
        if nontrivial && !r.out.sample.is_empty() && sampled.insert(r.kind.name()) {
            ev.samples.push(json!({"unit": r.index, "unit_seed": format!("{:#x}", r.seed), "scheduler": r.kind.name(), "params": r.params, "execution": 0, "event_log": r.out.sample}));
        }
    }
    if ev.samples.is_empty() {
        if let Some(r) = runs.first() {
            ev.samples.push(json!({"unit": 0, "unit_seed": format!("{:#x}", r.seed), "scheduler": r.kind.name(), "params": r.params, "execution": 0, "event_log": r.out.sample}));
        }
    }
    ev.set(
        "anomalies",
        json!({"count": 0, "note": "every library call in these workloads has its outcome defined by the property being checked, so a panic or an unexpected error is a violation, not an anomaly; hangs (deadlock, step bound) are reported as violations of the property being checked"}),
    );

    // ---- failures: first of each (class, sig), at most 3
    let mut seen: BTreeSet<(String, String)> = BTreeSet::new();
    let mut violations: Vec<Violation> = Vec::new();
    let mut total_fail = 0u64;
    for r in &runs {
        for f in &r.out.failures {
            total_fail += 1;
            let key = (f.found.class.clone(), f.found.sig.clone());
            if seen.contains(&key) || seen.len() >= 3 {
                continue;
            }
            seen.insert(key);
            violations.push(analyse_in_child(check, cli, r, f, units, iters));
        }
    }
    // ---- worker processes killed by the code under test
    for c in crashes.iter().take(2) {
        total_fail += 1;
        violations.push(process_crash(check, cli, c, units, iters));
    }
    if !crashes.is_empty() {
        ev.set("crashed_units", json!(crashes.iter().map(|c| json!({"unit": c.unit, "status": c.status, "units_not_run_after_it": c.skipped})).collect::<Vec<_>>()));
    }
    ev.violations = total_fail;
    ev.set("failing_executions", json!(total_fail));
    if let Some(v) = violations.first() {
        // A failing execution is the most instructive sample.
        if let Ok(t) = std::fs::read_to_string(&v.replay) {
            if let Ok(j) = serde_json::from_str::<Value>(&t) {
                ev.samples.push(json!({"failing_replay": j}));
            }
        }
    }
    ev.write(&cli.evidence_path());
    let code = vcommon::report(check.id(), &violations);
    println!(
        "{} {}: {} executions in {} units, {} distinct schedules, {} distinct non-trivial histories, {} failing, {:.1}s",
        check.id(),
        cli.tier.as_str(),
        execs,
        units,
        sched_hashes.len(),
        nontrivial_hist.len(),
        total_fail,
        ev.start.elapsed().as_secs_f64()
    );
    code
}

fn class_of(check: &dyn Check, f: &Failure) -> String {
    // Hangs are reported under the property being checked.
    if f.found.class == "deadlock" || f.found.class == "step-bound" || f.found.class == "library-panic" {
        format!("{}.{}", check.id(), f.found.class)
    } else {
        f.found.class.clone()
    }
}

fn find_same<'a>(out: &'a UnitOutcome, class: &str) -> Option<&'a Failure> {
    out.failures.iter().find(|f| f.found.class == class)
}

/// Runs `process_failure` in a child process: it re-executes the code under
/// test, which - being faulty - may corrupt memory; the parent must survive
/// to report. A child that dies is reported as a crash of that unit.
fn analyse_in_child(check: &dyn Check, cli: &Cli, r: &UnitRun, f: &Failure, units: u64, iters: usize) -> Violation {
    let idx = r.out.failures.iter().position(|g| g.exec_index == f.exec_index && g.found.class == f.found.class).unwrap_or(0);
    let spec = std::env::temp_dir().join(format!("afcsim-analyse-{}-{}-{}.json", std::process::id(), r.index, f.exec_index));
    let doc = json!({"unit": unit_to_json(r), "failure": idx});
    if let Err(e) = std::fs::write(&spec, doc.to_string()) {
        vcommon::harness_error(&format!("cannot write {}: {e}", spec.display()));
    }
    let exe = std::env::current_exe().unwrap_or_else(|e| vcommon::harness_error(&format!("current_exe: {e}")));
    let mut cmd = std::process::Command::new(exe);
    cmd.args(["--property", check.id(), "--tier", cli.tier.as_str(), "--seed", &format!("{:#x}", cli.seed)])
        .args(["--jobs", "1", "--iters", &iters.to_string(), "--analyse"])
        .arg(&spec)
        .env_remove("SHUTTLE_RANDOM_SEED");
    for fl in ["fault-free", "no-minimise"] {
        if cli.has_flag(fl) {
            cmd.arg(format!("--{fl}"));
        }
    }
    let out = cmd.output().unwrap_or_else(|e| vcommon::harness_error(&format!("cannot spawn analysis process: {e}")));
    let _ = std::fs::remove_file(&spec);
    let text = String::from_utf8_lossy(&out.stdout);
    if out.status.success() {
        if let Some(j) = text.lines().find_map(|l| l.strip_prefix("VIOLJSON ")) {
            if let Ok(v) = serde_json::from_str::<Value>(j) {
                return Violation {
                    property: check.id().to_string(),
                    class: v["class"].as_str().unwrap_or("").to_string(),
                    sig: v["sig"].as_str().unwrap_or("").to_string(),
                    detail: v["detail"].as_str().unwrap_or("").to_string(),
                    seed: v["seed"].as_u64().unwrap_or(r.seed),
                    replay: PathBuf::from(v["replay"].as_str().unwrap_or("")),
                };
            }
        }
        vcommon::harness_error("analysis process produced no result");
    }
    if out.status.code() == Some(2) {
        let err = String::from_utf8_lossy(&out.stderr);
        let msg = err.lines().rev().find(|l| l.contains("HARNESS-ERROR")).unwrap_or("analysis process exited with 2");
        vcommon::harness_error(msg);
    }
    // The analysis process died (the faulty code corrupted memory while it
    // was re-executed). Report what the search process itself observed,
    // with its schedule, unminimised and unconfirmed.
    let err = String::from_utf8_lossy(&out.stderr);
    let tail: Vec<&str> = err.lines().filter(|l| !l.is_empty()).collect();
    let tail: String = tail[tail.len().saturating_sub(2)..].join(" | ").chars().take(300).collect();
    let class = class_of(check, f);
    let tag = class.rsplit('.').next().unwrap_or("v").to_string();
    let path = vcommon::replay_path(check.id(), r.seed, &tag);
    let sched_path = path.with_extension("schedule");
    let doc = json!({
        "engine": "afcsim",
        "property": check.id(),
        "seed": format!("{:#x}", r.seed),
        "batch_seed": format!("{:#x}", cli.seed),
        "unit": r.index,
        "config": {"scheduler": r.kind.name(), "executions_per_unit": iters, "max_steps": sim::MAX_STEPS, "tier": cli.tier.as_str(), "units": units},
        "params": r.params,
        "original_params": r.params,
        "execution": f.exec_index,
        "schedule": f.schedule,
        "schedule_file": sched_path.display().to_string(),
        "violation": {"class": class, "raw_class": f.found.class, "sig": f.found.sig, "detail": f.found.detail},
        "event_log": f.log,
        "note": format!("NOT minimised and NOT confirmed: the process that re-executed this unit for analysis died ({}; {}), i.e. the code under test also corrupts memory", out.status, tail),
    });
    let _ = std::fs::write(&sched_path, &f.schedule);
    if let Err(e) = std::fs::write(&path, serde_json::to_string_pretty(&doc).expect("json")) {
        vcommon::harness_error(&format!("cannot write {}: {e}", path.display()));
    }
    Violation {
        property: check.id().to_string(),
        class,
        sig: f.found.sig.clone(),
        detail: format!("{} [analysis process died: {}]", f.found.detail, out.status),
        seed: r.seed,
        replay: path,
    }
}

/// Confirms, minimises, writes the replay file, re-runs it in a fresh
/// process, and returns the violation to report.
fn process_failure(check: &dyn Check, cli: &Cli, keys: &Keys, r: &UnitRun, f: &Failure, iters: usize) -> Violation {
    let raw_class = f.found.class.clone();
    // 1. determinism: the same unit fails the same way again (this also
    //    collects the event log, which the search does not keep).
    let again = sim::run_unit(r.kind, r.seed, iters, true, check.workload(&r.params, Arc::clone(keys)));
    let Some(f1) = again.failures.iter().find(|g| g.exec_index == f.exec_index).cloned() else {
        vcommon::harness_error(&format!(
            "nondeterminism: unit {} (seed {:#x}) was reported as {} ({}) in execution {} but not when re-run; either the harness is nondeterministic or the code under test has undefined behaviour",
            r.index, r.seed, raw_class, f.found.detail, f.exec_index
        ));
    };
    if f1.found.class != raw_class || f1.found.sig != f.found.sig || f1.schedule != f.schedule {
        vcommon::harness_error(&format!(
            "nondeterminism: unit {} execution {} was reported as {} ({}) but failed differently when re-run ({}); either the harness is nondeterministic or the code under test has undefined behaviour",
            r.index, f.exec_index, raw_class, f.found.detail, f1.found.class
        ));
    }

    // 2. minimise: shrink the workload, re-search with the same seed.
    let mut cur_params = r.params.clone();
    let mut cur = f1;
    if !cli.has_flag("no-minimise") {
        let mut budget = 40;
        'outer: loop {
            for cand in check.shrink(&cur_params) {
                if budget == 0 {
                    break 'outer;
                }
                budget -= 1;
                // Smaller workloads fail more rarely: search them longer.
                let out = sim::run_unit(r.kind, r.seed, iters * 8, true, check.workload(&cand, Arc::clone(keys)));
                if let Some(g) = find_same(&out, &raw_class) {
                    cur_params = cand;
                    cur = g.clone();
                    continue 'outer;
                }
            }
            break;
        }
    }

    // 3. replay file
    let class = class_of(check, &cur);
    let tag = class.rsplit('.').next().unwrap_or("v").to_string();
    let path = vcommon::replay_path(check.id(), r.seed, &tag);
    let sched_path = path.with_extension("schedule");
    let doc = json!({
        "engine": "afcsim",
        "property": check.id(),
        "seed": format!("{:#x}", r.seed),
        "batch_seed": format!("{:#x}", cli.seed),
        "unit": r.index,
        "config": {
            "scheduler": r.kind.name(),
            "executions_per_unit": iters,
            "max_steps": sim::MAX_STEPS,
            "tier": cli.tier.as_str(),
        },
        "params": cur_params,
        "original_params": r.params,
        "execution": cur.exec_index,
        "schedule": cur.schedule,
        "schedule_file": sched_path.display().to_string(),
        "violation": {"class": class, "raw_class": raw_class, "sig": cur.found.sig, "detail": cur.found.detail},
        "event_log": cur.log,
    });
    if let Err(e) = std::fs::write(&sched_path, &cur.schedule) {
        vcommon::harness_error(&format!("cannot write {}: {e}", sched_path.display()));
    }
    if let Err(e) = std::fs::write(&path, serde_json::to_string_pretty(&doc).expect("json")) {
        vcommon::harness_error(&format!("cannot write {}: {e}", path.display()));
    }

    // 4. it must reproduce from the file, in a fresh process. A failure that was observed but
    // does not replay (code under test that corrupts shared memory is not deterministic) is
    // still a violation; the report says that its replay is unconfirmed.
    let (confirmed, _) = try_confirm_in_fresh_process(check.id(), &path);
    let mut detail = cur.found.detail.clone();
    if !confirmed {
        detail.push_str(" [observed in the batch; its replay file did not reproduce in a fresh process]");
    }

    Violation {
        property: check.id().to_string(),
        class,
        sig: cur.found.sig.clone(),
        detail,
        seed: r.seed,
        replay: path,
    }
}

/// A unit whose worker process died: the replay file names the unit; replaying
/// re-runs exactly that unit in a child process and reports the violation if
/// the child dies again.
fn process_crash(check: &dyn Check, cli: &Cli, c: &Crash, units: u64, iters: usize) -> Violation {
    let seed = vcommon::mix(cli.seed, c.unit);
    let mut prng = Rng::derive(seed, "params");
    let params = check.params(&mut prng, cli.tier, cli.has_flag("fault-free"));
    let class = format!("{}.crash", check.id());
    let sig = format!("crash:{}", c.status.replace(' ', "-"));
    let detail = format!("the process running unit {} died ({}): {}", c.unit, c.status, c.stderr_tail);
    let path = vcommon::replay_path(check.id(), seed, "crash");
    let doc = json!({
        "engine": "afcsim",
        "property": check.id(),
        "mode": "unit-crash",
        "seed": format!("{:#x}", seed),
        "batch_seed": format!("{:#x}", cli.seed),
        "unit": c.unit,
        "config": {
            "scheduler": kind_for(c.unit, cli.tier).name(),
            "executions_per_unit": iters,
            "tier": cli.tier.as_str(),
            "fault_free": cli.has_flag("fault-free"),
            "units": units,
            "worker": format!("{}/{}", c.k, c.of),
        },
        "params": params,
        "violation": {"class": class, "raw_class": "crash", "sig": sig, "detail": detail},
        "note": "not minimised: the process dies before it can report which execution was running; the replay re-runs, in a child process, the units the dead process had run (its slice k, k+of, ... up to this unit; same seeds, same schedulers)",
    });
    if let Err(e) = std::fs::write(&path, serde_json::to_string_pretty(&doc).expect("json")) {
        vcommon::harness_error(&format!("cannot write {}: {e}", path.display()));
    }
    confirm_in_fresh_process(check.id(), &path);
    Violation { property: check.id().to_string(), class, sig, detail, seed, replay: path }
}

fn replay_crash(check: &dyn Check, cli: &Cli, doc: &Value, file: &Path) -> i32 {
    let unit = doc["unit"].as_u64().unwrap_or(0);
    let iters = doc["config"]["executions_per_unit"].as_u64().unwrap_or(1) as usize;
    let mut c2 = cli.clone();
    c2.seed = doc["batch_seed"].as_str().and_then(vcommon::parse_u64).unwrap_or(cli.seed);
    c2.tier = if doc["config"]["tier"] == "thorough" { Tier::Thorough } else { Tier::Quick };
    if doc["config"]["fault_free"].as_bool().unwrap_or(false) && !c2.has_flag("fault-free") {
        c2.flags.push("fault-free".into());
    }
    let (k, of) = doc["config"]["worker"]
        .as_str()
        .and_then(|w| w.split_once('/'))
        .and_then(|(a, b)| Some((a.parse::<u64>().ok()?, b.parse::<u64>().ok()?)))
        .unwrap_or((unit, unit + 1));
    let out = worker_cmd(check.id(), &c2, unit + 1, iters, k, of)
        .output()
        .unwrap_or_else(|e| vcommon::harness_error(&format!("cannot spawn replay child: {e}")));
    if out.status.success() {
        println!("replay {}: the recorded crash no longer reproduces", file.display());
        return 0;
    }
    if out.status.code() == Some(2) {
        vcommon::harness_error("replay child reported a harness error");
    }
    let v = Violation {
        property: check.id().to_string(),
        class: doc["violation"]["class"].as_str().unwrap_or("crash").to_string(),
        sig: doc["violation"]["sig"].as_str().unwrap_or("crash").to_string(),
        detail: format!("the process running unit {unit} died again ({})", out.status),
        seed: doc["seed"].as_str().and_then(vcommon::parse_u64).unwrap_or(0),
        replay: file.to_path_buf(),
    };
    vcommon::report(check.id(), &[v])
}

pub fn confirm_in_fresh_process(property: &str, path: &Path) {
    if !try_confirm_in_fresh_process(property, path).0 {
        let (_, why) = try_confirm_in_fresh_process(property, path);
        vcommon::harness_error(&why);
    }
}

/// Replays `path` in a fresh process; `(confirmed, explanation)`.
pub fn try_confirm_in_fresh_process(property: &str, path: &Path) -> (bool, String) {
    let exe = std::env::current_exe().unwrap_or_else(|e| vcommon::harness_error(&format!("current_exe: {e}")));
    let out = std::process::Command::new(exe)
        .args(["--property", property, "--replay"])
        .arg(path)
        .env_remove("SHUTTLE_RANDOM_SEED")
        .output()
        .unwrap_or_else(|e| vcommon::harness_error(&format!("cannot spawn replay: {e}")));
    let text = String::from_utf8_lossy(&out.stdout);
    if out.status.code() != Some(1) && !text.contains("KNOWN-FINDING") {
        return (
            false,
            format!("replay {} did not reproduce in a fresh process (exit {:?}): {}", path.display(), out.status.code(), text.trim()),
        );
    }
    (true, String::new())
}

fn replay(check: &dyn Check, cli: &Cli, file: &PathBuf) -> i32 {
    let text = std::fs::read_to_string(file).unwrap_or_else(|e| vcommon::harness_error(&format!("cannot read {}: {e}", file.display())));
    let doc: Value = serde_json::from_str(&text).unwrap_or_else(|e| vcommon::harness_error(&format!("bad replay file: {e}")));
    if doc["engine"] != "afcsim" || doc["property"] != check.id() {
        vcommon::harness_error("replay file is for another engine/property");
    }
    if doc["mode"] == "unit-crash" {
        return replay_crash(check, cli, &doc, file);
    }
    let batch_seed = doc["batch_seed"].as_str().and_then(vcommon::parse_u64).unwrap_or(cli.seed);
    let seed = doc["seed"].as_str().and_then(vcommon::parse_u64).unwrap_or(0);
    let keys: Keys = Arc::new(keys::derive_channels(batch_seed, 8));
    let params = doc["params"].clone();
    let schedule = match doc["schedule"].as_str() {
        Some(s) if !s.is_empty() => s.to_string(),
        _ => {
            let p = doc["schedule_file"].as_str().unwrap_or("");
            std::fs::read_to_string(p).unwrap_or_else(|e| vcommon::harness_error(&format!("cannot read schedule file {p}: {e}")))
        }
    };
    let want_raw = doc["violation"]["raw_class"].as_str().unwrap_or("").to_string();
    let out = match sim::replay_schedule(&schedule, check.workload(&params, keys)) {
        Ok(o) => o,
        Err(e) if e.starts_with("replay diverged") => {
            println!("replay {}: the recorded violation no longer reproduces ({})", file.display(), e.lines().next().unwrap_or(""));
            return 0;
        }
        Err(e) => vcommon::harness_error(&e),
    };
    match out.failures.iter().find(|f| f.found.class == want_raw).or(out.failures.first()) {
        Some(f) => {
            for l in &f.log {
                println!("  {l}");
            }
            let v = Violation {
                property: check.id().to_string(),
                class: class_of(check, f),
                sig: f.found.sig.clone(),
                detail: f.found.detail.clone(),
                seed,
                replay: file.clone(),
            };
            vcommon::report(check.id(), &[v])
        }
        None => {
            println!("replay {}: the recorded violation no longer reproduces", file.display());
            0
        }
    }
}

/// Determinism audit: N units x 2 executions in separate processes and with
/// two worker counts; the per-unit hashes (every schedule, every event-log
/// hash, every counter) must agree. Exit 2 on mismatch.
pub fn audit(property: &str, cli: &Cli) -> i32 {
    let n = extra_u64(cli, "audit-units").unwrap_or(match cli.tier {
        Tier::Quick => 24,
        Tier::Thorough => 96,
    });
    let exe = std::env::current_exe().unwrap_or_else(|e| vcommon::harness_error(&format!("current_exe: {e}")));
    let run = |jobs: usize| -> String {
        let mut cmd = std::process::Command::new(&exe);
        cmd.args(["--property", property, "--tier", cli.tier.as_str(), "--seed", &format!("{:#x}", cli.seed)])
            .args(["--jobs", &jobs.to_string(), "--hash-units", &n.to_string()])
            .env_remove("SHUTTLE_RANDOM_SEED");
        if cli.has_flag("fault-free") {
            cmd.arg("--fault-free");
        }
        for k in ["iters"] {
            if let Some(v) = cli.extra.get(k) {
                cmd.args([format!("--{k}"), v.clone()]);
            }
        }
        let out = cmd.output().unwrap_or_else(|e| vcommon::harness_error(&format!("cannot spawn audit child: {e}")));
        if !out.status.success() {
            vcommon::harness_error(&format!("audit child failed: {}", String::from_utf8_lossy(&out.stderr)));
        }
        String::from_utf8_lossy(&out.stdout).into_owned()
    };
    let a = run(cli.jobs.max(2));
    let b = run(3);
    let la: Vec<&str> = a.lines().filter(|l| l.starts_with("UNIT ")).collect();
    let lb: Vec<&str> = b.lines().filter(|l| l.starts_with("UNIT ")).collect();
    if la.len() as u64 != n || la != lb {
        for (x, y) in la.iter().zip(lb.iter()) {
            if x != y {
                eprintln!("audit mismatch: `{x}` vs `{y}`");
            }
        }
        vcommon::harness_error(&format!("determinism audit failed for {property}: {} vs {} unit hashes", la.len(), lb.len()));
    }
    println!("AUDIT {property}: {n} units x 2 processes (jobs {} and 3): all unit hashes identical", cli.jobs.max(2));
    0
}
