//! C43 - the shared-memory mutex is exclusive and loses no wake-ups.
//!
//! 2-3 shuttle threads x 1-3 lock/unlock rounds on the REAL
//! `Mutex::lock` / guard drop (`sys_lock` / `sys_unlock`: fast CAS, passive
//! spin with `sched_yield`, swap to the sleeping state, futex wait; swap to
//! unlocked and futex wake) with a scheduling point before every atomic
//! operation and the futex replaced by the simulated wait queue.
//!
//! Oracles: (1) occupancy of the critical section never exceeds one and no
//! update of the protected (non-atomic, read - point - write) counter is
//! lost; (2) no deadlock (shuttle: every task blocked - a sleeper that was
//! never woken) and no step-bound overrun; (3) no panic / `Bug` from the
//! mutex ("unlock of unlocked mutex", "invalid mutex state").

use std::{sync::Arc, time::Duration};

use aranya_fast_channels::verif::SharedMutex;
use serde_json::{Value, json};

use crate::{
    driver::{Check, draw_faults},
    sim::{self, ExecEnd, Workload},
};

pub struct C43;

impl Check for C43 {
    fn id(&self) -> &'static str {
        "C43"
    }

    fn params(&self, rng: &mut vcommon::Rng, _tier: vcommon::Tier, fault_free: bool) -> Value {
        json!({
            "threads": rng.range(2, 3),
            "rounds": rng.range(1, 3),
            "cs_points": rng.range(0, 2),
            "fault_free": fault_free,
        })
    }

    fn shrink(&self, p: &Value) -> Vec<Value> {
        let mut out = Vec::new();
        for (k, min) in [("threads", 2u64), ("rounds", 1), ("cs_points", 0)] {
            let v = p[k].as_u64().unwrap_or(min);
            if v > min {
                let mut q = p.clone();
                q[k] = json!(v - 1);
                out.push(q);
            }
        }
        out
    }

    fn workload(&self, p: &Value, _keys: crate::driver::Keys) -> Workload {
        let threads = p["threads"].as_u64().unwrap_or(2) as usize;
        let rounds = p["rounds"].as_u64().unwrap_or(1) as usize;
        let cs_points = p["cs_points"].as_u64().unwrap_or(0) as usize;
        let fault_free = p["fault_free"].as_bool().unwrap_or(false);
        Arc::new(move || {
            draw_faults(fault_free);
            let m = Arc::new(SharedMutex::new(0u64));
            let hs: Vec<_> = (0..threads)
                .map(|t| {
                    let m = Arc::clone(&m);
                    shuttle::thread::spawn(move || {
                        for _ in 0..rounds {
                            if sim::has_violation() {
                                return;
                            }
                            sim::log_event(t, "lock");
                            let r = sim::quiet_catch(|| {
                                let mut g = m.lock();
                                let occ = sim::with_ctx(|c| {
                                    c.in_cs += 1;
                                    c.in_cs
                                })
                                .unwrap_or(1);
                                let slept = sim::with_ctx(|c| c.counters.get("futex.wait.slept").copied().unwrap_or(0)).unwrap_or(0);
                                sim::log_event(t, &format!("acquired slept={slept}"));
                                if occ != 1 {
                                    sim::violation(
                                        "C43.mutual-exclusion",
                                        "two-holders",
                                        format!("task {t} entered the critical section while {} other holder(s) were inside", occ - 1),
                                    );
                                }
                                for _ in 0..cs_points {
                                    shuttle::thread::sleep(Duration::ZERO);
                                }
                                // Non-atomic read - point - write on the protected data.
                                let v = *g;
                                shuttle::thread::sleep(Duration::ZERO);
                                *g = v + 1;
                                sim::with_ctx(|c| c.in_cs -= 1);
                                sim::log_event(t, "unlock");
                                drop(g);
                            });
                            if let Err(msg) = r {
                                sim::violation("C43.panic", "mutex-panic", format!("task {t}: mutex panicked: {msg}"));
                                return;
                            }
                        }
                    })
                })
                .collect();
            for h in hs {
                let _ = h.join();
            }
            if !sim::has_violation() {
                let total = *m.lock();
                if total != (threads * rounds) as u64 {
                    sim::violation(
                        "C43.mutual-exclusion",
                        "lost-update",
                        format!("protected counter is {total}, expected {}", threads * rounds),
                    );
                }
            }
            let slept = sim::with_ctx(|c| c.counters.get("futex.wait.slept").copied().unwrap_or(0)).unwrap_or(0);
            ExecEnd { nontrivial: slept > 0 }
        })
    }

    fn rule(&self) -> String {
        "one execution = one shuttle schedule (random or PCT, seeded) of 2-3 threads x 1-3 lock/unlock rounds on the real futex mutex with a scheduling point before every atomic operation; distinct = distinct hash of the event log (order of lock/acquired/unlock events and how many futex sleeps had happened at each acquisition); non-trivial = at least one thread really slept in the (simulated) futex, i.e. the contended swap-to-sleeping path and the wake in unlock were exercised".into()
    }

    fn components(&self) -> Value {
        json!({
            "real": ["aranya-fast-channels mutex.rs Mutex::lock/sys_lock/sys_unlock (futex variant), real core atomics"],
            "stub": ["futex wait/wake (simulated wait queue, shuttle Mutex+Condvar, keyed by address)", "sched_yield (shuttle yield)", "thread scheduler (shuttle RandomScheduler / PctScheduler)"],
        })
    }

    fn assumptions(&self) -> Vec<String> {
        vec![
            "sequentially consistent interleavings at atomic-operation granularity only (shuttle runs one task at a time); weak-memory effects are left to the Miri witness (E4)".into(),
            "futex model: wait compares and enqueues atomically w.r.t. wake; wake wakes at most n waiters on the same address, any of them; spurious wake-ups and EINTR-style early returns are injected in 3 of 4 executions".into(),
        ]
    }
}
