//! Engine E3 `afcsim`: deterministic simulation of aranya-fast-channels.
//!
//! Real code: `Client`, `shm::{ReadState, WriteState}` on real POSIX shared
//! memory, `memory::State`, the crate's futex `Mutex`, the `Lender`/`Loan`
//! pair, real aranya-crypto AFC keys. Controlled: the thread scheduler
//! (shuttle, via hook points before every atomic operation), futex and
//! `sched_yield` (simulated), transport (C39).

mod c39;
mod c40;
mod c41;
mod c42;
mod c43;
mod c44;
mod driver;
mod keys;
mod shmenv;
mod sim;
mod tables;

fn main() {
    // A stray SHUTTLE_RANDOM_SEED would override every scheduler seed.
    // SAFETY: single-threaded at this point.
    unsafe { std::env::remove_var("SHUTTLE_RANDOM_SEED") };
    let cli = vcommon::parse_cli();
    sim::install();
    if let Err(e) = shmenv::probe() {
        vcommon::harness_error(&format!("POSIX shared memory is not usable here: {e}"));
    }
    let code = if cli.has_flag("audit") {
        match cli.property.as_str() {
            "C39" | "C40" | "C41" | "C42" | "C43" | "C44" => driver::audit(&cli.property, &cli),
            p => vcommon::harness_error(&format!("afcsim does not decide {p:?}")),
        }
    } else {
        match cli.property.as_str() {
            "C39" => c39::run(&cli),
            "C40" => driver::run(&c40::C40, &cli),
            "C41" => driver::run(&c41::C41, &cli),
            "C42" => driver::run(&c42::C42, &cli),
            "C43" => driver::run(&c43::C43, &cli),
            "C44" => driver::run(&c44::C44, &cli),
            p => vcommon::harness_error(&format!("afcsim does not decide {p:?}")),
        }
    };
    // Thorough runs end with the determinism audit (DESIGN 3.8).
    let code = if code == 0 && cli.tier == vcommon::Tier::Thorough && cli.replay.is_none() && !cli.has_flag("audit") && !cli.extra.contains_key("hash-units") {
        driver::audit(&cli.property, &cli)
    } else {
        code
    };
    std::process::exit(code);
}
