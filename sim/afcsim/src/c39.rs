//! C39 - AFC messages are authenticated and opening never panics.
//!
//! Single-threaded: two simulated devices with really derived channel keys;
//! the sender seals (copying and in place) plaintexts of length 0..N with the
//! real `Client`; a simulated transport delivers the traffic to the receiver
//! under test (`Client<shm::ReadState>` or `Client<memory::State>`) intact,
//! duplicated, reordered, truncated to EVERY length from 0 up, with bit
//! flips, extended, to another channel, or replaced by garbage; the receiver
//! opens with both `open` and `open_in_place`.
//!
//! Oracle: unmodified traffic on its own channel => the plaintext, the
//! channel's label and the sequence number used at sealing; anything else =>
//! `Err`, never a panic, and no plaintext left in the output buffer (a zeroed
//! `open` destination stays zero; an in-place buffer holds no 8-byte window
//! of the plaintext).

use std::collections::{BTreeMap, BTreeSet};

use aranya_fast_channels::{AfcState, AranyaState, Client, LocalChannelId};
use serde_json::{Value, json};
use vcommon::{Cli, Evidence, Rng, Tier, Violation};

use crate::{
    driver,
    keys::ChanKeys,
    sim::{self, Found},
    tables::{self, Backend, Mem, OVERHEAD, Sender, Shm},
};

const CHANS: usize = 3;

// ------------------------------------------------------------------ events

#[derive(Clone, Debug, PartialEq)]
enum Fault {
    Intact,
    Duplicate,
    Reorder,
    Truncate(usize),
    BitFlip(usize),
    ExtendBack(Vec<u8>),
    ExtendFront(Vec<u8>),
    WrongChannel,
    Garbage(Vec<u8>),
}

impl Fault {
    fn kind(&self) -> &'static str {
        match self {
            Fault::Intact => "intact",
            Fault::Duplicate => "duplicate",
            Fault::Reorder => "reorder",
            Fault::Truncate(_) => "truncate",
            Fault::BitFlip(_) => "bitflip",
            Fault::ExtendBack(_) => "extend_back",
            Fault::ExtendFront(_) => "extend_front",
            Fault::WrongChannel => "wrong_channel",
            Fault::Garbage(_) => "garbage",
        }
    }
    fn must_succeed(&self) -> bool {
        matches!(self, Fault::Intact | Fault::Duplicate | Fault::Reorder)
    }
}

#[derive(Clone, Debug, PartialEq)]
struct SealEv {
    chan: usize,
    plaintext: Vec<u8>,
    in_place: bool,
}

#[derive(Clone, Debug, PartialEq)]
struct DeliverEv {
    msg: usize,
    fault: Fault,
    in_place: bool,
}

#[derive(Clone, Debug)]
struct Run {
    backend: &'static str,
    seals: Vec<SealEv>,
    deliveries: Vec<DeliverEv>,
}

fn fault_json(f: &Fault) -> Value {
    match f {
        Fault::Truncate(n) => json!({"kind": "truncate", "to_len": n}),
        Fault::BitFlip(b) => json!({"kind": "bitflip", "bit": b}),
        Fault::ExtendBack(v) => json!({"kind": "extend_back", "bytes": vcommon::hex(v)}),
        Fault::ExtendFront(v) => json!({"kind": "extend_front", "bytes": vcommon::hex(v)}),
        Fault::Garbage(v) => json!({"kind": "garbage", "bytes": vcommon::hex(v)}),
        other => json!({"kind": other.kind()}),
    }
}

fn fault_from(v: &Value) -> Option<Fault> {
    Some(match v["kind"].as_str()? {
        "intact" => Fault::Intact,
        "duplicate" => Fault::Duplicate,
        "reorder" => Fault::Reorder,
        "wrong_channel" => Fault::WrongChannel,
        "truncate" => Fault::Truncate(v["to_len"].as_u64()? as usize),
        "bitflip" => Fault::BitFlip(v["bit"].as_u64()? as usize),
        "extend_back" => Fault::ExtendBack(vcommon::unhex(v["bytes"].as_str()?)?),
        "extend_front" => Fault::ExtendFront(vcommon::unhex(v["bytes"].as_str()?)?),
        "garbage" => Fault::Garbage(vcommon::unhex(v["bytes"].as_str()?)?),
        _ => return None,
    })
}

fn run_json(r: &Run) -> Value {
    json!({
        "backend": r.backend,
        "seals": r.seals.iter().map(|s| json!({"chan": s.chan, "plaintext": vcommon::hex(&s.plaintext), "in_place": s.in_place})).collect::<Vec<_>>(),
        "deliveries": r.deliveries.iter().map(|d| json!({"msg": d.msg, "fault": fault_json(&d.fault), "api": if d.in_place {"open_in_place"} else {"open"}})).collect::<Vec<_>>(),
    })
}

fn run_from(v: &Value) -> Option<Run> {
    let backend = match v["backend"].as_str()? {
        "shm" => "shm",
        _ => "memory",
    };
    let seals = v["seals"]
        .as_array()?
        .iter()
        .map(|s| {
            Some(SealEv {
                chan: s["chan"].as_u64()? as usize,
                plaintext: vcommon::unhex(s["plaintext"].as_str()?)?,
                in_place: s["in_place"].as_bool()?,
            })
        })
        .collect::<Option<Vec<_>>>()?;
    let deliveries = v["deliveries"]
        .as_array()?
        .iter()
        .map(|d| {
            Some(DeliverEv {
                msg: d["msg"].as_u64()? as usize,
                fault: fault_from(&d["fault"])?,
                in_place: d["api"].as_str()? == "open_in_place",
            })
        })
        .collect::<Option<Vec<_>>>()?;
    Some(Run { backend, seals, deliveries })
}

// ------------------------------------------------------------------ generation

fn gen_run(rng: &mut Rng, tier: Tier) -> Run {
    let backend = if rng.chance(1, 2) { "shm" } else { "memory" };
    let max_len: u64 = match tier {
        Tier::Quick => 80,
        Tier::Thorough => 300,
    };
    let nmsg = rng.range(1, 3) as usize;
    let mut seals = Vec::new();
    for _ in 0..nmsg {
        let len = match rng.below(6) {
            0 => 0,
            1 => rng.range(1, 3),
            2 => *rng.pick(&[15u64, 16, 17, 31, 32, 33]),
            _ => rng.range(0, max_len),
        } as usize;
        let mut pt = vec![0u8; len];
        rng.fill(&mut pt);
        seals.push(SealEv { chan: rng.usize_below(CHANS - 1), plaintext: pt, in_place: rng.chance(1, 2) });
    }
    let mut deliveries = Vec::new();
    // reorder: deliver messages in reverse order first
    for m in (0..nmsg).rev() {
        deliveries.push(DeliverEv { msg: m, fault: if nmsg > 1 { Fault::Reorder } else { Fault::Intact }, in_place: rng.chance(1, 2) });
    }
    for m in 0..nmsg {
        let total = seals[m].plaintext.len() + OVERHEAD;
        for api in [false, true] {
            deliveries.push(DeliverEv { msg: m, fault: Fault::Intact, in_place: api });
            deliveries.push(DeliverEv { msg: m, fault: Fault::Duplicate, in_place: api });
            // truncation to EVERY length from 0 up
            for n in 0..total {
                deliveries.push(DeliverEv { msg: m, fault: Fault::Truncate(n), in_place: api });
            }
            deliveries.push(DeliverEv { msg: m, fault: Fault::WrongChannel, in_place: api });
        }
        for _ in 0..12 {
            deliveries.push(DeliverEv { msg: m, fault: Fault::BitFlip(rng.usize_below(total * 8)), in_place: rng.chance(1, 2) });
        }
        // one flip in each region: ciphertext (if any), tag, header
        let pl = seals[m].plaintext.len();
        if pl > 0 {
            deliveries.push(DeliverEv { msg: m, fault: Fault::BitFlip(rng.usize_below(pl * 8)), in_place: rng.chance(1, 2) });
        }
        deliveries.push(DeliverEv { msg: m, fault: Fault::BitFlip(pl * 8 + rng.usize_below(16 * 8)), in_place: rng.chance(1, 2) });
        deliveries.push(DeliverEv { msg: m, fault: Fault::BitFlip((total - 8) * 8 + rng.usize_below(64)), in_place: rng.chance(1, 2) });
        for _ in 0..3 {
            let mut g = vec![0u8; rng.range(1, 40) as usize];
            rng.fill(&mut g);
            let f = if rng.chance(1, 2) { Fault::ExtendBack(g) } else { Fault::ExtendFront(g) };
            deliveries.push(DeliverEv { msg: m, fault: f, in_place: rng.chance(1, 2) });
        }
    }
    // any byte string at all
    for _ in 0..24 {
        let len = if rng.chance(1, 2) { rng.range(0, 40) } else { rng.range(0, 200) } as usize;
        let mut g = vec![0u8; len];
        match rng.below(3) {
            0 => {}
            1 => g.fill(0xff),
            _ => rng.fill(&mut g),
        }
        deliveries.push(DeliverEv { msg: 0, fault: Fault::Garbage(g), in_place: rng.chance(1, 2) });
    }
    Run { backend, seals, deliveries }
}

// ------------------------------------------------------------------ execution

struct Outcome {
    /// (fault kind, api, outcome kind) -> count
    table: BTreeMap<(&'static str, &'static str, String), u64>,
    /// distinct non-trivial cases
    cases: BTreeSet<u64>,
    deliveries: u64,
    hash: u64,
    /// first violation: (delivery index, found)
    found: Option<(usize, Found)>,
}

fn contains_plaintext_window(buf: &[u8], pt: &[u8]) -> bool {
    if pt.len() < 8 {
        return false;
    }
    pt.windows(8).any(|w| buf.windows(8).any(|b| b == w))
}

fn exec_generic<B: Backend>(run: &Run, keys: &[ChanKeys], seed: u64) -> Result<Outcome, String> {
    let keys = &keys[..CHANS];
    let mut sender = Sender::new(keys);
    let (w, mut rs) = B::create(CHANS + 1, 1, seed)?;
    let ids: Vec<LocalChannelId> = keys
        .iter()
        .map(|k| w.add(B::open_side(k), k.label, k.sealer).map_err(|e| format!("receiver add: {e}")))
        .collect::<Result<_, _>>()?;
    let client = Client::new(rs.pop().ok_or("no reader")?);
    let mut ctxs: Vec<<B::R as AfcState>::OpenCtx> = ids
        .iter()
        .map(|id| client.setup_open_ctx(*id).map_err(|e| format!("setup_open_ctx: {e}")))
        .collect::<Result<_, _>>()?;

    // seal phase: real traffic
    let mut seqs = vec![0u64; CHANS];
    let mut msgs: Vec<(Vec<u8>, u64)> = Vec::new();
    for s in &run.seals {
        let ct = if s.in_place { sender.seal_in_place(s.chan, &s.plaintext) } else { sender.seal(s.chan, &s.plaintext) };
        if ct.len() != s.plaintext.len() + OVERHEAD {
            return Err("sealed length is not plaintext + overhead".into());
        }
        msgs.push((ct, seqs[s.chan]));
        seqs[s.chan] += 1;
    }

    let mut out = Outcome { table: BTreeMap::new(), cases: BTreeSet::new(), deliveries: 0, hash: 0xcbf2_9ce4_8422_2325, found: None };
    for (di, d) in run.deliveries.iter().enumerate() {
        let Some(seal) = run.seals.get(d.msg) else { continue };
        let (ct, seq) = &msgs[d.msg];
        let mut to_chan = seal.chan;
        let wire: Vec<u8> = match &d.fault {
            Fault::Intact | Fault::Duplicate | Fault::Reorder => ct.clone(),
            Fault::Truncate(n) => ct[..(*n).min(ct.len())].to_vec(),
            Fault::BitFlip(b) => {
                let mut v = ct.clone();
                let b = *b % (v.len() * 8);
                v[b / 8] ^= 1 << (b % 8);
                v
            }
            Fault::ExtendBack(g) => [ct.as_slice(), g.as_slice()].concat(),
            Fault::ExtendFront(g) => [g.as_slice(), ct.as_slice()].concat(),
            Fault::WrongChannel => {
                to_chan = (seal.chan + 1) % CHANS;
                ct.clone()
            }
            Fault::Garbage(g) => g.clone(),
        };
        let pt = &seal.plaintext;
        let api = if d.in_place { "open_in_place" } else { "open" };
        out.deliveries += 1;

        // the call under test
        let ctx = &mut ctxs[to_chan];
        let mut dst = vec![0u8; wire.len().saturating_sub(OVERHEAD) + 3];
        let mut buf = wire.clone();
        let res = sim::quiet_catch(|| if d.in_place { client.open_in_place(ctx, &mut buf) } else { client.open(ctx, &mut dst, &wire) });

        let okind: String = match &res {
            Err(_) => "PANIC".into(),
            Ok(Ok(_)) => "Ok".into(),
            Ok(Err(e)) => tables::err_kind(e).into(),
        };
        *out.table.entry((d.fault.kind(), api, okind.clone())).or_insert(0) += 1;
        let case = format!("{}|{}|{}|{}|{}|{}|{}", run.backend, api, seal.in_place, d.fault.kind(), wire.len(), pt.len(), okind);
        out.hash = (out.hash ^ vcommon::fnv(case.as_bytes())).wrapping_mul(0x0000_0100_0000_01B3);
        if !matches!(d.fault, Fault::Intact | Fault::Garbage(_)) {
            out.cases.insert(vcommon::fnv(case.as_bytes()));
        }

        let len_class = if wire.len() < 8 {
            "lt-header"
        } else if wire.len() < OVERHEAD {
            "lt-header+tag"
        } else {
            "ge-overhead"
        };
        let found = match res {
            Err(msg) => Some(Found {
                class: "C39.panic".into(),
                sig: format!("{api}:panic:{len_class}"),
                detail: format!("{api} panicked on a {}-byte input ({}; plaintext {} bytes): {}", wire.len(), d.fault.kind(), pt.len(), msg),
            }),
            Ok(Ok((label, got_seq))) => {
                if !d.fault.must_succeed() {
                    Some(Found {
                        class: "C39.forgery-accepted".into(),
                        sig: format!("{api}:accepted:{}", d.fault.kind()),
                        detail: format!("{api} accepted a {} message ({} bytes)", d.fault.kind(), wire.len()),
                    })
                } else {
                    let got_pt: &[u8] = if d.in_place { &buf } else { &dst[..pt.len().min(dst.len())] };
                    if got_pt != pt.as_slice() || label != keys[to_chan].label || got_seq.to_u64() != *seq {
                        Some(Found {
                            class: "C39.wrong-result".into(),
                            sig: format!("{api}:wrong-result"),
                            detail: format!(
                                "{api} of an intact message returned plaintext_ok={} label_ok={} seq={} (sealed with {})",
                                got_pt == pt.as_slice(),
                                label == keys[to_chan].label,
                                got_seq.to_u64(),
                                seq
                            ),
                        })
                    } else {
                        None
                    }
                }
            }
            Ok(Err(e)) => {
                if d.fault.must_succeed() {
                    Some(Found {
                        class: "C39.intact-rejected".into(),
                        sig: format!("{api}:rejected:{}", tables::err_kind(&e)),
                        detail: format!("{api} rejected an unmodified message ({}): {e}", d.fault.kind()),
                    })
                } else if !d.in_place && dst.iter().any(|b| *b != 0) {
                    Some(Found {
                        class: "C39.output-not-wiped".into(),
                        sig: "open:dst-nonzero".into(),
                        detail: format!("open failed ({e}) but left non-zero bytes in the zeroed destination ({})", d.fault.kind()),
                    })
                } else if d.in_place && !matches!(d.fault, Fault::Garbage(_)) && contains_plaintext_window(&buf, pt) {
                    Some(Found {
                        class: "C39.plaintext-left".into(),
                        sig: "open_in_place:plaintext-left".into(),
                        detail: format!("open_in_place failed ({e}) but the buffer holds plaintext ({})", d.fault.kind()),
                    })
                } else {
                    None
                }
            }
        };
        if let Some(f) = found {
            out.found = Some((di, f));
            break;
        }
    }
    Ok(out)
}

fn exec(run: &Run, keys: &[ChanKeys], seed: u64) -> Outcome {
    let r = if run.backend == "shm" { exec_generic::<Shm>(run, keys, seed) } else { exec_generic::<Mem>(run, keys, seed) };
    r.unwrap_or_else(|e| vcommon::harness_error(&format!("C39 setup failed: {e}")))
}

// ------------------------------------------------------------------ minimisation

fn same(out: &Outcome, class: &str, sig: &str) -> bool {
    out.found.as_ref().is_some_and(|(_, f)| f.class == class && f.sig == sig)
}

/// Delta debugging over the explicit event list: keep only the failing
/// delivery and its message, then shrink the plaintext and the fault.
fn minimise(run: &Run, di: usize, found: &Found, keys: &[ChanKeys], seed: u64) -> Run {
    let d = run.deliveries[di].clone();
    let seal = run.seals[d.msg.min(run.seals.len() - 1)].clone();
    let mut cur = Run { backend: run.backend, seals: vec![seal], deliveries: vec![DeliverEv { msg: 0, ..d }] };
    if !same(&exec(&cur, keys, seed), &found.class, &found.sig) {
        // needs its context (e.g. the sequence number): keep all seals
        cur = Run { backend: run.backend, seals: run.seals.clone(), deliveries: vec![run.deliveries[di].clone()] };
        if !same(&exec(&cur, keys, seed), &found.class, &found.sig) {
            return Run { backend: run.backend, seals: run.seals.clone(), deliveries: run.deliveries[..=di].to_vec() };
        }
    }
    // other backend, copying seal
    for cand in [
        Run { backend: "memory", ..cur.clone() },
        Run { seals: cur.seals.iter().map(|s| SealEv { in_place: false, ..s.clone() }).collect(), ..cur.clone() },
    ] {
        if cand.backend != cur.backend || cand.seals != cur.seals {
            if same(&exec(&cand, keys, seed), &found.class, &found.sig) {
                cur = cand;
            }
        }
    }
    // shorter plaintext (smallest first)
    let m = cur.deliveries[0].msg;
    let full = cur.seals[m].plaintext.clone();
    for len in 0..full.len() {
        let mut cand = cur.clone();
        cand.seals[m].plaintext = full[..len].to_vec();
        if same(&exec(&cand, keys, seed), &found.class, &found.sig) {
            cur = cand;
            break;
        }
    }
    // smallest truncation length / first bit
    match cur.deliveries[0].fault.clone() {
        Fault::Truncate(n) => {
            for k in 0..n {
                let mut cand = cur.clone();
                cand.deliveries[0].fault = Fault::Truncate(k);
                if same(&exec(&cand, keys, seed), &found.class, &found.sig) {
                    cur = cand;
                    break;
                }
            }
        }
        Fault::Garbage(g) | Fault::ExtendBack(g) | Fault::ExtendFront(g) => {
            for k in 0..g.len() {
                let mut cand = cur.clone();
                let h = g[..k].to_vec();
                cand.deliveries[0].fault = match cur.deliveries[0].fault {
                    Fault::Garbage(_) => Fault::Garbage(h),
                    Fault::ExtendBack(_) => Fault::ExtendBack(h),
                    _ => Fault::ExtendFront(h),
                };
                if same(&exec(&cand, keys, seed), &found.class, &found.sig) {
                    cur = cand;
                    break;
                }
            }
        }
        _ => {}
    }
    cur
}

// ------------------------------------------------------------------ entry

struct UnitRes {
    seed: u64,
    run: Run,
    out: Outcome,
}

pub fn run(cli: &Cli) -> i32 {
    let keys = driver::key_pool(cli);
    if let Some(file) = &cli.replay {
        return replay(cli, file);
    }
    let mut units: u64 = match cli.tier {
        Tier::Quick => 4_000,
        Tier::Thorough => 24_000,
    };
    if let Some(u) = cli.extra.get("units").and_then(|v| vcommon::parse_u64(v)) {
        units = u;
    }
    let one = |i: u64| -> UnitRes {
        let seed = vcommon::mix(cli.seed, i);
        let mut rng = Rng::derive(seed, "c39");
        let run = gen_run(&mut rng, cli.tier);
        let out = exec(&run, &keys, seed);
        UnitRes { seed, run, out }
    };
    if let Some(n) = cli.extra.get("hash-units").and_then(|v| vcommon::parse_u64(v)) {
        for (i, r) in vcommon::parallel_map(n, cli.jobs, one).iter().enumerate() {
            println!("UNIT {} {:016x} execs={}", i, r.out.hash, r.out.deliveries);
        }
        return 0;
    }

    let mut ev = Evidence::new(cli, "exploration");
    let res = vcommon::parallel_map(units, cli.jobs, one);

    let mut table: BTreeMap<String, u64> = BTreeMap::new();
    let mut cases = BTreeSet::new();
    let mut deliveries = 0;
    let mut by_fault: BTreeMap<&'static str, u64> = BTreeMap::new();
    let mut backends: BTreeMap<&'static str, u64> = BTreeMap::new();
    let mut seals = 0u64;
    for r in &res {
        deliveries += r.out.deliveries;
        seals += r.run.seals.len() as u64;
        *backends.entry(r.run.backend).or_insert(0) += 1;
        for ((f, api, o), n) in &r.out.table {
            *table.entry(format!("{f}/{api}/{o}")).or_insert(0) += n;
            *by_fault.entry(f).or_insert(0) += n;
        }
        cases.extend(r.out.cases.iter().copied());
    }
    ev.evaluations = deliveries;
    ev.distinct_nontrivial = cases.len() as u64;
    ev.rule = "one case = one delivery of real sealed traffic to open/open_in_place after a transport fault; each run seals 1-3 random plaintexts (lengths 0..N biased to 0-3 and block boundaries, copying and in-place seal), then delivers them reordered, intact, duplicated, truncated to EVERY length 0..len-1, with bit flips in ciphertext/tag/header, extended front/back, to another channel, plus 24 arbitrary byte strings; distinct = distinct (receiver state implementation, api, seal mode, fault kind, delivered length, plaintext length, outcome kind); non-trivial = a fault was applied to real traffic (intact deliveries and pure garbage are not counted)".into();
    ev.assumptions = vec![
        "a modified ciphertext that authenticates anyway (AEAD forgery, probability 2^-128) would be reported as a violation".into(),
        "the plaintext-left oracle for open_in_place looks for any 8-byte window of the (random) plaintext in the buffer; `open` is given a zeroed destination which must stay zero on failure".into(),
        "AFC has no replay protection (the receiver opens at the sequence number carried in the header), so duplicated and reordered messages must open again with their own sequence number".into(),
    ];
    ev.set("faults_fired", json!(by_fault));
    ev.set("outcomes", json!(table));
    ev.set("runs", json!({"count": units, "sealed_messages": seals, "receiver_backends": backends}));
    ev.set("components", json!({
        "real": ["Client::seal/seal_in_place/open/open_in_place", "header.rs DataHeader", "shm::ReadState/WriteState on POSIX shared memory (receiver, half of the runs)", "memory::State (sender; receiver in the other half)", "aranya-crypto AFC keys: UniSecrets / UniSealKey / UniOpenKey derivation, AES-256-GCM"],
        "stub": ["transport between the two devices (in-process byte vectors with injected faults)"],
    }));
    for (i, r) in res.iter().take(2).enumerate() {
        let mut j = run_json(&r.run);
        // keep the sample readable: the seals, the first 6 deliveries and one of each other fault kind
        if let Some(a) = j["deliveries"].as_array_mut() {
            let mut kinds: BTreeSet<String> = BTreeSet::new();
            let mut keep = Vec::new();
            for (n, d) in a.iter().enumerate() {
                let k = d["fault"]["kind"].as_str().unwrap_or("").to_string();
                if n < 6 || kinds.insert(k) {
                    keep.push(d.clone());
                }
            }
            *a = keep;
        }
        ev.samples.push(json!({"run": i, "seed": format!("{:#x}", r.seed), "deliveries_in_run": r.run.deliveries.len(), "events_excerpt": j}));
    }
    ev.set(
        "anomalies",
        json!({"count": 0, "note": "every open/open_in_place outcome is defined by the property; a panic is a violation, not an anomaly"}),
    );

    let mut seen: BTreeSet<(String, String)> = BTreeSet::new();
    let mut violations = Vec::new();
    let mut failing = 0u64;
    for r in &res {
        let Some((di, f)) = &r.out.found else { continue };
        failing += 1;
        if seen.contains(&(f.class.clone(), f.sig.clone())) || seen.len() >= 4 {
            continue;
        }
        seen.insert((f.class.clone(), f.sig.clone()));
        let small = if cli.has_flag("no-minimise") { Run { deliveries: r.run.deliveries[..=*di].to_vec(), ..r.run.clone() } } else { minimise(&r.run, *di, f, &keys, r.seed) };
        let out = exec(&small, &keys, r.seed);
        let Some((_, f2)) = out.found else {
            vcommon::harness_error("C39: minimised run does not reproduce (nondeterminism)");
        };
        let tag = format!("{:08x}", vcommon::fnv(f2.sig.as_bytes()) as u32);
        let path = vcommon::replay_path("C39", r.seed, &tag);
        let doc = json!({
            "engine": "afcsim",
            "property": "C39",
            "seed": format!("{:#x}", r.seed),
            "batch_seed": format!("{:#x}", cli.seed),
            "config": {"tier": cli.tier.as_str(), "overhead": OVERHEAD},
            "events": run_json(&small),
            "violation": {"class": f2.class, "sig": f2.sig, "detail": f2.detail},
        });
        if let Err(e) = std::fs::write(&path, serde_json::to_string_pretty(&doc).expect("json")) {
            vcommon::harness_error(&format!("cannot write {}: {e}", path.display()));
        }
        driver::confirm_in_fresh_process("C39", &path);
        ev.samples.push(json!({"failing_replay": doc}));
        violations.push(Violation { property: "C39".into(), class: f2.class, sig: f2.sig, detail: f2.detail, seed: r.seed, replay: path });
    }
    ev.violations = failing;
    ev.set("failing_runs", json!(failing));
    ev.write(&cli.evidence_path());
    let code = vcommon::report("C39", &violations);
    println!(
        "C39 {}: {} deliveries of {} sealed messages in {} runs, {} distinct non-trivial cases, {} failing runs, {:.1}s",
        cli.tier.as_str(),
        deliveries,
        seals,
        units,
        cases.len(),
        failing,
        ev.start.elapsed().as_secs_f64()
    );
    code
}

fn replay(cli: &Cli, file: &std::path::Path) -> i32 {
    let text = std::fs::read_to_string(file).unwrap_or_else(|e| vcommon::harness_error(&format!("cannot read {}: {e}", file.display())));
    let doc: Value = serde_json::from_str(&text).unwrap_or_else(|e| vcommon::harness_error(&format!("bad replay file: {e}")));
    if doc["engine"] != "afcsim" || doc["property"] != "C39" {
        vcommon::harness_error("replay file is for another engine/property");
    }
    let batch_seed = doc["batch_seed"].as_str().and_then(vcommon::parse_u64).unwrap_or(cli.seed);
    let seed = doc["seed"].as_str().and_then(vcommon::parse_u64).unwrap_or(0);
    let run = run_from(&doc["events"]).unwrap_or_else(|| vcommon::harness_error("bad event list in replay file"));
    let keys = crate::keys::derive_channels(batch_seed, 8);
    let out = exec(&run, &keys, seed);
    match out.found {
        Some((_, f)) => {
            let v = Violation { property: "C39".into(), class: f.class, sig: f.sig, detail: f.detail, seed, replay: file.to_path_buf() };
            vcommon::report("C39", &[v])
        }
        None => {
            println!("replay {}: the recorded violation no longer reproduces", file.display());
            0
        }
    }
}
