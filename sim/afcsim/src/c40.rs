//! C40 - AFC sequence numbers never repeat within a seal context.
//!
//! Family "shm": one writer thread adds / removes (remove, remove_if) OTHER
//! channels in the shared-memory table - every such operation bumps the
//! generation of both copies and may move entries - while 1-2 reader threads
//! (own mapping each) seal on their own context with injected seal failures
//! at drawn positions. Family "memory": 2-3 threads race
//! `setup_seal_ctx` / seal / context drop / channel removal on one
//! `memory::State` channel.
//!
//! Oracles: per context the successful seals carry consecutive numbers
//! (from 0 for the first context of a channel), failed seals consume none;
//! every ciphertext opens at the peer device (real `Client::open`) with that
//! number, the channel's label and the plaintext; a non-injected seal on a
//! channel nobody removed succeeds; `memory::State` never has two live seal
//! contexts for one channel and its per-channel numbers never repeat across
//! contexts.

use std::sync::{Arc, Mutex as StdMutex};

use aranya_fast_channels::{AfcState, AranyaState, Client, Error, LocalChannelId, RemoveIfParams, memory};
use serde_json::{Value, json};

use crate::{
    driver::{Check, Keys, draw_faults},
    keys::CS,
    sim::{self, ExecEnd, Workload},
    tables::{self, Backend, Mem, OVERHEAD, Peer, Shm, trailer_seq},
};

pub struct C40;

#[derive(Clone, Copy)]
struct P {
    mem: bool,
    readers: usize,
    seals: usize,
    writer_ops: usize,
    others: usize,
    fault_free: bool,
}

fn parse(p: &Value) -> P {
    P {
        mem: p["family"] == "memory",
        readers: p["readers"].as_u64().unwrap_or(1) as usize,
        seals: p["seals"].as_u64().unwrap_or(2) as usize,
        writer_ops: p["writer_ops"].as_u64().unwrap_or(1) as usize,
        others: p["others"].as_u64().unwrap_or(1) as usize,
        fault_free: p["fault_free"].as_bool().unwrap_or(false),
    }
}

/// What a reader did: (pool key index, expected seq, plaintext, ciphertext).
type Sealed = Vec<(usize, u64, Vec<u8>, Vec<u8>)>;

#[derive(Clone, Copy, PartialEq)]
enum SealKind {
    Copy,
    InPlace,
    /// `Client::seal` with a destination that is too small.
    FailSmallDst,
    /// The state's `seal` with a closure that fails before touching the key.
    FailClosure,
    /// The state's `seal` with a closure in which the key itself fails
    /// (destination too small for the tag).
    FailKey,
}

fn draw_kind(fault_free: bool) -> SealKind {
    match sim::rand_below(if fault_free { 2 } else { 6 }) {
        0 => SealKind::Copy,
        1 => SealKind::InPlace,
        2 => SealKind::FailSmallDst,
        3 => SealKind::FailClosure,
        4 => SealKind::FailKey,
        _ => SealKind::Copy,
    }
}

enum SealOut {
    /// A successful seal.
    Sealed(Vec<u8>),
    /// An injected failure that failed as it must.
    Injected,
    /// The seal returned this error.
    Failed(&'static str, String),
    Panicked(String),
}

/// One seal attempt.
fn seal_once<S: AfcState<CipherSuite = CS>>(
    t: usize,
    client: &Client<S>,
    ctx: &mut S::SealCtx,
    kind: SealKind,
    pt: &[u8],
) -> SealOut {
    let r = sim::quiet_catch(|| match kind {
        SealKind::Copy => {
            let mut dst = vec![0u8; pt.len() + OVERHEAD];
            client.seal(ctx, &mut dst, pt).map(|_| Some(dst))
        }
        SealKind::InPlace => {
            let mut buf = pt.to_vec();
            client.seal_in_place(ctx, &mut buf).map(|_| Some(buf))
        }
        SealKind::FailSmallDst => {
            let mut dst = vec![0u8; pt.len() + OVERHEAD - 1];
            match client.seal(ctx, &mut dst, pt) {
                Err(Error::BufferTooSmall) => Ok(None),
                Ok(_) => Err(Error::InvalidArgument("harness: seal into a short buffer succeeded")),
                Err(e) => Err(e),
            }
        }
        SealKind::FailClosure => match client.state().seal(ctx, |_k, _l| Err::<(), _>(Error::InvalidArgument("injected"))) {
            Ok(Err(Error::InvalidArgument("injected"))) => Ok(None),
            Ok(Ok(())) => Err(Error::InvalidArgument("harness: failing closure reported success")),
            Ok(Err(e)) | Err(e) => Err(e),
        },
        SealKind::FailKey => {
            let r = client.state().seal(ctx, |k, label| {
                let ad = aranya_crypto::afc::AuthData { version: 1, label_id: label };
                let mut short = vec![0u8; pt.len() + 3];
                match k.seal(&mut short, pt, &ad) {
                    Ok(_) => Ok(true),
                    Err(_) => Ok(false),
                }
            });
            match r {
                Ok(Ok(false)) => Ok(None),
                Ok(Ok(true)) => Err(Error::InvalidArgument("harness: key sealed into a short buffer")),
                Ok(Err(e)) | Err(e) => Err(e),
            }
        }
    });
    sim::count(match kind {
        SealKind::Copy => "seal.copy",
        SealKind::InPlace => "seal.in_place",
        SealKind::FailSmallDst => "fault.seal_small_dst",
        SealKind::FailClosure => "fault.seal_closure_error",
        SealKind::FailKey => "fault.seal_key_error",
    });
    match r {
        Err(msg) => SealOut::Panicked(format!("task {t}: seal panicked: {msg}")),
        Ok(Err(e)) => SealOut::Failed(tables::err_kind(&e), format!("task {t}: seal failed with {} ({e})", tables::err_kind(&e))),
        Ok(Ok(Some(ct))) => SealOut::Sealed(ct),
        Ok(Ok(None)) => SealOut::Injected,
    }
}

fn plaintext(t: usize, n: usize) -> Vec<u8> {
    let len = (sim::rand_below(24)) as usize;
    let mut v = vec![0u8; len];
    let mut x = sim::rand_u64() | 1;
    for b in &mut v {
        x ^= x << 13;
        x ^= x >> 7;
        x ^= x << 17;
        *b = x as u8;
    }
    let _ = (t, n);
    v
}

fn verify_at_peer(keys: &Keys, sealed: &[Sealed]) {
    let mut peer = Peer::new(keys);
    for (t, list) in sealed.iter().enumerate() {
        for (k, want_seq, pt, ct) in list {
            match sim::quiet_catch(|| peer.open(*k, ct)) {
                Ok(Ok((got, label, seq))) => {
                    if got != *pt || label != keys[*k].label || seq != *want_seq {
                        sim::violation(
                            "C40.peer-mismatch",
                            "peer-mismatch",
                            format!("reader {t}: ciphertext expected at seq {want_seq} opened with seq {seq}, plaintext_ok={}, label_ok={}", got == *pt, label == keys[*k].label),
                        );
                    }
                }
                Ok(Err(e)) => sim::violation("C40.peer-rejects", "peer-rejects", format!("reader {t}: peer cannot open the ciphertext of seq {want_seq}: {e}")),
                Err(m) => sim::violation("C40.panic", "peer-open-panic", format!("peer open panicked: {m}")),
            }
        }
    }
}

// ------------------------------------------------------------------ family shm

fn shm_exec(p: P, keys: &Keys) -> ExecEnd {
    draw_faults(p.fault_free);
    let cap = p.readers + p.others + 2;
    let (writer, readers) = match Shm::create(cap, p.readers, sim::rand_u64()) {
        Ok(x) => x,
        Err(e) => vcommon::harness_error(&e),
    };
    // Reader channels are pool keys 0..readers, the writer's toys use the rest. A drawn number
    // of the writer's channels is added *before* the readers' channels, so that a reader's
    // channel can be the last entry of the table and be moved by the removal of an earlier one.
    let mut ids: Vec<LocalChannelId> = Vec::new();
    let mut other_ids: Vec<LocalChannelId> = Vec::new();
    let before = sim::rand_below(p.others as u64 + 1) as usize;
    let add_other = |j: usize, other_ids: &mut Vec<LocalChannelId>| {
        let k = p.readers + (j % (keys.len() - p.readers));
        other_ids.push(writer.add(Shm::open_side(&keys[k]), keys[k].label, keys[k].sealer).expect("add other channel"));
    };
    for j in 0..before {
        add_other(j, &mut other_ids);
    }
    for k in 0..p.readers {
        ids.push(writer.add(Shm::seal_side(&keys[k]), keys[k].label, keys[k].opener).expect("add reader channel"));
    }
    for j in before..p.others {
        add_other(j, &mut other_ids);
    }
    let results: Arc<StdMutex<Vec<Sealed>>> = Arc::new(StdMutex::new(vec![Vec::new(); p.readers]));

    let mut hs = Vec::new();
    // the managing writer
    {
        let keys = Arc::clone(keys);
        let nreaders = p.readers;
        let ops = p.writer_ops;
        hs.push(shuttle::thread::spawn(move || {
            let t = 100;
            let mut mine = other_ids;
            for _ in 0..ops {
                let what = sim::rand_below(3);
                let r = sim::quiet_catch(|| match what {
                    0 => {
                        let k = nreaders + sim::rand_below((keys.len() - nreaders) as u64) as usize;
                        sim::log_event(t, "w.add");
                        match writer.add(Shm::open_side(&keys[k]), keys[k].label, keys[k].sealer) {
                            Ok(id) => mine.push(id),
                            Err(e) if Shm::is_out_of_space(&e) => {}
                            Err(e) => sim::violation("C40.writer-error", "writer-error", format!("add failed: {e}")),
                        }
                    }
                    1 => {
                        // any of the writer's own channels, not only the youngest
                        let pick = if mine.is_empty() { None } else { Some(mine.remove(sim::rand_below(mine.len() as u64) as usize)) };
                        if let Some(id) = pick {
                            sim::log_event(t, "w.remove");
                            if let Err(e) = writer.remove(id) {
                                sim::violation("C40.writer-error", "writer-error", format!("remove failed: {e}"));
                            }
                        }
                    }
                    _ => {
                        // remove the younger half of the writer's own channels
                        let cut = mine.len() / 2;
                        let gone: Vec<LocalChannelId> = mine.split_off(cut);
                        sim::log_event(t, "w.remove_if");
                        if let Err(e) = writer.remove_if(|q: RemoveIfParams| gone.contains(&q.local_channel_id)) {
                            sim::violation("C40.writer-error", "writer-error", format!("remove_if failed: {e}"));
                        }
                    }
                });
                if let Err(m) = r {
                    sim::violation("C40.panic", "writer-panic", format!("writer panicked: {m}"));
                    return;
                }
            }
        }));
    }
    for (t, rs) in readers.into_iter().enumerate() {
        let id = ids[t];
        let results = Arc::clone(&results);
        let n = p.seals;
        let ff = p.fault_free;
        hs.push(shuttle::thread::spawn(move || {
            let client = Client::new(rs);
            let mut ctx = match client.setup_seal_ctx(id) {
                Ok(c) => c,
                Err(e) => {
                    sim::violation("C40.seal-failed", "setup-failed", format!("reader {t}: setup_seal_ctx on a live channel failed: {e}"));
                    return;
                }
            };
            let mut next = 0u64;
            for i in 0..n {
                if sim::has_violation() {
                    return;
                }
                let kind = draw_kind(ff);
                let pt = plaintext(t, i);
                match seal_once(t, &client, &mut ctx, kind, &pt) {
                    SealOut::Injected => {
                        sim::log_event(t, "seal injected-failure");
                    }
                    SealOut::Sealed(ct) => {
                        let got = trailer_seq(&ct);
                        sim::log_event(t, &format!("seal ok seq={got:?}"));
                        if got != Some(next) {
                            sim::violation(
                                "C40.seq",
                                "seq-not-consecutive",
                                format!("reader {t}: successful seal #{next} of its context carries sequence number {got:?}"),
                            );
                            return;
                        }
                        results.lock().expect("results")[t].push((t, next, pt, ct));
                        next += 1;
                    }
                    SealOut::Failed(kind, detail) => {
                        // nobody removes a reader's channel in this family
                        sim::violation("C40.seal-failed", &format!("seal-failed:{kind}"), detail);
                        return;
                    }
                    SealOut::Panicked(detail) => {
                        sim::violation("C40.panic", "seal-panic", detail);
                        return;
                    }
                }
            }
        }));
    }
    for h in hs {
        let _ = h.join();
    }
    let sealed = std::mem::take(&mut *results.lock().expect("results"));
    if !sim::has_violation() {
        verify_at_peer(keys, &sealed);
    }
    let misses = sim::with_ctx(|c| c.counters.get("read.cache_miss").copied().unwrap_or(0)).unwrap_or(0);
    let total: usize = sealed.iter().map(Vec::len).sum();
    // a re-derived key was followed by at least one more successful seal
    ExecEnd { nontrivial: misses > 0 && total >= 2 }
}

// ------------------------------------------------------------------ family memory

fn mem_exec(p: P, keys: &Keys) -> ExecEnd {
    draw_faults(p.fault_free);
    let (state, clones) = Mem::create(0, p.readers + 1, 0).expect("memory state");
    let id = state.add(Mem::seal_side(&keys[0]), keys[0].label, keys[0].opener).expect("add");
    // shared oracle state: live contexts, next expected per-channel number
    #[derive(Default)]
    struct Shared {
        live: u32,
        next: u64,
        removal_invoked: bool,
        removed_returned: bool,
        sealed: Sealed,
        setups_ok: u32,
        setups_refused: u32,
    }
    let sh = Arc::new(StdMutex::new(Shared::default()));
    let mut hs = Vec::new();
    let threads = p.readers + 1;
    let remover = if p.writer_ops > 0 { Some(sim::rand_below(threads as u64) as usize) } else { None };
    for (t, st) in clones.into_iter().enumerate() {
        let sh = Arc::clone(&sh);
        let n = p.seals;
        let ff = p.fault_free;
        let writer: Option<memory::State<CS>> = if remover == Some(t) { Some(state.clone()) } else { None };
        hs.push(shuttle::thread::spawn(move || {
            let client = sim::Leaky::new(Client::new(st));
            let writer = sim::Leaky::new(writer);
            for round in 0..2 {
                if sim::has_violation() {
                    return;
                }
                let removed_before = sh.lock().expect("sh").removed_returned;
                sim::log_event(t, "setup");
                let r = sim::quiet_catch(|| client.setup_seal_ctx(id));
                let mut ctx = match r {
                    Err(m) => {
                        sim::violation("C40.panic", "setup-panic", format!("setup_seal_ctx panicked: {m}"));
                        return;
                    }
                    Ok(Err(Error::NotFound(_))) => {
                        sh.lock().expect("sh").setups_refused += 1;
                        sim::log_event(t, "setup refused");
                        continue;
                    }
                    Ok(Err(e)) => {
                        sim::violation("C40.seal-failed", "setup-error", format!("setup_seal_ctx failed with {e}"));
                        return;
                    }
                    Ok(Ok(c)) => sim::Leaky::new(c),
                };
                {
                    let mut s = sh.lock().expect("sh");
                    s.live += 1;
                    s.setups_ok += 1;
                    if s.live > 1 {
                        sim::violation("C40.second-live-context", "second-live-context", format!("task {t}: setup_seal_ctx handed out a second live seal context for the channel"));
                        return;
                    }
                    if removed_before {
                        sim::violation("C40.second-live-context", "context-after-removal", format!("task {t}: setup_seal_ctx succeeded although the channel's removal had returned"));
                        return;
                    }
                }
                sim::log_event(t, "setup ok");
                for i in 0..n {
                    let kind = draw_kind(ff);
                    let pt = plaintext(t, i);
                    let r = seal_once(t, &client, &mut ctx, kind, &pt);
                    match r {
                        SealOut::Injected => {
                            sim::log_event(t, "seal injected-failure");
                        }
                        SealOut::Sealed(ct) => {
                            let got = trailer_seq(&ct);
                            sim::log_event(t, &format!("seal ok seq={got:?}"));
                            let mut s = sh.lock().expect("sh");
                            if got != Some(s.next) {
                                sim::violation(
                                    "C40.seq",
                                    "seq-not-consecutive",
                                    format!("task {t}: successful seal #{} on the channel carries sequence number {got:?}", s.next),
                                );
                                return;
                            }
                            let n0 = s.next;
                            s.sealed.push((0, n0, pt, ct));
                            s.next += 1;
                        }
                        SealOut::Failed(kind, detail) => {
                            // Once the channel's removal has started a seal may fail with NotFound.
                            if kind == "NotFound" && sh.lock().expect("sh").removal_invoked {
                                sim::log_event(t, "seal NotFound");
                                break;
                            }
                            sim::violation("C40.seal-failed", &format!("seal-failed:{kind}"), detail);
                            return;
                        }
                        SealOut::Panicked(detail) => {
                            sim::violation("C40.panic", "seal-panic", detail);
                            return;
                        }
                    }
                }
                // possibly remove the channel while holding the context
                if round == 0 {
                    if let Some(w) = &*writer {
                        sim::log_event(t, "remove");
                        sh.lock().expect("sh").removal_invoked = true;
                        if let Err(e) = w.remove(id) {
                            sim::violation("C40.writer-error", "writer-error", format!("remove failed: {e}"));
                        }
                        sh.lock().expect("sh").removed_returned = true;
                        sim::log_event(t, "remove returned");
                    }
                }
                sh.lock().expect("sh").live -= 1;
                sim::log_event(t, "drop ctx");
                drop(ctx);
            }
        }));
    }
    for h in hs {
        let _ = h.join();
    }
    sim::drop_or_leak(state);
    let (sealed, setups_ok, refused) = {
        let mut s = sh.lock().expect("sh");
        (std::mem::take(&mut s.sealed), s.setups_ok, s.setups_refused)
    };
    if !sim::has_violation() {
        verify_at_peer(keys, &[sealed]);
    }
    ExecEnd { nontrivial: setups_ok >= 2 && refused >= 1 }
}

impl Check for C40 {
    fn id(&self) -> &'static str {
        "C40"
    }

    fn params(&self, rng: &mut vcommon::Rng, _tier: vcommon::Tier, fault_free: bool) -> Value {
        let mem = rng.chance(1, 4);
        json!({
            "family": if mem { "memory" } else { "shm" },
            "readers": rng.range(1, 2),
            "seals": rng.range(2, 5),
            "writer_ops": if mem { rng.range(0, 1) } else { rng.range(1, 4) },
            "others": rng.range(0, 2),
            "fault_free": fault_free,
        })
    }

    fn shrink(&self, p: &Value) -> Vec<Value> {
        let mut out = Vec::new();
        for (k, min) in [("readers", 1u64), ("writer_ops", 1), ("seals", 2), ("others", 0)] {
            let v = p[k].as_u64().unwrap_or(min);
            if v > min {
                let mut q = p.clone();
                q[k] = json!(v - 1);
                out.push(q);
            }
        }
        out
    }

    fn workload(&self, p: &Value, keys: Keys) -> Workload {
        let p = parse(p);
        Arc::new(move || if p.mem { mem_exec(p, &keys) } else { shm_exec(p, &keys) })
    }

    fn budget(&self, tier: vcommon::Tier) -> (u64, usize) {
        match tier {
            vcommon::Tier::Quick => (1000, 80),
            vcommon::Tier::Thorough => (10000, 80),
        }
    }

    fn rule(&self) -> String {
        "one execution = one shuttle schedule of (shm family, 3/4 of the units) a writer doing 1-4 add/remove/remove_if operations on other channels of a real shared-memory table while 1-2 readers (own mapping each) perform 2-5 seals on their own context, of which about half are injected failures (short destination, failing closure, failing key); or (memory family) 2-3 threads racing setup_seal_ctx / 2-5 seals / removal / context drop / re-setup on one memory::State channel; distinct = distinct event-log hash (operations with outcomes and sequence numbers in global order); non-trivial = (shm) a reader went through the cache-miss path (key re-derived from the table at the remembered sequence number) and sealed at least twice, (memory) at least two contexts were granted and at least one setup was refused".into()
    }

    fn components(&self) -> Value {
        json!({
            "real": ["shm::WriteState / shm::ReadState on POSIX shared memory (one mapping per party)", "memory::State, Lender/Loan", "Client::seal / seal_in_place / open", "crate futex Mutex", "aranya-crypto SealKey/OpenKey with really derived channel keys (AES-256-GCM)"],
            "stub": ["thread scheduler (shuttle)", "futex wait/wake and sched_yield (simulated, keyed by offset into the shared object)"],
        })
    }

    fn assumptions(&self) -> Vec<String> {
        vec![
            "sequentially consistent interleavings at atomic-operation granularity only; Miri cannot cross shm_open/mmap, so the shared-memory tables get no weak-memory exploration".into(),
            "shm::ReadState::setup_seal_ctx is called once per channel (a second call restarts at 0 by design; the API documents that the caller must not do it)".into(),
            "memory::State keeps the key inside the channel, so a later context continues the channel's numbering; the oracle requires consecutive numbers per channel there, starting at 0".into(),
        ]
    }
}
