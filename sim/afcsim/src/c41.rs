//! C41 - AFC channel removal takes effect for later operations.
//!
//! One managing writer removes channels (remove, remove_if, remove_all) and
//! adds new ones while 1-2 client threads seal and open through contexts
//! with cached keys, set up contexts and ask `exists`. Both state
//! implementations (real shared memory with one mapping per party;
//! `memory::State`).
//!
//! History oracle with global event numbers:
//! * a removal covering channel c RETURNED before an operation on c was
//!   INVOKED  =>  the operation fails with not-found (`NotFound`, or
//!   `KeyExpired` from a shm seal context that already reported `NotFound`
//!   and was invalidated by it); `exists` answers false; context set-up fails;
//! * no removal covering c was invoked before the operation returned  =>  the
//!   operation succeeds (and an opened message is the plaintext);
//! * in between either outcome is allowed - never a panic, never another error.
//! A removed id therefore never becomes usable or findable again.

use std::{
    collections::BTreeMap,
    sync::{Arc, Mutex as StdMutex},
};

use aranya_fast_channels::{AfcState, AranyaState, Client, Error, LocalChannelId, RemoveIfParams};
use serde_json::{Value, json};

use crate::{
    driver::{Check, Keys, draw_faults},
    sim::{self, ExecEnd, Workload},
    tables::{self, Backend, Mem, OVERHEAD, Sender, Shm, id_u64},
};

pub struct C41;

#[derive(Clone, Copy)]
struct P {
    mem: bool,
    readers: usize,
    chans: usize,
    reader_ops: usize,
    writer_ops: usize,
    fault_free: bool,
}

fn parse(p: &Value) -> P {
    P {
        mem: p["family"] == "memory",
        readers: p["readers"].as_u64().unwrap_or(1) as usize,
        chans: p["chans"].as_u64().unwrap_or(2) as usize,
        reader_ops: p["reader_ops"].as_u64().unwrap_or(2) as usize,
        writer_ops: p["writer_ops"].as_u64().unwrap_or(1) as usize,
        fault_free: p["fault_free"].as_bool().unwrap_or(false),
    }
}

/// Removal status of a channel, by global event number.
#[derive(Clone, Copy, Default)]
struct Removal {
    invoked: bool,
    returned: bool,
}

#[derive(Default)]
struct Model {
    /// channel id -> status
    chans: BTreeMap<u64, Removal>,
}

impl Model {
    fn status(&self, id: u64) -> Removal {
        self.chans.get(&id).copied().unwrap_or_default()
    }
}

struct Chan {
    id: LocalChannelId,
    key: usize,
    seal: bool,
    /// pre-sealed messages for open channels: (plaintext, ciphertext)
    msgs: Vec<(Vec<u8>, Vec<u8>)>,
}

fn exec<B: Backend>(p: P, keys: &Keys) -> ExecEnd {
    draw_faults(p.fault_free);
    let cap = p.chans + 2;
    let (writer, readers) = match B::create(cap, p.readers, sim::rand_u64()) {
        Ok(x) => x,
        Err(e) => vcommon::harness_error(&e),
    };
    let model = Arc::new(StdMutex::new(Model::default()));
    let mut sender = Sender::new(keys);

    // channels, dealt round-robin to the readers
    let mut per_reader: Vec<Vec<Chan>> = (0..p.readers).map(|_| Vec::new()).collect();
    let mut all: Vec<(LocalChannelId, usize)> = Vec::new();
    for c in 0..p.chans {
        let key = c % keys.len();
        let seal = sim::rand_below(2) == 0;
        let id = if seal {
            writer.add(B::seal_side(&keys[key]), keys[key].label, keys[key].opener)
        } else {
            writer.add(B::open_side(&keys[key]), keys[key].label, keys[key].sealer)
        }
        .unwrap_or_else(|e| vcommon::harness_error(&format!("C41 setup add: {e}")));
        let msgs = if seal {
            Vec::new()
        } else {
            (0..2)
                .map(|i| {
                    let pt = vec![0x40 + (c as u8) * 4 + i; 5 + c];
                    let ct = sender.seal(key, &pt);
                    (pt, ct)
                })
                .collect()
        };
        model.lock().expect("model").chans.insert(id_u64(id), Removal::default());
        all.push((id, key));
        per_reader[c % p.readers].push(Chan { id, key, seal, msgs });
    }

    // An id that is no longer in the table: removing it again must change nothing.
    let mut dead_ids: Vec<LocalChannelId> = Vec::new();
    if let Ok(id) = writer.add(B::open_side(&keys[0]), keys[0].label, keys[0].sealer) {
        if writer.remove(id).is_ok() {
            dead_ids.push(id);
        }
    }

    let mut hs = Vec::new();
    // ---- the managing writer
    {
        let model = Arc::clone(&model);
        let keys = Arc::clone(keys);
        let ops = p.writer_ops;
        let mut live: Vec<(LocalChannelId, usize)> = all.clone();
        let nkeys = keys.len();
        hs.push(shuttle::thread::spawn(move || {
            let t = 100;
            for _ in 0..ops {
                if sim::has_violation() {
                    return;
                }
                let what = if live.is_empty() { 3 } else { sim::rand_below(5) };
                // which channels this operation covers
                let covered: Vec<LocalChannelId> = match what {
                    0 => vec![live[sim::rand_below(live.len() as u64) as usize].0],
                    1 => {
                        // by label of a drawn channel: every channel with that key/label
                        let k = live[sim::rand_below(live.len() as u64) as usize].1;
                        live.iter().filter(|(_, kk)| *kk == k).map(|(i, _)| *i).collect()
                    }
                    2 => live.iter().map(|(i, _)| *i).collect(),
                    _ => Vec::new(),
                };
                {
                    let mut m = model.lock().expect("model");
                    for c in &covered {
                        m.chans.entry(id_u64(*c)).or_default().invoked = true;
                    }
                }
                let r = sim::quiet_catch(|| match what {
                    0 => {
                        sim::log_event(t, &format!("remove {}", covered[0]));
                        writer.remove(covered[0]).map_err(|e| e.to_string())
                    }
                    1 => {
                        let label = covered.first().and_then(|c| live.iter().find(|(i, _)| i == c)).map(|(_, k)| keys[*k].label);
                        sim::log_event(t, &format!("remove_if label-of {}", covered[0]));
                        writer.remove_if(|q: RemoveIfParams| Some(q.label_id) == label).map_err(|e| e.to_string())
                    }
                    2 => {
                        sim::log_event(t, "remove_all");
                        writer.remove_all().map_err(|e| e.to_string())
                    }
                    // removal of a channel that is not in the table (removed earlier): a no-op
                    4 => {
                        if dead_ids.is_empty() {
                            Ok(())
                        } else {
                            let id = dead_ids[sim::rand_below(dead_ids.len() as u64) as usize];
                            sim::log_event(t, &format!("remove {id} (absent)"));
                            sim::count("noop_removals");
                            writer.remove(id).map_err(|e| e.to_string())
                        }
                    }
                    _ => {
                        let k = sim::rand_below(nkeys as u64) as usize;
                        sim::log_event(t, "add");
                        match writer.add(B::open_side(&keys[k]), keys[k].label, keys[k].sealer) {
                            Ok(id) => {
                                // a new channel nobody uses; it may be removed later
                                model.lock().expect("model").chans.insert(id_u64(id), Removal::default());
                                live.push((id, k));
                                Ok(())
                            }
                            Err(e) if B::is_out_of_space(&e) => Ok(()),
                            Err(e) => Err(e.to_string()),
                        }
                    }
                });
                match r {
                    Err(m) => {
                        sim::violation("C41.panic", "writer-panic", format!("writer panicked: {m}"));
                        return;
                    }
                    Ok(Err(e)) => {
                        sim::violation("C41.writer-error", "writer-error", format!("writer operation failed: {e}"));
                        return;
                    }
                    Ok(Ok(())) => {}
                }
                {
                    let mut m = model.lock().expect("model");
                    for c in &covered {
                        m.chans.entry(id_u64(*c)).or_default().returned = true;
                    }
                }
                if !covered.is_empty() {
                    sim::log_event(t, "removal returned");
                    sim::count("removals");
                }
                live.retain(|(i, _)| !covered.contains(i));
                dead_ids.extend(covered.iter().copied());
            }
        }));
    }

    // ---- the clients
    for (t, (st, chans)) in readers.into_iter().zip(per_reader).enumerate() {
        let model = Arc::clone(&model);
        let n = p.reader_ops;
        hs.push(shuttle::thread::spawn(move || {
            let client = sim::Leaky::new(Client::new(st));
            let mut seal_ctx: sim::Leaky<Vec<Option<<B::R as AfcState>::SealCtx>>> = sim::Leaky::new(chans.iter().map(|_| None).collect());
            let mut open_ctx: sim::Leaky<Vec<Option<<B::R as AfcState>::OpenCtx>>> = sim::Leaky::new(chans.iter().map(|_| None).collect());
            // a shm seal context that reported NotFound is invalidated
            let mut invalidated = vec![false; chans.len()];
            // one seal context per channel, ever
            let mut seal_set_up = vec![false; chans.len()];
            if chans.is_empty() {
                return;
            }
            for _ in 0..n {
                if sim::has_violation() {
                    return;
                }
                let ci = sim::rand_below(chans.len() as u64) as usize;
                let ch = &chans[ci];
                let idn = id_u64(ch.id);
                let before = model.lock().expect("model").status(idn);
                let op = sim::rand_below(4);
                // outcome: Ok(true)=succeeded, Ok(false)=not found, Err=other
                let mut name = "";
                let r = sim::quiet_catch(|| -> Result<bool, String> {
                    if op == 0 {
                        name = "exists";
                        return AfcState::exists(client.state(), ch.id).map_err(|e| e.to_string());
                    }
                    if ch.seal {
                        if seal_ctx[ci].is_none() {
                            if seal_set_up[ci] {
                                name = "exists";
                                return AfcState::exists(client.state(), ch.id).map_err(|e| e.to_string());
                            }
                            name = "setup_seal_ctx";
                            seal_set_up[ci] = true;
                            return match client.setup_seal_ctx(ch.id) {
                                Ok(c) => {
                                    seal_ctx[ci] = Some(c);
                                    Ok(true)
                                }
                                Err(Error::NotFound(_)) => Ok(false),
                                Err(e) => Err(format!("{} ({e})", tables::err_kind(&e))),
                            };
                        }
                        name = "seal";
                        let pt = [7u8; 9];
                        let mut dst = vec![0u8; pt.len() + OVERHEAD];
                        let ctx = seal_ctx[ci].as_mut().expect("ctx");
                        match client.seal(ctx, &mut dst, &pt) {
                            Ok(_) => Ok(true),
                            Err(Error::NotFound(_)) => {
                                invalidated[ci] = true;
                                Ok(false)
                            }
                            Err(Error::KeyExpired) if invalidated[ci] => Ok(false),
                            Err(e) => Err(format!("{} ({e})", tables::err_kind(&e))),
                        }
                    } else {
                        if open_ctx[ci].is_none() {
                            name = "setup_open_ctx";
                            return match client.setup_open_ctx(ch.id) {
                                Ok(c) => {
                                    open_ctx[ci] = Some(c);
                                    Ok(true)
                                }
                                Err(Error::NotFound(_)) => Ok(false),
                                Err(e) => Err(format!("{} ({e})", tables::err_kind(&e))),
                            };
                        }
                        name = "open";
                        let (pt, ct) = &ch.msgs[sim::rand_below(ch.msgs.len() as u64) as usize];
                        let mut dst = vec![0u8; pt.len()];
                        let ctx = open_ctx[ci].as_mut().expect("ctx");
                        match client.open(ctx, &mut dst, ct) {
                            Ok(_) if dst == *pt => Ok(true),
                            Ok(_) => Err("opened to a wrong plaintext".into()),
                            Err(Error::NotFound(_)) => Ok(false),
                            Err(e) => Err(format!("{} ({e})", tables::err_kind(&e))),
                        }
                    }
                });
                let after = model.lock().expect("model").status(idn);
                let _ = ch.key;
                match r {
                    Err(m) => {
                        sim::violation("C41.panic", &format!("{name}:panic"), format!("client {t}: {name} panicked: {m}"));
                        return;
                    }
                    Ok(Err(e)) => {
                        sim::violation("C41.wrong-error", &format!("{name}:wrong-error"), format!("client {t}: {name} failed with {e}"));
                        return;
                    }
                    Ok(Ok(found)) => {
                        let phase = if before.returned {
                            "after-removal"
                        } else if after.invoked {
                            "during-removal"
                        } else {
                            "live"
                        };
                        sim::log_event(t, &format!("{name} c{ci} {} [{phase}]", if found { "ok" } else { "not-found" }));
                        sim::count(match (phase, found) {
                            ("after-removal", _) => "ops.after_removal",
                            ("during-removal", true) => "ops.during_removal_ok",
                            ("during-removal", false) => "ops.during_removal_notfound",
                            _ => "ops.live",
                        });
                        if before.returned && found {
                            sim::violation(
                                "C41.removed-still-usable",
                                &format!("{name}:usable-after-removal"),
                                format!("client {t}: {name} on channel {} succeeded although its removal had already returned", ch.id),
                            );
                            return;
                        }
                        if !after.invoked && !found {
                            sim::violation(
                                "C41.survivor-failed",
                                &format!("{name}:not-found-on-live-channel"),
                                format!("client {t}: {name} on channel {} reported not-found although no removal covering it had started", ch.id),
                            );
                            return;
                        }
                    }
                }
            }
        }));
    }
    for h in hs {
        let _ = h.join();
    }
    let (after, removals) = sim::with_ctx(|c| {
        (c.counters.get("ops.after_removal").copied().unwrap_or(0), c.counters.get("removals").copied().unwrap_or(0))
    })
    .unwrap_or((0, 0));
    let during = sim::with_ctx(|c| c.counters.get("ops.during_removal_ok").copied().unwrap_or(0) + c.counters.get("ops.during_removal_notfound").copied().unwrap_or(0)).unwrap_or(0);
    ExecEnd { nontrivial: removals > 0 && (after > 0 || during > 0) }
}

impl Check for C41 {
    fn id(&self) -> &'static str {
        "C41"
    }

    fn params(&self, rng: &mut vcommon::Rng, _tier: vcommon::Tier, fault_free: bool) -> Value {
        json!({
            "family": if rng.chance(1, 3) { "memory" } else { "shm" },
            "readers": rng.range(1, 2),
            "chans": rng.range(1, 4),
            "reader_ops": rng.range(2, 6),
            "writer_ops": rng.range(1, 4),
            "fault_free": fault_free,
        })
    }

    fn shrink(&self, p: &Value) -> Vec<Value> {
        let mut out = Vec::new();
        for (k, min) in [("readers", 1u64), ("chans", 1), ("writer_ops", 1), ("reader_ops", 1)] {
            let v = p[k].as_u64().unwrap_or(min);
            if v > min {
                let mut q = p.clone();
                q[k] = json!(v - 1);
                out.push(q);
            }
        }
        out
    }

    fn workload(&self, p: &Value, keys: Keys) -> Workload {
        let p = parse(p);
        Arc::new(move || if p.mem { exec::<Mem>(p, &keys) } else { exec::<Shm>(p, &keys) })
    }

    fn budget(&self, tier: vcommon::Tier) -> (u64, usize) {
        match tier {
            vcommon::Tier::Quick => (1000, 80),
            vcommon::Tier::Thorough => (10000, 80),
        }
    }

    fn rule(&self) -> String {
        "one execution = one shuttle schedule of a managing writer doing 1-4 operations (remove one channel / remove_if by label / remove_all / add) against 1-2 client threads doing 2-6 operations each (context set-up, seal, open of pre-sealed real traffic, exists) on 1-4 channels, on real shared memory (2/3 of the units, one mapping per party) or memory::State (1/3); every client outcome is judged against the removal status of its channel at the operation's invoke and return events (global event numbers); distinct = distinct event-log hash; non-trivial = at least one removal and at least one client operation on a covered channel that started after the removal returned or overlapped it".into()
    }

    fn components(&self) -> Value {
        json!({
            "real": ["shm::WriteState::{add,remove,remove_if,remove_all}", "shm::ReadState::{setup_*_ctx,seal,open,exists} with cached keys", "memory::State, Lender/Loan revocation", "Client::seal/open", "crate futex Mutex", "real AFC keys and AEAD"],
            "stub": ["thread scheduler (shuttle)", "futex wait/wake and sched_yield (simulated, keyed by offset into the shared object)"],
        })
    }

    fn assumptions(&self) -> Vec<String> {
        vec![
            "`KeyExpired` from a shared-memory seal context that has itself already returned `NotFound` (the state invalidates the context on purpose) is counted as not-found".into(),
            "sequentially consistent interleavings at atomic-operation granularity only (no weak-memory exploration of the shared-memory tables)".into(),
            "remove_if predicates are pure (same answer on both internal copies)".into(),
        ]
    }
}
