//! C42 - AFC shared-memory channel tables stay consistent.
//!
//! Real `shm::WriteState` (single writer) and 1-2 `shm::ReadState`s, each on
//! its own mapping of one POSIX shared-memory object with capacity 2-4.
//! The writer runs a drawn sequence of add / remove / remove_if /
//! remove_all / exists against a model (the sequence of channel sets after
//! each operation); readers take table snapshots exactly as `seal`, `open`
//! and `exists` consult the table (current read offset, list lock) and also
//! seal / open / ask `exists` with cached keys so that the cache-miss, hint
//! and stale-hint paths run.
//!
//! Oracles: (1) every reader snapshot equals a channel set the writer had
//! produced by then (or the result of the operation in progress);
//! (2) whenever no writer operation is in progress both internal copies hold
//! exactly the model's channel set; (3) ids of successful adds strictly
//! increase, also across removals and failed adds; (4) `add` fails with
//! out-of-space exactly when the model table is full; (5) the writer's
//! `exists` agrees with the model.

use std::{
    collections::BTreeSet,
    sync::{Arc, Mutex as StdMutex},
};

use aranya_fast_channels::{AfcState, AranyaState, Client, Error, LocalChannelId, RemoveIfParams, shm};
use serde_json::{Value, json};

use crate::{
    driver::{Check, Keys, draw_faults},
    sim::{self, ExecEnd, Workload},
    tables::{self, Backend, OVERHEAD, Sender, Shm, id_u64},
};

pub struct C42;

#[derive(Clone, Copy)]
struct P {
    cap: usize,
    readers: usize,
    writer_ops: usize,
    reader_ops: usize,
    fault_free: bool,
}

fn parse(p: &Value) -> P {
    P {
        cap: p["cap"].as_u64().unwrap_or(2) as usize,
        readers: p["readers"].as_u64().unwrap_or(1) as usize,
        writer_ops: p["writer_ops"].as_u64().unwrap_or(3) as usize,
        reader_ops: p["reader_ops"].as_u64().unwrap_or(2) as usize,
        fault_free: p["fault_free"].as_bool().unwrap_or(false),
    }
}

#[derive(Default)]
struct Model {
    /// Channel sets produced so far: `sets[0]` is the initial table.
    sets: Vec<BTreeSet<u64>>,
    /// Set the operation in progress will produce; `None` for an add whose
    /// id is not known yet (then: current set plus one never used id).
    pending: Option<Option<BTreeSet<u64>>>,
    /// Every id ever returned by add.
    used: BTreeSet<u64>,
    /// The same ids as handed out (removed channels included), for lookups by readers.
    all_ids: Vec<LocalChannelId>,
    /// (id, pool key, is seal side) of the channels currently in the table.
    live: Vec<(LocalChannelId, usize, bool)>,
}

impl Model {
    fn cur(&self) -> &BTreeSet<u64> {
        self.sets.last().expect("sets never empty")
    }

    /// Is `snap` a set the writer produced (or is producing right now)?
    fn explains(&self, snap: &BTreeSet<u64>) -> bool {
        if self.sets.iter().any(|s| s == snap) {
            return true;
        }
        match &self.pending {
            Some(Some(s)) => s == snap,
            Some(None) => {
                // add in progress: current set plus exactly one fresh id
                let cur = self.cur();
                snap.len() == cur.len() + 1 && cur.is_subset(snap) && snap.difference(cur).all(|x| !self.used.contains(x) && self.used.iter().all(|u| u < x))
            }
            None => false,
        }
    }
}

fn side_set(w: &<Shm as Backend>::W, side: usize) -> Result<(BTreeSet<u64>, usize, u32), shm::Error> {
    let mut v = Vec::new();
    let generation = w.verif_side_snapshot(side, &mut |id| v.push(id))?;
    let n = v.len();
    Ok((v.into_iter().collect(), n, generation))
}

fn exec(p: P, keys: &Keys) -> ExecEnd {
    draw_faults(p.fault_free);
    let (writer, readers) = match Shm::create(p.cap, p.readers, sim::rand_u64()) {
        Ok(x) => x,
        Err(e) => vcommon::harness_error(&e),
    };
    let mut sender = Sender::new(keys);
    // pre-sealed traffic per pool key for `open`
    let msgs: Arc<Vec<(Vec<u8>, Vec<u8>)>> = Arc::new(
        (0..keys.len())
            .map(|k| {
                let pt = vec![0x30 + k as u8; 4 + k];
                let ct = sender.seal(k, &pt);
                (pt, ct)
            })
            .collect(),
    );
    // The table starts with 0-2 channels (never full), so that readers hold
    // cached keys from the first moment.
    let mut init = Model { sets: vec![BTreeSet::new()], ..Model::default() };
    let pre = (sim::rand_below(3) as usize).min(p.cap - 1);
    let mut first_id: Option<u64> = None;
    for k in 0..pre {
        let seal = k == 0;
        let r = if seal {
            writer.add(Shm::seal_side(&keys[k]), keys[k].label, keys[k].opener)
        } else {
            writer.add(Shm::open_side(&keys[k]), keys[k].label, keys[k].sealer)
        };
        let id = r.unwrap_or_else(|e| vcommon::harness_error(&format!("C42 setup add: {e}")));
        let idn = id_u64(id);
        init.used.insert(idn);
        init.all_ids.push(id);
        init.sets[0].insert(idn);
        init.live.push((id, k, seal));
        first_id = Some(first_id.map_or(idn, |f: u64| f.max(idn)));
    }
    let initial_live = init.live.clone();
    let model = Arc::new(StdMutex::new(init));

    let mut hs = Vec::new();
    {
        let model = Arc::clone(&model);
        let keys = Arc::clone(keys);
        let ops = p.writer_ops;
        let cap = p.cap;
        hs.push(shuttle::thread::spawn(move || {
            let t = 100;
            let mut last_id: Option<u64> = first_id;
            for _ in 0..ops {
                if sim::has_violation() {
                    return;
                }
                let (nlive, pick) = {
                    let m = model.lock().expect("model");
                    let n = m.live.len();
                    (n, if n > 0 { Some(m.live[sim::rand_below(n as u64) as usize]) } else { None })
                };
                // bias towards add while there is room, so that the table fills up
                let what = match sim::rand_below(10) {
                    0..=3 => 0,
                    4 | 5 => 1,
                    6 => 2,
                    7 => 3,
                    8 => 4,
                    _ => 0,
                };
                let r = sim::quiet_catch(|| -> Result<(), (String, String)> {
                    match what {
                        // ---- add
                        0 => {
                            let k = sim::rand_below(keys.len() as u64) as usize;
                            let seal = sim::rand_below(2) == 0;
                            model.lock().expect("model").pending = Some(None);
                            sim::log_event(t, "add");
                            let r = if seal {
                                writer.add(Shm::seal_side(&keys[k]), keys[k].label, keys[k].opener)
                            } else {
                                writer.add(Shm::open_side(&keys[k]), keys[k].label, keys[k].sealer)
                            };
                            let mut m = model.lock().expect("model");
                            m.pending = None;
                            let full = nlive >= cap;
                            match r {
                                Ok(id) => {
                                    let idn = id_u64(id);
                                    sim::log_event(t, &format!("add -> {idn}"));
                                    if full {
                                        return Err(("C42.out-of-space".into(), format!("add succeeded (id {idn}) although the table already holds {nlive} of {cap} channels")));
                                    }
                                    if last_id.is_some_and(|l| idn <= l) || m.used.contains(&idn) {
                                        return Err(("C42.id-reused".into(), format!("add returned id {idn} after id {last_id:?} had been handed out")));
                                    }
                                    last_id = Some(idn);
                                    m.used.insert(idn);
                                    m.all_ids.push(id);
                                    let mut s = m.cur().clone();
                                    s.insert(idn);
                                    m.sets.push(s);
                                    m.live.push((id, k, seal));
                                }
                                Err(e) if Shm::is_out_of_space(&e) => {
                                    sim::log_event(t, "add -> out-of-space");
                                    sim::count("add.out_of_space");
                                    if !full {
                                        return Err(("C42.out-of-space".into(), format!("add reported out-of-space although the table holds only {nlive} of {cap} channels")));
                                    }
                                    let s = m.cur().clone();
                                    m.sets.push(s);
                                }
                                Err(e) => return Err(("C42.writer-error".into(), format!("add failed: {e}"))),
                            }
                        }
                        // ---- remove one (a live one, or one that is already gone)
                        1 => {
                            let target: Option<LocalChannelId> = pick.map(|x| x.0);
                            let Some(id) = target else { return Ok(()) };
                            let idn = id_u64(id);
                            {
                                let mut m = model.lock().expect("model");
                                let mut s = m.cur().clone();
                                s.remove(&idn);
                                m.pending = Some(Some(s));
                            }
                            sim::log_event(t, &format!("remove {idn}"));
                            let r = writer.remove(id);
                            let mut m = model.lock().expect("model");
                            let s = m.pending.take().flatten().expect("pending");
                            m.sets.push(s);
                            m.live.retain(|x| x.0 != id);
                            r.map_err(|e| ("C42.writer-error".to_string(), format!("remove failed: {e}")))?;
                        }
                        // ---- remove_if (by label of a live channel, or nothing)
                        2 => {
                            let label = pick.map(|x| keys[x.1].label);
                            let gone: Vec<LocalChannelId> = {
                                let mut m = model.lock().expect("model");
                                let gone: Vec<LocalChannelId> = m.live.iter().filter(|x| Some(keys[x.1].label) == label).map(|x| x.0).collect();
                                let mut s = m.cur().clone();
                                for g in &gone {
                                    s.remove(&id_u64(*g));
                                }
                                m.pending = Some(Some(s));
                                gone
                            };
                            sim::log_event(t, &format!("remove_if ({} match)", gone.len()));
                            let r = writer.remove_if(|q: RemoveIfParams| Some(q.label_id) == label);
                            let mut m = model.lock().expect("model");
                            let s = m.pending.take().flatten().expect("pending");
                            m.sets.push(s);
                            m.live.retain(|x| !gone.contains(&x.0));
                            r.map_err(|e| ("C42.writer-error".to_string(), format!("remove_if failed: {e}")))?;
                        }
                        // ---- remove_all
                        3 => {
                            model.lock().expect("model").pending = Some(Some(BTreeSet::new()));
                            sim::log_event(t, "remove_all");
                            let r = writer.remove_all();
                            let mut m = model.lock().expect("model");
                            m.pending = None;
                            m.sets.push(BTreeSet::new());
                            m.live.clear();
                            r.map_err(|e| ("C42.writer-error".to_string(), format!("remove_all failed: {e}")))?;
                        }
                        // ---- exists (no table change)
                        _ => {
                            if let Some((id, _, _)) = pick {
                                let want = model.lock().expect("model").cur().contains(&id_u64(id));
                                let got = AranyaState::exists(&writer, id).map_err(|e| ("C42.writer-error".to_string(), format!("exists failed: {e}")))?;
                                sim::log_event(t, &format!("w.exists {} -> {got}", id_u64(id)));
                                if got != want {
                                    return Err(("C42.exists".into(), format!("writer exists({}) = {got}, model says {want}", id_u64(id))));
                                }
                            }
                            return Ok(());
                        }
                    }
                    // no writer operation in progress: both copies hold the model's set
                    let want = model.lock().expect("model").cur().clone();
                    for side in 0..2 {
                        let (got, n, _generation) = side_set(&writer, side).map_err(|e| ("C42.writer-error".to_string(), format!("snapshot failed: {e}")))?;
                        if got != want || n != want.len() {
                            return Err((
                                "C42.copies-differ".into(),
                                format!("after a writer operation copy {side} holds {got:?} ({n} entries) but the writer produced {want:?}"),
                            ));
                        }
                    }
                    sim::count("quiescent_checks");
                    Ok(())
                });
                match r {
                    Err(m) => {
                        sim::violation("C42.panic", "writer-panic", format!("writer panicked: {m}"));
                        return;
                    }
                    Ok(Err((class, detail))) => {
                        let sig = class.trim_start_matches("C42.").to_string();
                        sim::violation(&class, &sig, detail);
                        return;
                    }
                    Ok(Ok(())) => {}
                }
            }
        }));
    }

    for (t, st) in readers.into_iter().enumerate() {
        let model = Arc::clone(&model);
        let msgs = Arc::clone(&msgs);
        let initial_live = initial_live.clone();
        let n = p.reader_ops;
        hs.push(shuttle::thread::spawn(move || {
            let client = Client::new(st);
            // contexts this reader holds: (id, key, seal?, ctx)
            let mut seal_ctx: Vec<(LocalChannelId, <<Shm as Backend>::R as AfcState>::SealCtx)> = Vec::new();
            let mut open_ctx: Vec<(LocalChannelId, usize, <<Shm as Backend>::R as AfcState>::OpenCtx)> = Vec::new();
            let mut sealed_ids: BTreeSet<u64> = BTreeSet::new();
            for (id, k, seal) in &initial_live {
                if *seal {
                    if t == 0 && sealed_ids.insert(id_u64(*id)) {
                        if let Ok(c) = client.setup_seal_ctx(*id) {
                            seal_ctx.push((*id, c));
                        }
                    }
                } else if let Ok(c) = client.setup_open_ctx(*id) {
                    open_ctx.push((*id, *k, c));
                }
            }
            for _ in 0..n {
                if sim::has_violation() {
                    return;
                }
                let op = match sim::rand_below(12) {
                    0..=3 => 0,
                    4 | 5 => 2,
                    6 | 7 => 3,
                    8 | 9 => 4,
                    _ => 5,
                };
                let r = sim::quiet_catch(|| -> Result<(), (String, String)> {
                    match op {
                        // ---- table snapshot, as seal/open/exists consult it
                        0 | 1 => {
                            let mut v = Vec::new();
                            let generation = client.state().verif_read_snapshot(&mut |id| v.push(id)).map_err(|e| ("C42.reader-error".to_string(), format!("snapshot failed: {e}")))?;
                            let n = v.len();
                            let snap: BTreeSet<u64> = v.into_iter().collect();
                            let m = model.lock().expect("model");
                            sim::log_event(t, &format!("snapshot {snap:?}"));
                            sim::count("reader_snapshots");
                            if m.pending.is_some() {
                                sim::count("reader_snapshots_during_writer_op");
                            }
                            let _ = generation;
                            if n != snap.len() {
                                return Err(("C42.unknown-table".into(), format!("reader {t} saw a table with duplicate ids ({n} entries, {} distinct)", snap.len())));
                            }
                            if !m.explains(&snap) {
                                return Err((
                                    "C42.unknown-table".into(),
                                    format!("reader {t} saw the channel set {snap:?}, which the writer never produced (produced so far: {:?}, in progress: {:?})", m.sets, m.pending),
                                ));
                            }
                        }
                        // ---- set up a context on a channel currently in the model
                        2 => {
                            let pick = {
                                let m = model.lock().expect("model");
                                if m.live.is_empty() { None } else { Some(m.live[sim::rand_below(m.live.len() as u64) as usize]) }
                            };
                            if let Some((id, k, seal)) = pick {
                                if seal {
                                    // one seal context per channel, ever (API contract)
                                    if sealed_ids.insert(id_u64(id)) && t == 0 {
                                        if let Ok(c) = client.setup_seal_ctx(id) {
                                            seal_ctx.push((id, c));
                                        }
                                    }
                                } else if let Ok(c) = client.setup_open_ctx(id) {
                                    open_ctx.push((id, k, c));
                                }
                                sim::log_event(t, "setup ctx");
                            }
                        }
                        // ---- use a cached context (whatever happened to the channel)
                        3 => {
                            if !seal_ctx.is_empty() {
                                let i = sim::rand_below(seal_ctx.len() as u64) as usize;
                                let mut dst = vec![0u8; 4 + OVERHEAD];
                                let r = client.seal(&mut seal_ctx[i].1, &mut dst, &[1, 2, 3, 4]);
                                sim::log_event(t, &format!("seal -> {}", r.as_ref().map(|_| "ok").unwrap_or_else(|e| tables::err_kind(e))));
                                match r {
                                    Ok(_) | Err(Error::NotFound(_)) | Err(Error::KeyExpired) => {}
                                    Err(e) => return Err(("C42.reader-error".into(), format!("seal failed with {e}"))),
                                }
                            }
                        }
                        // ---- `exists` through the reader state: the table it consults must be one
                        // the writer produced between the call's invocation and its return.
                        5 => {
                            let (id, first) = {
                                let m = model.lock().expect("model");
                                if m.all_ids.is_empty() {
                                    return Ok(());
                                }
                                (m.all_ids[sim::rand_below(m.all_ids.len() as u64) as usize], m.sets.len() - 1)
                            };
                            let lid = id;
                            let id = id_u64(lid);
                            let got = AfcState::exists(client.state(), lid).map_err(|e| ("C42.reader-error".to_string(), format!("exists failed: {e}")))?;
                            let m = model.lock().expect("model");
                            sim::log_event(t, &format!("r.exists {id} -> {got}"));
                            sim::count("reader_exists");
                            let mut candidates: Vec<bool> = m.sets[first..].iter().map(|s| s.contains(&id)).collect();
                            match &m.pending {
                                Some(Some(s)) => candidates.push(s.contains(&id)),
                                // an add in progress only adds a never-used id; `id` was used before
                                Some(None) => candidates.push(m.cur().contains(&id)),
                                None => {}
                            }
                            if candidates.len() > 1 {
                                sim::count("reader_exists_overlapping_writer_op");
                            }
                            if !candidates.contains(&got) {
                                return Err((
                                    "C42.unknown-table".into(),
                                    format!("reader {t}: exists({id}) = {got}, but every channel set the writer produced during the call ({} of them) says {}", candidates.len(), !got),
                                ));
                            }
                        }
                        _ => {
                            if !open_ctx.is_empty() {
                                let i = sim::rand_below(open_ctx.len() as u64) as usize;
                                let (pt, ct) = &msgs[open_ctx[i].1];
                                let mut dst = vec![0u8; pt.len()];
                                let r = client.open(&mut open_ctx[i].2, &mut dst, ct);
                                sim::log_event(t, &format!("open -> {}", r.as_ref().map(|_| "ok").unwrap_or_else(|e| tables::err_kind(e))));
                                match r {
                                    Ok(_) if dst == *pt => {}
                                    Ok(_) => return Err(("C42.reader-error".into(), "open returned a wrong plaintext".into())),
                                    Err(Error::NotFound(_)) => {}
                                    Err(e) => return Err(("C42.reader-error".into(), format!("open failed with {e}"))),
                                }
                            }
                        }
                    }
                    Ok(())
                });
                match r {
                    Err(m) => {
                        sim::violation("C42.panic", "reader-panic", format!("reader {t} panicked: {m}"));
                        return;
                    }
                    Ok(Err((class, detail))) => {
                        let sig = class.trim_start_matches("C42.").to_string();
                        sim::violation(&class, &sig, detail);
                        return;
                    }
                    Ok(Ok(())) => {}
                }
            }
        }));
    }
    for h in hs {
        let _ = h.join();
    }
    let (oos, during, sets) = {
        let m = model.lock().expect("model");
        let c = sim::with_ctx(|c| (c.counters.get("add.out_of_space").copied().unwrap_or(0), c.counters.get("reader_snapshots_during_writer_op").copied().unwrap_or(0))).unwrap_or((0, 0));
        (c.0, c.1, m.sets.iter().collect::<BTreeSet<_>>().len())
    };
    ExecEnd { nontrivial: sets >= 3 && (during > 0 || oos > 0) }
}

impl Check for C42 {
    fn id(&self) -> &'static str {
        "C42"
    }

    fn params(&self, rng: &mut vcommon::Rng, _tier: vcommon::Tier, fault_free: bool) -> Value {
        json!({
            "cap": rng.range(2, 4),
            "readers": rng.range(1, 2),
            "writer_ops": rng.range(3, 8),
            "reader_ops": rng.range(2, 6),
            "fault_free": fault_free,
        })
    }

    fn shrink(&self, p: &Value) -> Vec<Value> {
        let mut out = Vec::new();
        for (k, min) in [("readers", 1u64), ("writer_ops", 1), ("reader_ops", 1), ("cap", 1)] {
            let v = p[k].as_u64().unwrap_or(min);
            if v > min {
                let mut q = p.clone();
                q[k] = json!(v - 1);
                out.push(q);
            }
        }
        out
    }

    fn workload(&self, p: &Value, keys: Keys) -> Workload {
        let p = parse(p);
        Arc::new(move || exec(p, &keys))
    }

    fn budget(&self, tier: vcommon::Tier) -> (u64, usize) {
        match tier {
            vcommon::Tier::Quick => (1000, 80),
            vcommon::Tier::Thorough => (10000, 80),
        }
    }

    fn rule(&self) -> String {
        "one execution = one shuttle schedule of a single writer doing 3-8 drawn operations (add 50%, remove 20%, remove_if by label 10%, remove_all 10%, exists 10%) on a real shared-memory table of capacity 2-4 against 1-2 readers (own mapping each) doing 2-6 operations (locked table snapshot 40%, context set-up, seal and open through cached contexts); the model is the sequence of channel sets the writer produced; distinct = distinct event-log hash; non-trivial = the writer produced at least 3 different channel sets and either a reader snapshot overlapped a writer operation or an add hit the full table".into()
    }

    fn components(&self) -> Value {
        json!({
            "real": ["shm::WriteState::{add,remove,remove_if,remove_all,exists}", "shm/shared.rs ChanListData (generation, len/cap, swap_remove), SharedMem offsets and next_chan_id", "shm::ReadState::{setup_*_ctx,seal,open} and the reader's locked view of the current read list", "POSIX shared memory, one mapping per party", "crate futex Mutex"],
            "stub": ["thread scheduler (shuttle)", "futex wait/wake and sched_yield (simulated, keyed by offset into the shared object)"],
        })
    }

    fn assumptions(&self) -> Vec<String> {
        vec![
            "reader snapshots are taken through a verification-only accessor that does what seal/open/exists do (load the read offset, lock that list) and lists the ids".into(),
            "single writer (the type is !Sync); sequentially consistent interleavings at atomic-operation granularity only".into(),
            "membership, not recency, is required of reader snapshots (recency of removals is C41)".into(),
        ]
    }
}
