//! C44 - channel loans are exclusive and freed exactly once.
//!
//! Family "lender": the real `Lender` / `Loan` pair (exported under the
//! verification guard) with a drop-counting payload. 2-3 borrower threads
//! share the lender through an `Arc` (the thread that drops the last clone
//! drops the lender - a drawn thread, at a drawn time), race `lend`, access
//! the data through the loan, and drop the loan at drawn times.
//! Family "state": the same through `memory::State`: threads race
//! `setup_seal_ctx`, seal through the context, `remove` of the channel,
//! context drop and re-set-up.
//!
//! Oracles: never two live loans / contexts; once the lender's drop (the
//! removal) has returned, every later access through the loan fails; the
//! payload is not dropped while the lender or a loan is alive and is dropped
//! exactly once after both are gone (state family: the number of
//! `BiArc` frees equals the number of channels added once everything is
//! dropped).

use std::sync::{
    Arc, Mutex as StdMutex,
    atomic::{AtomicBool, AtomicU32, Ordering},
};

use aranya_fast_channels::{
    AranyaState, Client, Error,
    memory::{self, VerifLender as Lender, VerifLoan as Loan},
};
use serde_json::{Value, json};

use crate::{
    driver::{Check, Keys, draw_faults},
    keys::CS,
    sim::{self, ExecEnd, Workload},
    tables::{Backend, Mem, OVERHEAD},
};

pub struct C44;

#[derive(Clone, Copy)]
struct P {
    state_family: bool,
    threads: usize,
    rounds: usize,
    fault_free: bool,
}

fn parse(p: &Value) -> P {
    P {
        state_family: p["family"] == "state",
        threads: p["threads"].as_u64().unwrap_or(2) as usize,
        rounds: p["rounds"].as_u64().unwrap_or(1) as usize,
        fault_free: p["fault_free"].as_bool().unwrap_or(false),
    }
}

/// Counts its own drops.
struct Payload {
    drops: Arc<AtomicU32>,
    value: u32,
}

impl Drop for Payload {
    fn drop(&mut self) {
        self.drops.fetch_add(1, Ordering::SeqCst);
    }
}

/// The lender plus a flag that is set once its drop has returned.
struct Tracked {
    lender: Option<Lender<Payload, Payload>>,
    gone: Arc<AtomicBool>,
}

impl Drop for Tracked {
    fn drop(&mut self) {
        sim::log_event(99, "lender drop");
        drop(self.lender.take());
        self.gone.store(true, Ordering::SeqCst);
        sim::log_event(99, "lender drop returned");
    }
}

fn lender_exec(p: P) -> ExecEnd {
    draw_faults(p.fault_free);
    let drops_s = Arc::new(AtomicU32::new(0));
    let drops_x = Arc::new(AtomicU32::new(0));
    let gone = Arc::new(AtomicBool::new(false));
    let live = Arc::new(AtomicU32::new(0));
    let stats = Arc::new(StdMutex::new((0u32, 0u32, 0u32))); // loans granted, refused, revoked accesses
    let tracked = Arc::new(Tracked {
        lender: Some(Lender::new(Payload { drops: Arc::clone(&drops_s), value: 7 }, Payload { drops: Arc::clone(&drops_x), value: 0 })),
        gone: Arc::clone(&gone),
    });
    let mut hs = Vec::new();
    for t in 0..p.threads {
        let mine = Arc::clone(&tracked);
        let (drops_s, drops_x, gone, live, stats) = (Arc::clone(&drops_s), Arc::clone(&drops_x), Arc::clone(&gone), Arc::clone(&live), Arc::clone(&stats));
        let rounds = p.rounds;
        hs.push(shuttle::thread::spawn(move || {
            let mut mine = sim::Leaky::new(Some(mine));
            let mut loan: sim::Leaky<Option<Loan<Payload, Payload>>> = sim::Leaky::new(None);
            let steps = rounds * 4;
            for _ in 0..steps {
                if sim::has_violation() {
                    break;
                }
                let r = sim::quiet_catch(|| {
                    match sim::rand_below(4) {
                        // lend
                        0 => {
                            if loan.is_none() {
                                if let Some(l) = mine.as_ref().and_then(|m| m.lender.as_ref()) {
                                    match l.lend() {
                                        Some(x) => {
                                            let n = live.fetch_add(1, Ordering::SeqCst) + 1;
                                            sim::log_event(t, "lend -> loan");
                                            stats.lock().expect("stats").0 += 1;
                                            if n > 1 {
                                                sim::violation("C44.two-live-loans", "two-live-loans", format!("task {t}: lend handed out a loan while {} other loan(s) were live", n - 1));
                                            }
                                            *loan = Some(x);
                                        }
                                        None => {
                                            sim::log_event(t, "lend -> refused");
                                            stats.lock().expect("stats").1 += 1;
                                        }
                                    }
                                }
                            }
                        }
                        // access through the loan
                        1 => {
                            if let Some(l) = loan.as_mut() {
                                let gone_before = gone.load(Ordering::SeqCst);
                                match l.get_mut() {
                                    Some((s, x)) => {
                                        let freed = drops_s.load(Ordering::SeqCst) + drops_x.load(Ordering::SeqCst);
                                        sim::log_event(t, "access -> data");
                                        if gone_before {
                                            sim::violation("C44.access-after-revoke", "access-after-revoke", format!("task {t}: the loan still gave access after the lender's drop had returned"));
                                        } else if freed != 0 {
                                            sim::violation("C44.freed-early", "freed-while-accessible", format!("task {t}: the data was already dropped while the loan still gave access to it"));
                                        } else if s.value != 7 {
                                            sim::violation("C44.freed-early", "data-corrupted", format!("task {t}: the shared data reads {}", s.value));
                                        } else {
                                            x.value = x.value.wrapping_add(1);
                                        }
                                    }
                                    None => {
                                        sim::log_event(t, "access -> revoked");
                                        stats.lock().expect("stats").2 += 1;
                                        if !gone_before && mine.is_some() {
                                            // this thread still holds the lender alive
                                            sim::violation("C44.revoked-early", "revoked-while-lender-alive", format!("task {t}: the loan lost access while the lender was still alive"));
                                        }
                                    }
                                }
                            }
                        }
                        // drop the loan
                        2 => {
                            if let Some(l) = loan.take() {
                                live.fetch_sub(1, Ordering::SeqCst);
                                sim::log_event(t, "loan drop");
                                drop(l);
                            }
                        }
                        // let go of the lender (the last one to do so drops it)
                        _ => {
                            if let Some(m) = mine.take() {
                                sim::log_event(t, "release lender handle");
                                drop(m);
                            }
                        }
                    }
                });
                if let Err(m) = r {
                    sim::violation("C44.panic", "lender-panic", format!("task {t}: {m}"));
                    break;
                }
                // the payload must be alive while this task holds the lender or a loan
                if (mine.is_some() || loan.is_some()) && drops_s.load(Ordering::SeqCst) + drops_x.load(Ordering::SeqCst) != 0 {
                    sim::violation("C44.freed-early", "freed-while-held", format!("task {t}: the data was dropped while this task still holds the lender or a loan"));
                    break;
                }
            }
            if sim::has_violation() {
                return;
            }
            if let Some(l) = loan.take() {
                live.fetch_sub(1, Ordering::SeqCst);
                sim::log_event(t, "loan drop (end)");
                drop(l);
            }
            drop(mine.take());
        }));
    }
    drop(tracked);
    for h in hs {
        let _ = h.join();
    }
    let (s, x) = (drops_s.load(Ordering::SeqCst), drops_x.load(Ordering::SeqCst));
    if !sim::has_violation() && (s != 1 || x != 1) {
        sim::violation(
            "C44.free-count",
            if s == 0 || x == 0 { "never-freed" } else { "freed-twice" },
            format!("after the lender and every loan are gone the shared data was dropped {s} time(s) and the exclusive data {x} time(s)"),
        );
    }
    let st = *stats.lock().expect("stats");
    ExecEnd { nontrivial: st.0 >= 1 && (st.1 >= 1 || st.2 >= 1) }
}

fn state_exec(p: P, keys: &Keys) -> ExecEnd {
    draw_faults(p.fault_free);
    let (state, clones) = Mem::create(0, p.threads, 0).expect("memory state");
    let nchan = 2usize;
    let ids: Vec<_> = (0..nchan).map(|k| state.add(Mem::seal_side(&keys[k]), keys[k].label, keys[k].opener).expect("add")).collect();
    #[derive(Default, Clone, Copy)]
    struct Ch {
        live: u32,
        removal_invoked: bool,
        removed: bool,
    }
    let sh = Arc::new(StdMutex::new((vec![Ch::default(); nchan], 0u32, 0u32, 0u32))); // per channel, granted, refused, revoked
    let mut hs = Vec::new();
    for (t, st) in clones.into_iter().enumerate() {
        let sh = Arc::clone(&sh);
        let ids = ids.clone();
        let rounds = p.rounds;
        let admin: memory::State<CS> = state.clone();
        hs.push(shuttle::thread::spawn(move || {
            let client = sim::Leaky::new(Client::new(st));
            let admin = sim::Leaky::new(admin);
            let mut ctx: sim::Leaky<Vec<Option<<memory::State<CS> as aranya_fast_channels::AfcState>::SealCtx>>> = sim::Leaky::new((0..ids.len()).map(|_| None).collect());
            for _ in 0..rounds * 4 {
                if sim::has_violation() {
                    break;
                }
                let c = sim::rand_below(ids.len() as u64) as usize;
                let r = sim::quiet_catch(|| match sim::rand_below(4) {
                    0 => {
                        if ctx[c].is_none() {
                            let before = sh.lock().expect("sh").0[c];
                            match client.setup_seal_ctx(ids[c]) {
                                Ok(x) => {
                                    let mut s = sh.lock().expect("sh");
                                    s.0[c].live += 1;
                                    s.1 += 1;
                                    sim::log_event(t, &format!("setup c{c} -> ctx"));
                                    if s.0[c].live > 1 {
                                        sim::violation("C44.two-live-loans", "two-live-contexts", format!("task {t}: a second live seal context was handed out for channel {c}"));
                                    } else if before.removed {
                                        sim::violation("C44.access-after-revoke", "context-after-removal", format!("task {t}: setup_seal_ctx succeeded after the channel's removal had returned"));
                                    }
                                    ctx[c] = Some(x);
                                }
                                Err(Error::NotFound(_)) => {
                                    sh.lock().expect("sh").2 += 1;
                                    sim::log_event(t, &format!("setup c{c} -> refused"));
                                }
                                Err(e) => sim::violation("C44.error", "setup-error", format!("setup_seal_ctx failed with {e}")),
                            }
                        }
                    }
                    1 => {
                        if let Some(x) = ctx[c].as_mut() {
                            let before = sh.lock().expect("sh").0[c];
                            let mut dst = vec![0u8; 3 + OVERHEAD];
                            let r = client.seal(x, &mut dst, &[9, 9, 9]);
                            let after = sh.lock().expect("sh").0[c];
                            match r {
                                Ok(_) => {
                                    sim::log_event(t, &format!("seal c{c} -> ok"));
                                    if before.removed {
                                        sim::violation("C44.access-after-revoke", "seal-after-removal", format!("task {t}: seal through the context succeeded after the channel's removal had returned"));
                                    }
                                }
                                Err(Error::NotFound(_)) => {
                                    sim::log_event(t, &format!("seal c{c} -> not-found"));
                                    sh.lock().expect("sh").3 += 1;
                                    if !after.removal_invoked {
                                        sim::violation("C44.revoked-early", "revoked-while-entry-alive", format!("task {t}: the context lost access although the channel was never removed"));
                                    }
                                }
                                Err(e) => sim::violation("C44.error", "seal-error", format!("seal failed with {e}")),
                            }
                        }
                    }
                    2 => {
                        if let Some(x) = ctx[c].take() {
                            sh.lock().expect("sh").0[c].live -= 1;
                            sim::log_event(t, &format!("ctx drop c{c}"));
                            drop(x);
                        }
                    }
                    _ => {
                        // only one thread removes, once per channel
                        if t == 0 && !sh.lock().expect("sh").0[c].removal_invoked {
                            sh.lock().expect("sh").0[c].removal_invoked = true;
                            sim::log_event(t, &format!("remove c{c}"));
                            if let Err(e) = admin.remove(ids[c]) {
                                sim::violation("C44.error", "remove-error", format!("remove failed with {e}"));
                            }
                            sh.lock().expect("sh").0[c].removed = true;
                            sim::log_event(t, &format!("remove c{c} returned"));
                        }
                    }
                });
                if let Err(m) = r {
                    sim::violation("C44.panic", "state-panic", format!("task {t}: {m}"));
                    break;
                }
            }
            if sim::has_violation() {
                return;
            }
            for (c, x) in ctx.iter_mut().enumerate() {
                if let Some(x) = x.take() {
                    sh.lock().expect("sh").0[c].live -= 1;
                    drop(x);
                }
            }
        }));
    }
    for h in hs {
        let _ = h.join();
    }
    sim::drop_or_leak(state);
    // every handle is gone now: each channel's data must have been freed exactly once
    let frees = sim::with_ctx(|c| c.counters.get("lender.drop.free").copied().unwrap_or(0)).unwrap_or(0);
    if !sim::has_violation() && frees != nchan as u64 {
        sim::violation(
            "C44.free-count",
            if frees < nchan as u64 { "never-freed" } else { "freed-twice" },
            format!("{nchan} channels were added and everything is dropped, but the channel data was freed {frees} time(s)"),
        );
    }
    let s = sh.lock().expect("sh");
    ExecEnd { nontrivial: s.1 >= 1 && (s.2 >= 1 || s.3 >= 1) }
}

impl Check for C44 {
    fn id(&self) -> &'static str {
        "C44"
    }

    fn params(&self, rng: &mut vcommon::Rng, _tier: vcommon::Tier, fault_free: bool) -> Value {
        json!({
            "family": if rng.chance(1, 3) { "state" } else { "lender" },
            "threads": rng.range(2, 3),
            "rounds": rng.range(1, 3),
            "fault_free": fault_free,
        })
    }

    fn shrink(&self, p: &Value) -> Vec<Value> {
        let mut out = Vec::new();
        for (k, min) in [("threads", 2u64), ("rounds", 1)] {
            let v = p[k].as_u64().unwrap_or(min);
            if v > min {
                let mut q = p.clone();
                q[k] = json!(v - 1);
                out.push(q);
            }
        }
        out
    }

    fn workload(&self, p: &Value, keys: Keys) -> Workload {
        let p = parse(p);
        Arc::new(move || if p.state_family { state_exec(p, &keys) } else { lender_exec(p) })
    }

    fn rule(&self) -> String {
        "one execution = one shuttle schedule of 2-3 threads doing 4-12 drawn steps each: (lender family, 2/3 of the units) lend / access through the loan / drop the loan / release the shared lender handle (the last release drops the real Lender) over a drop-counting payload; (state family) setup_seal_ctx / seal / context drop / remove on two memory::State channels; distinct = distinct event-log hash; non-trivial = at least one loan (context) was granted and at least one lend was refused or one access found the loan revoked".into()
    }

    fn components(&self) -> Value {
        json!({
            "real": ["memory/lender.rs Lender, Loan, BiArc (swap/load on the shared flag, Box free)", "memory::State::{setup_seal_ctx, seal, remove}", "crate futex Mutex (memory::State is built without `std`, so its lock is the crate's own mutex)"],
            "stub": ["thread scheduler (shuttle)", "futex wait/wake and sched_yield (simulated)"],
        })
    }

    fn assumptions(&self) -> Vec<String> {
        vec![
            "use-after-free and double free are observed through a drop-counting payload and the BiArc free probe, not through an allocator or Miri (that is the E4 witness)".into(),
            "sequentially consistent interleavings at atomic-operation granularity only".into(),
        ]
    }
}
