//! Simulation core: hook table installed into aranya-fast-channels, the
//! simulated futex, the per-execution context (event log, counters, fault
//! knobs) and the shuttle driver (recording scheduler, unit runner, replay).
//!
//! One *unit* = one shuttle `Runner` with a seeded scheduler running `iters`
//! executions of a workload closure. Everything random inside an execution
//! is drawn from `shuttle::rand` (recorded in shuttle's schedule as `Random`
//! steps), so a persisted schedule replays the execution exactly.

use std::{
    cell::RefCell,
    collections::BTreeMap,
    panic::{AssertUnwindSafe, catch_unwind},
    sync::{
        Arc, Mutex as StdMutex,
        atomic::{AtomicU32, Ordering},
    },
    time::Duration,
};

use aranya_fast_channels::verif as afc_verif;
use shuttle::{
    rand::RngCore as _,
    scheduler::{PctScheduler, RandomScheduler, ReplayScheduler, Schedule, Scheduler, Task, TaskId},
};
use shuttle_engine::scheduler::{
    ScheduleStep,
    serialization::{deserialize_schedule, serialize_schedule},
};

// ------------------------------------------------------------------ faults

/// Per-execution fault knobs (probabilities in 1/65536).
#[derive(Clone, Copy, Debug, Default)]
pub struct Faults {
    /// Probability that a `point()` executed while some task sleeps in the
    /// simulated futex wakes one sleeper spuriously.
    pub spurious_p16: u32,
    /// Probability that `futex_wait` returns immediately without sleeping
    /// although the value matched (EINTR-style early return).
    pub eintr_p16: u32,
}

// ------------------------------------------------------------------ context

/// A violation found by an oracle inside an execution.
#[derive(Clone, Debug)]
pub struct Found {
    pub class: String,
    pub sig: String,
    pub detail: String,
}

/// State of the simulated futex (protected by a shuttle mutex).
#[derive(Default)]
struct FutexState {
    next_ticket: u64,
    /// (canonical address, ticket) of sleeping tasks, in arrival order.
    waiting: Vec<(usize, u64)>,
    /// Tickets that were woken and have not yet noticed.
    woken: Vec<u64>,
}

struct FutexSim {
    m: shuttle::sync::Mutex<FutexState>,
    cv: shuttle::sync::Condvar,
}

/// Per-execution context. Lives in a thread local of the OS thread that
/// runs the shuttle `Runner`; all shuttle tasks of the execution run on that
/// OS thread, one at a time.
pub struct Ctx {
    futex: Arc<FutexSim>,
    /// Number of tasks currently sleeping in the simulated futex.
    sleepers: u32,
    /// `(start, len, canonical start)`: shared memory mapped more than once
    /// in the process; futex words are keyed by offset into the object.
    regions: Vec<(usize, usize, usize)>,
    pub faults: Faults,
    /// Global event number (total order of logged events).
    pub event_no: u64,
    /// FNV chain over the logged events.
    pub log_hash: u64,
    /// Human readable event log (kept only when `keep_log`).
    pub log: Vec<String>,
    pub keep_log: bool,
    /// Probe and fault counters of this execution.
    pub counters: BTreeMap<&'static str, u64>,
    pub points: u64,
    pub found: Option<Found>,
    /// Occupancy counter for critical-section oracles.
    pub in_cs: u32,
}

thread_local! {
    static CTX: RefCell<Option<Ctx>> = const { RefCell::new(None) };
    /// Quiet panic hook while library panics are expected and caught.
    static QUIET: std::cell::Cell<u32> = const { std::cell::Cell::new(0) };
}

/// Runs `f` with the execution context; returns `None` outside executions.
pub fn with_ctx<T>(f: impl FnOnce(&mut Ctx) -> T) -> Option<T> {
    CTX.with(|c| c.borrow_mut().as_mut().map(f))
}

fn active() -> bool {
    CTX.with(|c| c.borrow().is_some())
}

pub fn count(name: &'static str) {
    with_ctx(|c| *c.counters.entry(name).or_insert(0) += 1);
}

/// Appends an event to the execution's log; returns its global number.
/// Never draws randomness, never reads a clock.
pub fn log_event(task: usize, what: &str) -> u64 {
    with_ctx(|c| {
        c.event_no += 1;
        let mut h = c.log_hash ^ c.event_no.wrapping_mul(0x9E37_79B9_7F4A_7C15);
        h = h.wrapping_mul(0x0000_0100_0000_01B3) ^ (task as u64);
        for b in what.as_bytes() {
            h ^= u64::from(*b);
            h = h.wrapping_mul(0x0000_0100_0000_01B3);
        }
        c.log_hash = h;
        if c.keep_log {
            c.log.push(format!("#{} t{} {}", c.event_no, task, what));
        }
        c.event_no
    })
    .unwrap_or(0)
}

/// Records the first violation of the execution.
pub fn violation(class: &str, sig: &str, detail: String) {
    with_ctx(|c| {
        if c.found.is_none() {
            c.found = Some(Found {
                class: class.to_string(),
                sig: sig.to_string(),
                detail,
            });
        }
    });
}

/// Drops `x` - unless an oracle of this execution has already reported a
/// violation: then the handles of the broken object are leaked instead, so
/// that a logical error that was caught (a second live loan, an early free)
/// cannot turn into heap corruption and kill the process before it reports.
pub fn drop_or_leak<T>(x: T) {
    if has_violation() {
        std::mem::forget(x);
    } else {
        drop(x);
    }
}

/// A value that is leaked instead of dropped once an oracle of the
/// execution has reported a violation (see [`drop_or_leak`]).
pub struct Leaky<T>(std::mem::ManuallyDrop<T>);

impl<T> Leaky<T> {
    pub fn new(x: T) -> Self {
        Self(std::mem::ManuallyDrop::new(x))
    }
}

impl<T> std::ops::Deref for Leaky<T> {
    type Target = T;
    fn deref(&self) -> &T {
        &self.0
    }
}

impl<T> std::ops::DerefMut for Leaky<T> {
    fn deref_mut(&mut self) -> &mut T {
        &mut self.0
    }
}

impl<T> Drop for Leaky<T> {
    fn drop(&mut self) {
        if !has_violation() {
            // SAFETY: dropped exactly once, here.
            unsafe { std::mem::ManuallyDrop::drop(&mut self.0) }
        }
    }
}

pub fn has_violation() -> bool {
    with_ctx(|c| c.found.is_some()).unwrap_or(false)
}

/// Declares `[start, start+len)` to be another mapping of the object whose
/// first mapping starts at `canon`.
pub fn add_region(start: usize, len: usize, canon: usize) {
    with_ctx(|c| c.regions.push((start, len, canon)));
}

fn canonical(addr: usize) -> usize {
    with_ctx(|c| {
        for &(s, l, k) in &c.regions {
            if addr >= s && addr < s + l {
                return k + (addr - s);
            }
        }
        addr
    })
    .unwrap_or(addr)
}

fn rand_u16() -> u32 {
    (shuttle::rand::thread_rng().next_u64() & 0xFFFF) as u32
}

/// Uniform in `0..n` from shuttle's recorded randomness.
pub fn rand_below(n: u64) -> u64 {
    debug_assert!(n > 0);
    ((u128::from(shuttle::rand::thread_rng().next_u64()) * u128::from(n)) >> 64) as u64
}

pub fn rand_u64() -> u64 {
    shuttle::rand::thread_rng().next_u64()
}

// ------------------------------------------------------------------ hooks

/// The scheduling point: `thread::sleep(0)` is a plain context switch in
/// shuttle (NOT `yield_now`, which tells PCT to deprioritise the caller).
fn hook_point(_site: &'static str) {
    if !active() || std::thread::panicking() {
        return;
    }
    let (sleepers, p) = with_ctx(|c| {
        c.points += 1;
        (c.sleepers, c.faults.spurious_p16)
    })
    .unwrap_or((0, 0));
    if sleepers > 0 && p > 0 && rand_u16() < p {
        spurious_wake();
    }
    shuttle::thread::sleep(Duration::ZERO);
}

fn hook_probe(name: &'static str) {
    count(name);
}

fn hook_sched_yield() -> bool {
    if !active() || std::thread::panicking() {
        return false;
    }
    count("sched_yield");
    shuttle::thread::yield_now();
    true
}

fn futex() -> Option<Arc<FutexSim>> {
    with_ctx(|c| Arc::clone(&c.futex))
}

fn hook_futex_wait(addr: &AtomicU32, val: u32) -> bool {
    let Some(fx) = futex() else { return false };
    let key = canonical(std::ptr::from_ref(addr) as usize);
    count("futex.wait.calls");
    // Scheduling point: wake-before-wait orderings are reachable here.
    let mut g = fx.m.lock().expect("futex sim lock");
    // FUTEX_WAIT compares and enqueues atomically w.r.t. FUTEX_WAKE.
    if addr.load(Ordering::SeqCst) != val {
        count("futex.wait.eagain");
        return true;
    }
    let p = with_ctx(|c| c.faults.eintr_p16).unwrap_or(0);
    if p > 0 && rand_u16() < p {
        count("fault.eintr");
        return true;
    }
    let ticket = g.next_ticket;
    g.next_ticket += 1;
    g.waiting.push((key, ticket));
    with_ctx(|c| c.sleepers += 1);
    count("futex.wait.slept");
    loop {
        g = fx.cv.wait(g).expect("futex sim condvar");
        if let Some(pos) = g.woken.iter().position(|t| *t == ticket) {
            g.woken.remove(pos);
            break;
        }
    }
    with_ctx(|c| c.sleepers -= 1);
    true
}

fn hook_futex_wake(addr: &AtomicU32, cnt: u32) -> bool {
    let Some(fx) = futex() else { return false };
    let key = canonical(std::ptr::from_ref(addr) as usize);
    count("futex.wake.calls");
    let mut g = fx.m.lock().expect("futex sim lock");
    let mut woke = 0;
    while woke < cnt {
        let cands: Vec<usize> = g
            .waiting
            .iter()
            .enumerate()
            .filter(|(_, (k, _))| *k == key)
            .map(|(i, _)| i)
            .collect();
        if cands.is_empty() {
            break;
        }
        // The kernel promises no particular waiter.
        let pick = if cands.len() == 1 {
            cands[0]
        } else {
            cands[rand_below(cands.len() as u64) as usize]
        };
        let (_, ticket) = g.waiting.remove(pick);
        g.woken.push(ticket);
        woke += 1;
    }
    if woke > 0 {
        count("futex.wake.woke");
        fx.cv.notify_all();
    } else {
        count("futex.wake.nobody");
    }
    true
}

/// Wakes one sleeping task although nobody called `futex_wake`.
fn spurious_wake() {
    let Some(fx) = futex() else { return };
    let mut g = fx.m.lock().expect("futex sim lock");
    if g.waiting.is_empty() {
        return;
    }
    let pick = rand_below(g.waiting.len() as u64) as usize;
    let (_, ticket) = g.waiting.remove(pick);
    g.woken.push(ticket);
    count("fault.spurious_wake");
    fx.cv.notify_all();
}

static HOOKS: afc_verif::Hooks = afc_verif::Hooks {
    point: hook_point,
    futex_wait: hook_futex_wait,
    futex_wake: hook_futex_wake,
    sched_yield: hook_sched_yield,
    probe: hook_probe,
};

/// Installs the hook table and a panic hook that stays quiet while a
/// library panic is expected (they are caught and classified).
pub fn install() {
    if !afc_verif::FUTEX_MUTEX {
        vcommon::harness_error("aranya-fast-channels was built without the futex mutex");
    }
    if !afc_verif::MEMORY_STATE_USES_CRATE_MUTEX {
        vcommon::harness_error(
            "aranya-fast-channels was built with `std`: memory::State would use std::sync::Mutex, which shuttle cannot schedule",
        );
    }
    afc_verif::install(&HOOKS);
    let prev = std::panic::take_hook();
    std::panic::set_hook(Box::new(move |info| {
        let file = info.location().map(|l| l.file().to_string()).unwrap_or_default();
        LAST_PANIC_FILE.with(|f| *f.borrow_mut() = file);
        if QUIET.with(std::cell::Cell::get) == 0 {
            prev(info);
        }
    }));
}

thread_local! {
    /// Source file of the most recent panic on this thread (set by the panic hook).
    static LAST_PANIC_FILE: std::cell::RefCell<String> = const { std::cell::RefCell::new(String::new()) };
}

/// True when the most recent panic was raised by code of the repository under test (not by
/// the harness, shuttle or std): such a panic is a finding about the library, not a harness bug.
pub fn last_panic_in_library() -> bool {
    LAST_PANIC_FILE.with(|f| {
        let f = f.borrow();
        f.contains("aranya-fast-channels/src") || f.contains("aranya-crypto/src") || f.starts_with("/repo/") || f.contains("/repo/crates/")
    })
}

/// Runs `f` catching panics, with the panic hook silenced.
pub fn quiet_catch<T>(f: impl FnOnce() -> T) -> Result<T, String> {
    // A depth counter, not a flag: shuttle tasks share the OS thread and
    // may interleave inside `f`.
    QUIET.with(|q| q.set(q.get() + 1));
    let r = catch_unwind(AssertUnwindSafe(f));
    QUIET.with(|q| q.set(q.get().saturating_sub(1)));
    r.map_err(|e| panic_message(&*e))
}

pub fn panic_message(e: &(dyn std::any::Any + Send)) -> String {
    if let Some(s) = e.downcast_ref::<&str>() {
        (*s).to_string()
    } else if let Some(s) = e.downcast_ref::<String>() {
        s.clone()
    } else {
        "<non-string panic payload>".to_string()
    }
}

// ------------------------------------------------------------------ recording scheduler

#[derive(Default)]
struct RecState {
    /// Schedule of the execution in progress.
    cur: Schedule,
    /// Completed executions.
    done: u64,
    /// Set by the workload when the execution in progress found a violation.
    flagged: bool,
    /// (execution index, complete schedule) of flagged executions.
    failing: Vec<(u64, Schedule)>,
}

struct Recording<S> {
    inner: S,
    rec: Arc<StdMutex<RecState>>,
}

impl<S> Recording<S> {
    fn finish_current(r: &mut RecState) {
        if r.flagged {
            let sched = std::mem::take(&mut r.cur);
            let idx = r.done;
            r.failing.push((idx, sched));
            r.flagged = false;
        }
    }
}

impl<S: Scheduler> Scheduler for Recording<S> {
    fn new_execution(&mut self) -> Option<Schedule> {
        let mut r = self.rec.lock().expect("rec");
        if !r.cur.steps.is_empty() || r.flagged {
            Self::finish_current(&mut r);
            r.done += 1;
        }
        let s = self.inner.new_execution()?;
        r.cur = Schedule::new(s.seed);
        Some(s)
    }

    fn next_task(&mut self, runnable: &[&Task], current: Option<TaskId>, is_yielding: bool) -> Option<TaskId> {
        let t = self.inner.next_task(runnable, current, is_yielding)?;
        self.rec.lock().expect("rec").cur.push_task(t);
        Some(t)
    }

    fn next_u64(&mut self) -> u64 {
        self.rec.lock().expect("rec").cur.push_random();
        self.inner.next_u64()
    }
}

fn schedule_hash(s: &Schedule) -> u64 {
    let mut h: u64 = 0xcbf2_9ce4_8422_2325;
    for st in &s.steps {
        let v: u64 = match st {
            ScheduleStep::Task(t) => usize::from(*t) as u64 + 1,
            ScheduleStep::Random => 0,
        };
        h ^= v;
        h = h.wrapping_mul(0x0000_0100_0000_01B3);
    }
    h
}

// ------------------------------------------------------------------ unit runner

#[derive(Clone, Copy, Debug, PartialEq, Eq)]
pub enum SchedKind {
    Random,
    Pct(usize),
}

impl SchedKind {
    pub fn name(self) -> String {
        match self {
            SchedKind::Random => "random".into(),
            SchedKind::Pct(d) => format!("pct{d}"),
        }
    }
    pub fn parse(s: &str) -> Option<Self> {
        if s == "random" {
            Some(SchedKind::Random)
        } else {
            s.strip_prefix("pct")?.parse().ok().map(SchedKind::Pct)
        }
    }
}

/// What one execution reports back.
#[derive(Clone, Debug, Default)]
pub struct ExecRecord {
    pub sched_hash: u64,
    pub log_hash: u64,
    pub nontrivial: bool,
    pub steps: u64,
}

/// A failing execution, with what is needed to replay it.
#[derive(Clone, Debug)]
pub struct Failure {
    pub found: Found,
    pub exec_index: u64,
    /// Shuttle's serialisation of the schedule.
    pub schedule: String,
    pub log: Vec<String>,
}

#[derive(Default)]
pub struct UnitOutcome {
    pub execs: Vec<ExecRecord>,
    pub counters: BTreeMap<String, u64>,
    pub points: u64,
    pub failures: Vec<Failure>,
    /// Event log of the first execution (evidence sample).
    pub sample: Vec<String>,
}

/// Shared between the workload closure (inside shuttle) and the unit runner.
#[derive(Default)]
struct Collector {
    execs: Vec<ExecRecord>,
    counters: BTreeMap<&'static str, u64>,
    points: u64,
    /// (execution index, found, log)
    found: Vec<(u64, Found, Vec<String>)>,
    sample: Vec<String>,
}

/// What a workload returns at the end of an execution.
pub struct ExecEnd {
    pub nontrivial: bool,
}

pub const MAX_STEPS: usize = 20_000;

fn config() -> shuttle::Config {
    let mut c = shuttle::Config::new();
    c.stack_size = 1 << 20;
    // The engine keeps its own copy of the schedule (Recording) and writes
    // it into the replay file in shuttle's format; shuttle's own panic-time
    // persistence is process global, so it is switched off.
    c.failure_persistence = shuttle::FailurePersistence::None;
    c.max_steps = shuttle::MaxSteps::FailAfter(MAX_STEPS);
    c.silence_warnings = true;
    c
}

fn begin_exec(faults: Faults, keep_log: bool) {
    let ctx = Ctx {
        futex: Arc::new(FutexSim {
            m: shuttle::sync::Mutex::new(FutexState::default()),
            cv: shuttle::sync::Condvar::new(),
        }),
        sleepers: 0,
        regions: Vec::new(),
        faults,
        event_no: 0,
        log_hash: 0xcbf2_9ce4_8422_2325,
        log: Vec::new(),
        keep_log,
        counters: BTreeMap::new(),
        points: 0,
        found: None,
        in_cs: 0,
    };
    CTX.with(|c| *c.borrow_mut() = Some(ctx));
}

fn take_ctx() -> Option<Ctx> {
    CTX.with(|c| c.borrow_mut().take())
}

/// The workload: called once per execution inside shuttle (as task 0). It
/// draws its own randomness from `shuttle::rand`, sets the fault knobs via
/// `with_ctx`, spawns `shuttle::thread`s and joins them.
pub type Workload = Arc<dyn Fn() -> ExecEnd + Send + Sync + 'static>;

enum Driver {
    Seeded { kind: SchedKind, seed: u64, iters: usize },
    Replay { schedule: Schedule },
}

fn run_driver(driver: Driver, keep_logs: bool, workload: Workload) -> Result<UnitOutcome, String> {
    let rec = Arc::new(StdMutex::new(RecState::default()));
    let col = Arc::new(StdMutex::new(Collector::default()));

    let col2 = Arc::clone(&col);
    let rec2 = Arc::clone(&rec);
    let body = move || {
        let idx = rec2.lock().expect("rec").done;
        begin_exec(Faults::default(), keep_logs || idx == 0);
        let end = workload();
        let ctx = take_ctx().expect("ctx present");
        let mut r = rec2.lock().expect("rec");
        let mut c = col2.lock().expect("col");
        c.execs.push(ExecRecord {
            sched_hash: schedule_hash(&r.cur),
            log_hash: ctx.log_hash,
            nontrivial: end.nontrivial,
            steps: r.cur.steps.len() as u64,
        });
        for (k, v) in &ctx.counters {
            *c.counters.entry(k).or_insert(0) += v;
        }
        c.points += ctx.points;
        if idx == 0 && c.sample.is_empty() {
            c.sample = ctx.log.clone();
        }
        if let Some(f) = ctx.found {
            r.flagged = true;
            c.found.push((idx, f, ctx.log));
        }
    };

    let res = quiet_catch(|| match driver {
        Driver::Seeded { kind, seed, iters } => match kind {
            SchedKind::Random => {
                let s = Recording { inner: RandomScheduler::new_from_seed(seed, iters), rec: Arc::clone(&rec) };
                shuttle::Runner::new(s, config()).run(body);
            }
            SchedKind::Pct(d) => {
                let s = Recording { inner: PctScheduler::new_from_seed(seed, d, iters), rec: Arc::clone(&rec) };
                shuttle::Runner::new(s, config()).run(body);
            }
        },
        Driver::Replay { schedule } => {
            let mut inner = ReplayScheduler::new_from_schedule(schedule);
            inner.set_allow_incomplete();
            let s = Recording { inner, rec: Arc::clone(&rec) };
            shuttle::Runner::new(s, config()).run(body);
        }
    });

    // A panic out of the runner: deadlock, step bound, or a panic in a task
    // that was not caught by the workload (harness bug unless classified).
    let aborted_ctx = take_ctx();
    let mut r = rec.lock().expect("rec");
    let mut c = col.lock().expect("col");
    let mut out = UnitOutcome::default();
    if let Err(msg) = res {
        let idx = r.done;
        let (class, sig) = if msg.starts_with("deadlock!") {
            ("deadlock", "deadlock")
        } else if msg.starts_with("exceeded max_steps") {
            ("step-bound", "step-bound")
        } else if last_panic_in_library() {
            // A panic raised inside the code under test that no workload step caught.
            ("library-panic", "library-panic")
        } else {
            ("harness-panic", "harness-panic")
        };
        if class == "harness-panic" {
            return Err(msg);
        }
        let log = aborted_ctx.as_ref().map(|x| x.log.clone()).unwrap_or_default();
        if let Some(x) = &aborted_ctx {
            for (k, v) in &x.counters {
                *c.counters.entry(k).or_insert(0) += v;
            }
            c.points += x.points;
        }
        // An oracle violation recorded before the hang takes precedence.
        let found = aborted_ctx.and_then(|x| x.found).unwrap_or(Found {
            class: class.to_string(),
            sig: sig.to_string(),
            detail: msg.lines().next().unwrap_or("").chars().take(300).collect(),
        });
        c.execs.push(ExecRecord {
            sched_hash: schedule_hash(&r.cur),
            log_hash: 0,
            nontrivial: false,
            steps: r.cur.steps.len() as u64,
        });
        let sched = std::mem::take(&mut r.cur);
        r.failing.push((idx, sched));
        c.found.push((idx, found, log));
    } else {
        // Finalise the last execution.
        Recording::<RandomScheduler>::finish_current(&mut r);
    }
    out.execs = std::mem::take(&mut c.execs);
    out.counters = std::mem::take(&mut c.counters).into_iter().map(|(k, v)| (k.to_string(), v)).collect();
    out.points = c.points;
    out.sample = std::mem::take(&mut c.sample);
    for (idx, found, log) in std::mem::take(&mut c.found) {
        let schedule = r
            .failing
            .iter()
            .find(|(i, _)| *i == idx)
            .map(|(_, s)| serialize_schedule(s))
            .unwrap_or_default();
        out.failures.push(Failure { found, exec_index: idx, schedule, log });
    }
    Ok(out)
}

/// Runs one unit: `iters` executions under a scheduler seeded with `seed`.
pub fn run_unit(kind: SchedKind, seed: u64, iters: usize, keep_logs: bool, workload: Workload) -> UnitOutcome {
    run_driver(Driver::Seeded { kind, seed, iters }, keep_logs, workload)
        .unwrap_or_else(|msg| vcommon::harness_error(&format!("panic escaped from a shuttle execution: {msg}")))
}

/// Replays one execution from shuttle's serialised schedule.
pub fn replay_schedule(encoded: &str, workload: Workload) -> Result<UnitOutcome, String> {
    let schedule = deserialize_schedule(encoded).ok_or_else(|| "cannot decode schedule".to_string())?;
    // An `Err` here means the replay diverged from the recorded schedule
    // (the code under test no longer behaves as recorded).
    run_driver(Driver::Replay { schedule }, true, workload).map_err(|m| format!("replay diverged: {m}"))
}
