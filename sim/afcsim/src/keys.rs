//! Seeded randomness for the crypto layer and real AFC key derivation.
//!
//! Channel keys are derived exactly as a pair of Aranya devices would: two
//! devices with identity and encryption keys, `UniSecrets::new` on the
//! author side, `UniSealKey::from_author_secret` / `UniOpenKey::from_peer_encap`
//! on the two ends (real HPKE, real KDF). The derivation is done once per
//! process from the batch seed; executions clone the raw keys.

use std::sync::Mutex;

use aranya_crypto::{
    Csprng, DeviceId, EncryptionKey, IdentityKey,
    afc::{RawOpenKey, RawSealKey, UniChannel, UniOpenKey, UniSealKey, UniSecrets},
    default::{DefaultCipherSuite, DefaultEngine},
    id::IdExt as _,
    policy::{CmdId, LabelId},
};

pub type CS = DefaultCipherSuite;

/// A `Csprng` driven by the harness PRNG: no OS randomness anywhere.
pub struct SimRng(Mutex<vcommon::Rng>);

impl SimRng {
    pub fn new(seed: u64, stream: &str) -> Self {
        Self(Mutex::new(vcommon::Rng::derive(seed, stream)))
    }
}

impl Csprng for SimRng {
    fn fill_bytes(&self, dst: &mut [u8]) {
        self.0.lock().expect("SimRng").fill(dst);
    }
}

/// One unidirectional channel between two simulated devices.
#[derive(Clone)]
pub struct ChanKeys {
    pub label: LabelId,
    pub seal: RawSealKey<CS>,
    pub open: RawOpenKey<CS>,
    /// The device that seals.
    pub sealer: DeviceId,
    /// The device that opens.
    pub opener: DeviceId,
}

/// Derives `n` channels between two freshly created devices.
pub fn derive_channels(seed: u64, n: usize) -> Vec<ChanKeys> {
    let (eng, _root) = DefaultEngine::<SimRng, CS>::from_entropy(SimRng::new(seed, "crypto.engine"));
    let rng = SimRng::new(seed, "crypto.devices");
    let a_ident = IdentityKey::<CS>::new(&rng);
    let a_enc = EncryptionKey::<CS>::new(&rng);
    let b_ident = IdentityKey::<CS>::new(&rng);
    let b_enc = EncryptionKey::<CS>::new(&rng);
    let a_id = a_ident.id().expect("device id");
    let b_id = b_ident.id().expect("device id");
    let a_pk = a_enc.public().expect("public key");
    let b_pk = b_enc.public().expect("public key");

    (0..n)
        .map(|_| {
            let label = LabelId::random(&rng);
            let parent_cmd_id = CmdId::random(&rng);
            let seal_cfg = UniChannel {
                parent_cmd_id,
                our_sk: &a_enc,
                their_pk: &b_pk,
                seal_id: a_id,
                open_id: b_id,
                label_id: label,
            };
            let open_cfg = UniChannel {
                parent_cmd_id,
                our_sk: &b_enc,
                their_pk: &a_pk,
                seal_id: a_id,
                open_id: b_id,
                label_id: label,
            };
            let secrets = UniSecrets::new(&eng, &seal_cfg).expect("UniSecrets::new");
            let seal = UniSealKey::from_author_secret(&seal_cfg, secrets.author)
                .expect("author seal key")
                .into_raw_key();
            let open = UniOpenKey::from_peer_encap(&open_cfg, secrets.peer)
                .expect("peer open key")
                .into_raw_key();
            ChanKeys { label, seal, open, sealer: a_id, opener: b_id }
        })
        .collect()
}
