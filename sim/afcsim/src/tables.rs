//! The two channel-state implementations behind one interface, plus small
//! helpers shared by the table checks (C39-C42, C44).

use aranya_crypto::afc::{OpenKey, SealKey, Seq};
use aranya_fast_channels::{
    AfcState, AranyaState, Client, Directed, Error, LocalChannelId, memory,
    shm::{self},
};

use crate::{
    keys::{CS, ChanKeys},
    shmenv,
};

/// Numeric value of a channel id (only `Display` is public).
pub fn id_u64(id: LocalChannelId) -> u64 {
    id.to_string().parse().expect("LocalChannelId displays as an integer")
}

/// One of the two state implementations: a manager side (`W`, the
/// `AranyaState`) and any number of client sides (`R`, the `AfcState`).
pub trait Backend: 'static {
    type W: AranyaState + Send + 'static;
    type R: AfcState<CipherSuite = CS> + Send + Sync + 'static;

    /// A fresh state with room for `cap` channels and `readers` client
    /// handles (separate mappings for shared memory, clones for memory).
    fn create(cap: usize, readers: usize, seed: u64) -> Result<(Self::W, Vec<Self::R>), String>;

    fn seal_side(k: &ChanKeys) -> Directed<<Self::W as AranyaState>::SealKey, <Self::W as AranyaState>::OpenKey>;
    fn open_side(k: &ChanKeys) -> Directed<<Self::W as AranyaState>::SealKey, <Self::W as AranyaState>::OpenKey>;
    fn is_out_of_space(e: &<Self::W as AranyaState>::Error) -> bool;
}

pub struct Shm;

impl Backend for Shm {
    type W = shmenv::Writer;
    type R = shmenv::Reader;

    fn create(cap: usize, readers: usize, seed: u64) -> Result<(Self::W, Vec<Self::R>), String> {
        shmenv::create(cap, readers, seed)
    }

    fn seal_side(k: &ChanKeys) -> Directed<<Self::W as AranyaState>::SealKey, <Self::W as AranyaState>::OpenKey> {
        Directed::SealOnly { seal: k.seal.clone() }
    }

    fn open_side(k: &ChanKeys) -> Directed<<Self::W as AranyaState>::SealKey, <Self::W as AranyaState>::OpenKey> {
        Directed::OpenOnly { open: k.open.clone() }
    }

    fn is_out_of_space(e: &shm::Error) -> bool {
        matches!(e, shm::Error::OutOfSpace)
    }
}

pub struct Mem;

impl Backend for Mem {
    type W = memory::State<CS>;
    type R = memory::State<CS>;

    fn create(_cap: usize, readers: usize, _seed: u64) -> Result<(Self::W, Vec<Self::R>), String> {
        let s = memory::State::<CS>::new();
        let rs = (0..readers).map(|_| s.clone()).collect();
        Ok((s, rs))
    }

    fn seal_side(k: &ChanKeys) -> Directed<SealKey<CS>, OpenKey<CS>> {
        Directed::SealOnly { seal: SealKey::from_raw(&k.seal, Seq::ZERO).expect("SealKey::from_raw") }
    }

    fn open_side(k: &ChanKeys) -> Directed<SealKey<CS>, OpenKey<CS>> {
        Directed::OpenOnly { open: OpenKey::from_raw(&k.open).expect("OpenKey::from_raw") }
    }

    fn is_out_of_space(e: &Error) -> bool {
        matches!(e, Error::OutOfSpace)
    }
}

/// The sequence number a sealed message carries: the data header is the
/// last 8 bytes, little endian.
pub fn trailer_seq(ciphertext: &[u8]) -> Option<u64> {
    let n = ciphertext.len();
    if n < 8 {
        return None;
    }
    let mut b = [0u8; 8];
    b.copy_from_slice(&ciphertext[n - 8..]);
    Some(u64::from_le_bytes(b))
}

/// `ciphertext || tag || header` overhead of the real cipher suite.
pub const OVERHEAD: usize = Client::<memory::State<CS>>::OVERHEAD;

/// The receiving device: a second, independent `memory::State` holding the
/// open side of each channel, driven through the real `Client`.
pub struct Peer {
    client: Client<memory::State<CS>>,
    ctx: Vec<<memory::State<CS> as AfcState>::OpenCtx>,
}

impl Peer {
    pub fn new(keys: &[ChanKeys]) -> Self {
        let st = memory::State::<CS>::new();
        let ids: Vec<LocalChannelId> = keys
            .iter()
            .map(|k| st.add(Mem::open_side(k), k.label, k.sealer).expect("peer add"))
            .collect();
        let client = Client::new(st);
        let ctx = ids.iter().map(|id| client.setup_open_ctx(*id).expect("peer open ctx")).collect();
        Self { client, ctx }
    }

    /// Opens `ct` on the channel with pool index `k`.
    pub fn open(&mut self, k: usize, ct: &[u8]) -> Result<(Vec<u8>, aranya_crypto::policy::LabelId, u64), Error> {
        let mut dst = vec![0u8; ct.len().saturating_sub(OVERHEAD)];
        let (label, seq) = self.client.open(&mut self.ctx[k], &mut dst, ct)?;
        Ok((dst, label, seq.to_u64()))
    }
}

/// The sending device for `open` workloads: seals with the seal side of a
/// pool channel through the real `Client` over a `memory::State`.
pub struct Sender {
    client: Client<memory::State<CS>>,
    ctx: Vec<<memory::State<CS> as AfcState>::SealCtx>,
}

impl Sender {
    pub fn new(keys: &[ChanKeys]) -> Self {
        let st = memory::State::<CS>::new();
        let ids: Vec<LocalChannelId> = keys
            .iter()
            .map(|k| st.add(Mem::seal_side(k), k.label, k.opener).expect("sender add"))
            .collect();
        let client = Client::new(st);
        let ctx = ids.iter().map(|id| client.setup_seal_ctx(*id).expect("sender seal ctx")).collect();
        Self { client, ctx }
    }

    pub fn seal(&mut self, k: usize, pt: &[u8]) -> Vec<u8> {
        // `dst` must be *at least* plaintext + overhead long: senders reuse scratch buffers. The
        // buffer is oversized by 0..12 bytes (a function of the message, no PRNG draw) and dirty;
        // the ciphertext is its first plaintext + overhead bytes.
        let need = pt.len() + OVERHEAD;
        let extra = (pt.len() * 7 + k) % 5 * 3;
        let mut dst = vec![0xA5u8; need + extra];
        self.client.seal(&mut self.ctx[k], &mut dst, pt).expect("sender seal");
        dst.truncate(need);
        dst
    }

    pub fn seal_in_place(&mut self, k: usize, pt: &[u8]) -> Vec<u8> {
        let mut buf = pt.to_vec();
        self.client.seal_in_place(&mut self.ctx[k], &mut buf).expect("sender seal_in_place");
        buf
    }
}

/// Classification of an error for logs and oracles (no ids, no addresses).
pub fn err_kind(e: &Error) -> &'static str {
    match e {
        Error::NotFound(_) => "NotFound",
        Error::KeyExpired => "KeyExpired",
        Error::Authentication => "Authentication",
        Error::BufferTooSmall => "BufferTooSmall",
        Error::InvalidHeader(_) => "InvalidHeader",
        Error::InputTooLarge => "InputTooLarge",
        Error::Bug(_) => "Bug",
        Error::Crypto(_) => "Crypto",
        Error::InvalidArgument(_) => "InvalidArgument",
        Error::OutOfSpace => "OutOfSpace",
        Error::SharedMem(_) => "SharedMem",
        Error::Corrupted(_) => "Corrupted",
        _ => "Other",
    }
}
