//! Real POSIX shared memory for one execution: the writer creates the
//! object, every reader maps it again (a second mapping of the same object
//! in the same process, at a different address, exactly as a second process
//! would), and the name is unlinked before anything else happens, so no
//! path can leak it (the mappings stay valid until dropped).

use std::sync::atomic::{AtomicU64, Ordering};

use aranya_fast_channels::shm::{self, Flag, Mode, Path, ReadState, WriteState};

use crate::{
    keys::{CS, SimRng},
    sim,
};

static NEXT: AtomicU64 = AtomicU64::new(0);

pub type Writer = WriteState<CS, SimRng>;
pub type Reader = ReadState<CS>;

struct Unlink(Box<Path>);

impl Drop for Unlink {
    fn drop(&mut self) {
        let _ = shm::unlink(&*self.0);
    }
}

/// Creates the object with room for `max_chans` channels and maps it once
/// for the writer and once per reader. The name only serves to connect the
/// mappings; it never influences behaviour and is gone when this returns.
pub fn create(max_chans: usize, readers: usize, rng_seed: u64) -> Result<(Writer, Vec<Reader>), String> {
    // Unique per process and per call; never part of any log or hash.
    let n = NEXT.fetch_add(1, Ordering::Relaxed);
    let name = format!("/afcsim-{}-{}\0", std::process::id(), n);
    let path: Box<Path> = Box::<Path>::try_from(name.as_bytes()).map_err(|e| format!("shm path: {e}"))?;
    // A stale object of a dead process with a recycled pid.
    let _ = shm::unlink(&*path);
    let guard = Unlink(path);
    let writer = WriteState::<CS, SimRng>::open(&*guard.0, Flag::Create, Mode::ReadWrite, max_chans, SimRng::new(rng_seed, "shm.writer"))
        .map_err(|e| format!("shm create: {e}"))?;
    let mut rs = Vec::with_capacity(readers);
    for _ in 0..readers {
        rs.push(
            ReadState::<CS>::open(&*guard.0, Flag::OpenOnly, Mode::ReadWrite, max_chans)
                .map_err(|e| format!("shm open: {e}"))?,
        );
    }
    drop(guard);
    // Futex words are keyed by offset into the object, whichever mapping
    // an address belongs to.
    let (wbase, wlen) = writer.verif_region();
    for r in &rs {
        let (rbase, rlen) = r.verif_region();
        debug_assert_eq!(wlen, rlen);
        sim::add_region(rbase, rlen, wbase);
    }
    Ok((writer, rs))
}

/// `true` if POSIX shared memory works in this sandbox.
pub fn probe() -> Result<(), String> {
    create(2, 1, 0).map(|_| ())
}
