#!/usr/bin/env python3
# Sensitivity run: apply one small mutation at a time to a scratch worktree of
# /repo (outside /repo and /verif), rebuild a copy of the engine against it,
# run the quick check of the targeted property, record the outcome.
import subprocess, sys, time, json, os, re
W='/tmp/afc-mut/crates/aranya-fast-channels/src/'
MUT=[
 # id, properties, file, old, new, description
 ('M39a','C39','client.rs',
  '''            let tag_start = rest
                .len()
                .checked_sub(Self::TAG_SIZE)
                .ok_or(Error::Authentication)?;''',
  '''            let tag_start = rest.len() - Self::TAG_SIZE;''',
  'revert the D2 fix: unchecked rest.len() - TAG_SIZE in open_in_place'),
 ('M39b','C39','header.rs',
  '''            seq: Seq::new(u64::from_le_bytes(*seq)),''',
  '''            seq: Seq::new(u64::from_be_bytes(*seq)),''',
  'DataHeader::try_parse reads the sequence number big-endian'),
 ('M39c','C39','client.rs',
  '''            .inspect_err(|_| dst.zeroize())?;''',
  '''            .inspect_err(|_| dst.fill(0x5a))?;''',
  'Client::open scribbles over the destination instead of wiping it on failure'),
 ('M40a','C40','shm/read.rs',
  '''        let mut key = SealKey::from_raw(&chan.seal_key, cache.key.seq())?;''',
  '''        let mut key = SealKey::from_raw(&chan.seal_key, Seq::ZERO)?;''',
  'ReadState::seal re-derives the key at Seq::ZERO on a cache miss'),
 ('M40b','C40','shm/read.rs',
  '''        if likely!(result.is_ok()) {
            // Encryption was successful (it usually is), so
            // update the cache.''',
  '''        if likely!(result.is_ok() || true) {
            // Encryption was successful (it usually is), so
            // update the cache.''',
  'ReadState::seal updates the cache also after a failed seal'),
 ('M40c','C40,C44','memory/lender.rs',
  '''                STATE_SHARED => None,
            }
        }

        /// Get the inner data unconditionally.''',
  '''                STATE_SHARED => Some(Self(self.0)),
            }
        }

        /// Get the inner data unconditionally.''',
  'BiArc::try_clone hands out a handle even when already shared (second live loan)'),
 ('M41a','C41','shm/write.rs',
  '''            // As a precaution, update the generation before we
            // do anything else.
            #[cfg(aranya_verif)]
            crate::verif::point("write.gen.fetch_add");
            let generation = side.generation.fetch_add(1, Ordering::AcqRel);
            debug!("read side generation={}", generation + 1);''',
  '''            // As a precaution, update the generation before we
            // do anything else.
            #[cfg(aranya_verif)]
            crate::verif::point("write.gen.fetch_add");
            let generation = side.generation.load(Ordering::Acquire);
            debug!("read side generation={}", generation + 1);''',
  'WriteState::remove bumps the generation on one copy only'),
 ('M41b','C41','shm/read.rs',
  '''        let id = cache.id;

        let mutex = self.inner.load_read_list()?;

        let hint = {
            // SAFETY: we only access an atomic field.
            #[cfg(aranya_verif)]
            crate::verif::point("read.unsync.gen_load");
            let generation = unsafe {
                mutex
                    .inner_unsynchronized()
                    .generation
                    .load(Ordering::Acquire)
            };
            if cache.generation == generation {
                // Same generation, so we can use the key.
                debug!(
                    "cache hit: id={id} generation={generation} seq={}",''',
  '''        let id = cache.id;

        let mutex = self.inner.load_write_list()?;

        let hint = {
            // SAFETY: we only access an atomic field.
            #[cfg(aranya_verif)]
            crate::verif::point("read.unsync.gen_load");
            let generation = unsafe {
                mutex
                    .inner_unsynchronized()
                    .generation
                    .load(Ordering::Acquire)
            };
            if cache.generation == generation {
                // Same generation, so we can use the key.
                debug!(
                    "cache hit: id={id} generation={generation} seq={}",''',
  'ReadState::seal validates its cache against the write copy'),
 ('M41c','C41,C44','memory/lender.rs',
  '''                STATE_UNSHARED => None,
                STATE_SHARED => Some(&self.inner().value),''',
  '''                STATE_UNSHARED => Some(&self.inner().value),
                STATE_SHARED => Some(&self.inner().value),''',
  'BiArc::get_if_shared ignores revocation (loan keeps access after the lender is dropped)'),
 ('M42a','C42','shm/write.rs',
  '''            side.len += 1;
            assert!(side.len <= side.cap);
            debug!("read side len={}", side.len);''',
  '''            assert!(side.len <= side.cap);
            debug!("read side len={}", side.len);''',
  'WriteState::add does not grow the second copy'),
 ('M42b','C42','shm/write.rs',
  '''            if side.len >= side.cap {
                // We're out of space.''',
  '''            if side.len > side.cap {
                // We're out of space.''',
  'WriteState::add checks len > cap instead of len >= cap (accepts one channel too many)'),
 ('M42c','C42','shm/write.rs',
  '''            let next = self.inner.shm().next_chan_id.fetch_add(1, Ordering::SeqCst);''',
  '''            let next = self.inner.shm().next_chan_id.load(Ordering::SeqCst);''',
  'WriteState::add never advances next_chan_id (ids reused)'),
 ('M42d','C42','shm/shared.rs',
  '''            if len > 1 {
                self.chans_mut()?.swap(idx, len - 1);
            }''',
  '''            if len > 2 {
                self.chans_mut()?.swap(idx, len - 1);
            }''',
  'swap_remove forgets to move the last entry when two entries are left (wrong channel removed)'),
 ('M43a','C43','mutex.rs',
  '''            Self::MUTEX_SLEEPING => futex_wake(&self.key, 1)?,''',
  '''            Self::MUTEX_SLEEPING => { let _ = futex_wake; }''',
  'sys_unlock drops the wake-up'),
 ('M43b','C43','mutex.rs',
  '''            wait = Self::MUTEX_SLEEPING;
            futex_wait(&self.key, Self::MUTEX_SLEEPING);''',
  '''            wait = Self::MUTEX_LOCKED;
            futex_wait(&self.key, Self::MUTEX_SLEEPING);''',
  'sys_lock re-acquires as LOCKED after sleeping (forgets other sleepers: lost wake-up with 3 threads)'),
 ('M43c','C43','mutex.rs',
  '''                    if likely!(
                        self.key
                            .compare_exchange(
                                Self::MUTEX_UNLOCKED,
                                wait,
                                Ordering::SeqCst,
                                Ordering::SeqCst,
                            )
                            .is_ok()
                    ) {''',
  '''                    if likely!({
                        self.key.store(wait, Ordering::SeqCst);
                        true
                    }) {''',
  'passive spin acquires with load-then-store instead of compare-exchange (two holders)'),
 ('M44b','C44','memory/lender.rs',
  '''            if self.inner().state.swap(STATE_UNSHARED, Ordering::AcqRel) == STATE_UNSHARED {''',
  '''            if self.inner().state.swap(STATE_UNSHARED, Ordering::AcqRel) == STATE_SHARED {''',
  'BiArc::drop frees when the other handle is still alive (and leaks when it is the last)'),
 ('M44c','C44','memory/lender.rs',
  '''                unsafe {
                    drop(Box::from_raw(self.0.as_ptr()));
                }''',
  '''                unsafe {
                    let _ = Box::from_raw(self.0.as_ptr());
                    core::mem::forget(Box::from_raw(self.0.as_ptr()));
                }''',
  'placeholder'),
]
# M44c: never free (leak)
MUT[-1]=('M44c','C44','memory/lender.rs',
  '''                unsafe {
                    drop(Box::from_raw(self.0.as_ptr()));
                }''',
  '''                unsafe {
                    core::mem::forget(Box::from_raw(self.0.as_ptr()));
                }''',
  'BiArc::drop never frees the data (leak)')

only=set(sys.argv[1:])
res=[]
def sh(cmd, **kw):
    return subprocess.run(cmd, shell=True, capture_output=True, text=True, **kw)
for mid, props, f, old, new, desc in MUT:
    if only and mid not in only: continue
    sh('git -C /tmp/afc-mut checkout -q -- .')
    p=W+f
    s=open(p).read()
    if s.count(old)!=1:
        res.append(dict(id=mid, props=props, desc=desc, outcome='PATCH-DOES-NOT-APPLY(%d)'%s.count(old)))
        print(res[-1], flush=True); continue
    open(p,'w').write(s.replace(old,new))
    sh('/tmp/afc-ws-mut/sync.sh')
    t0=time.time()
    b=sh('cd /tmp/afc-ws-mut && cargo build --offline -p afcsim 2>&1 | tail -30')
    if 'Finished' not in b.stdout:
        res.append(dict(id=mid, props=props, desc=desc, outcome='BUILD-FAILED', log=b.stdout[-1500:]))
        print(res[-1], flush=True); continue
    bt=time.time()-t0
    for prop in props.split(','):
        t1=time.time()
        r=sh(f'cd /tmp && /tmp/afc-mut-target/debug/afcsim --property {prop} --evidence /tmp/mut-{mid}-{prop}.json 2>/dev/null', timeout=1500)
        wall=time.time()-t1
        lines=[l for l in r.stdout.splitlines()]
        cls=[l.strip() for l in lines if l.strip().startswith('class=')]
        summ=[l for l in lines if l.startswith(prop+' quick')]
        # time/executions to first failure are not measured separately: the check always runs its whole batch
        res.append(dict(id=mid, prop=prop, desc=desc, exit=r.returncode, classes=cls[:3], summary=summ[-1] if summ else '', wall_s=round(wall,1), build_s=round(bt,1)))
        print(json.dumps(res[-1]), flush=True)
sh('git -C /tmp/afc-mut checkout -q -- .')
json.dump(res, open('/tmp/afc-ws-mut/results-%d.json'%int(time.time()),'w'), indent=1)
