#!/bin/bash
# refresh the mutant copy of the engine (sources from /verif, deps from /tmp/afc-mut)
mkdir -p /tmp/afc-ws-mut/afcsim
rsync -a --delete /verif/sim/afcsim/src /tmp/afc-ws-mut/afcsim/
sed 's#/repo/crates#/tmp/afc-mut/crates#g' /verif/sim/afcsim/Cargo.toml > /tmp/afc-ws-mut/afcsim/Cargo.toml
