//! Storage-independent reference model (DESIGN 3.5): the global DAG, the reference
//! braid, stored states sigma(c), and a flat fact map.

use std::{
    cell::RefCell,
    collections::{BTreeMap, BTreeSet},
    rc::Rc,
};

use aranya_runtime::{Address, CmdId, MaxCut, Prior, Priority};

use crate::policy::{DagCmd, Dump, Eff, Facts, Key, Op, Wire, eval_op};

pub type State = BTreeMap<(u8, Key), Vec<u8>>;

impl Facts for State {
    fn get(&mut self, name: u8, key: &Key) -> Option<Vec<u8>> {
        BTreeMap::get(self, &(name, key.clone())).cloned()
    }
    fn scan(&mut self, name: u8, prefix: &Key) -> Vec<(Key, Vec<u8>)> {
        self.iter()
            .filter(|((n, k), _)| *n == name && k.len() >= prefix.len() && k[..prefix.len()] == prefix[..])
            .map(|((_, k), v)| (k.clone(), v.clone()))
            .collect()
    }
    fn put(&mut self, name: u8, key: Key, val: Vec<u8>) {
        self.insert((name, key), val);
    }
    fn del(&mut self, name: u8, key: Key) {
        self.remove(&(name, key));
    }
}

pub fn state_dump(s: &State) -> Dump {
    s.iter().map(|((n, k), v)| (*n, k.clone(), v.clone())).collect()
}

#[derive(Clone, Debug)]
pub struct Node {
    pub cmd: DagCmd,
    pub parent: Prior<CmdId>,
    pub op: Op,
    pub max_cut: u64,
}

impl Node {
    pub fn address(&self) -> Address {
        Address { id: self.cmd.id, max_cut: MaxCut::new(self.max_cut) }
    }
    pub fn prio(&self) -> Priority {
        self.cmd.priority.clone()
    }
    pub fn is_merge(&self) -> bool {
        matches!(self.parent, Prior::Merge(..))
    }
    pub fn is_finalize(&self) -> bool {
        matches!(self.cmd.priority, Priority::Finalize)
    }
    pub fn parents(&self) -> Vec<CmdId> {
        match self.parent {
            Prior::None => vec![],
            Prior::Single(a) => vec![a],
            Prior::Merge(a, b) => vec![a, b],
        }
    }
}

#[derive(Clone, Debug, PartialEq, Eq)]
pub enum Validity {
    Ok,
    /// Rejected by policy at origin.
    Rejected,
    /// A parent is invalid or unknown.
    NoParent(CmdId),
    /// Merge whose braid has two concurrent finalize commands.
    ParallelFinalize,
}

#[derive(Clone, Debug)]
pub struct BraidPlan {
    pub base: CmdId,
    /// Commands in evaluation order (after the base).
    pub seq: Vec<CmdId>,
}

#[derive(Clone, Debug)]
pub struct BraidEval {
    pub plan: BraidPlan,
    /// (command, perspective before, accepted)
    pub steps: Vec<(CmdId, State, bool)>,
    pub state: State,
    pub effects: Vec<Eff>,
}

#[derive(Default)]
pub struct Global {
    pub nodes: BTreeMap<CmdId, Node>,
    sigma: RefCell<BTreeMap<CmdId, Rc<State>>>,
    validity: RefCell<BTreeMap<CmdId, Validity>>,
    origin_eff: RefCell<BTreeMap<CmdId, Vec<Eff>>>,
}

pub struct ParallelFinalize;

impl Global {
    pub fn new() -> Self {
        Self::default()
    }

    /// Registers a well-formed command (wire parses, parents by id). Returns false if unparsable.
    pub fn add(&mut self, cmd: &DagCmd) -> bool {
        if self.nodes.contains_key(&cmd.id) {
            return true;
        }
        let Some(w): Option<Wire> = cmd.wire() else {
            return false;
        };
        let parent = match cmd.parent {
            Prior::None => Prior::None,
            Prior::Single(a) => Prior::Single(a.id),
            Prior::Merge(a, b) => Prior::Merge(a.id, b.id),
        };
        let max_cut = cmd.address().max_cut.get();
        self.nodes.insert(
            cmd.id,
            Node { cmd: cmd.clone(), parent, op: w.op, max_cut },
        );
        true
    }

    pub fn node(&self, id: &CmdId) -> &Node {
        &self.nodes[id]
    }

    /// Is `a` a proper ancestor of `b`?
    pub fn is_ancestor(&self, a: &CmdId, b: &CmdId) -> bool {
        if a == b {
            return false;
        }
        let target_mc = self.nodes[a].max_cut;
        let mut stack = vec![*b];
        let mut seen = BTreeSet::new();
        while let Some(x) = stack.pop() {
            for p in self.nodes[&x].parents() {
                if p == *a {
                    return true;
                }
                if self.nodes[&p].max_cut > target_mc && seen.insert(p) {
                    stack.push(p);
                }
            }
        }
        false
    }

    /// Ancestors-or-self closure.
    pub fn closure(&self, heads: &[CmdId]) -> BTreeSet<CmdId> {
        let mut seen: BTreeSet<CmdId> = BTreeSet::new();
        let mut stack: Vec<CmdId> = heads.to_vec();
        while let Some(x) = stack.pop() {
            if seen.insert(x) {
                if let Some(n) = self.nodes.get(&x) {
                    stack.extend(n.parents());
                }
            }
        }
        seen
    }

    /// Elements of `set` with no child in `set`.
    pub fn frontier(&self, set: &BTreeSet<CmdId>) -> Vec<CmdId> {
        let mut has_child: BTreeSet<CmdId> = BTreeSet::new();
        for id in set {
            for p in self.nodes[id].parents() {
                has_child.insert(p);
            }
        }
        set.iter().filter(|id| !has_child.contains(id)).copied().collect()
    }

    /// Reference braid: pure graph algorithm, no locations, no LCA, no skip lists.
    pub fn braid(&self, heads: &[CmdId]) -> Result<BraidPlan, ParallelFinalize> {
        assert!(heads.len() >= 2);
        let closure = self.closure(heads);
        let mut child_count: BTreeMap<CmdId, usize> = BTreeMap::new();
        for id in &closure {
            for p in self.nodes[id].parents() {
                *child_count.entry(p).or_insert(0) += 1;
            }
        }
        let mut removed: BTreeMap<CmdId, usize> = BTreeMap::new();
        let mut f: BTreeSet<(Priority, CmdId)> = BTreeSet::new();
        let mut finalizes = 0usize;
        let mut add = |f: &mut BTreeSet<(Priority, CmdId)>, finalizes: &mut usize, id: CmdId| -> Result<(), ParallelFinalize> {
            let n = &self.nodes[&id];
            if n.is_finalize() {
                if *finalizes > 0 {
                    return Err(ParallelFinalize);
                }
                *finalizes += 1;
            }
            f.insert((n.prio(), id));
            Ok(())
        };
        for h in heads {
            add(&mut f, &mut finalizes, *h)?;
        }
        let mut emitted: Vec<CmdId> = Vec::new();
        loop {
            if f.len() == 1 {
                let (_, base) = f.iter().next().cloned().expect("len 1");
                emitted.reverse();
                return Ok(BraidPlan { base, seq: emitted });
            }
            let (prio, id) = f.iter().next().cloned().expect("non-empty frontier");
            f.remove(&(prio, id));
            let n = &self.nodes[&id];
            if n.is_finalize() {
                finalizes -= 1;
            }
            if !n.is_merge() {
                emitted.push(id);
            }
            for p in n.parents() {
                let r = removed.entry(p).or_insert(0);
                *r += 1;
                if *r == child_count[&p] {
                    add(&mut f, &mut finalizes, p)?;
                }
            }
            assert!(!f.is_empty(), "reference braid ran out of frontier");
        }
    }

    /// Independent statement of C05: two causally unordered finalize commands in the closure.
    pub fn has_concurrent_finalize(&self, heads: &[CmdId]) -> bool {
        let closure = self.closure(heads);
        let fins: Vec<CmdId> = closure.iter().filter(|c| self.nodes[c].is_finalize()).copied().collect();
        for i in 0..fins.len() {
            for j in (i + 1)..fins.len() {
                if !self.is_ancestor(&fins[i], &fins[j]) && !self.is_ancestor(&fins[j], &fins[i]) {
                    return true;
                }
            }
        }
        false
    }

    pub fn eval_braid(&self, heads: &[CmdId]) -> Result<BraidEval, ParallelFinalize> {
        let plan = self.braid(heads)?;
        let mut state: State = (*self.sigma(&plan.base)).clone();
        let mut steps = Vec::with_capacity(plan.seq.len());
        let mut effects = Vec::new();
        for id in &plan.seq {
            let before = state.clone();
            let n = &self.nodes[id];
            let mut effs = Vec::new();
            let ok = eval_op(id.as_array(), &n.op, &mut state, &mut |e| effs.push(e));
            if !ok {
                // Checks precede writes for every op that can be rejected in a braid.
                state = before.clone();
            } else {
                effects.append(&mut effs);
            }
            steps.push((*id, before, ok));
        }
        Ok(BraidEval { plan, steps, state, effects })
    }

    /// Fact state a replica whose committed head set is `heads` must expose.
    pub fn state_of_heads(&self, heads: &[CmdId]) -> Result<State, ParallelFinalize> {
        if heads.len() == 1 {
            Ok((*self.sigma(&heads[0])).clone())
        } else {
            Ok(self.eval_braid(heads)?.state)
        }
    }

    pub fn validity(&self, id: &CmdId) -> Validity {
        if let Some(v) = self.validity.borrow().get(id) {
            return v.clone();
        }
        // Iterative post-order over unknown ancestors.
        let mut stack = vec![*id];
        while let Some(&x) = stack.last() {
            if self.validity.borrow().contains_key(&x) {
                stack.pop();
                continue;
            }
            let Some(n) = self.nodes.get(&x) else {
                self.validity.borrow_mut().insert(x, Validity::NoParent(x));
                stack.pop();
                continue;
            };
            let parents = n.parents();
            let pending: Vec<CmdId> = parents
                .iter()
                .filter(|p| !self.validity.borrow().contains_key(p))
                .copied()
                .collect();
            if !pending.is_empty() {
                stack.extend(pending);
                continue;
            }
            let v = self.compute_validity(&x);
            self.validity.borrow_mut().insert(x, v);
            stack.pop();
        }
        self.validity.borrow()[id].clone()
    }

    fn compute_validity(&self, id: &CmdId) -> Validity {
        let n = &self.nodes[id];
        for p in n.parents() {
            if self.validity.borrow().get(&p) != Some(&Validity::Ok) {
                return Validity::NoParent(p);
            }
        }
        match n.parent {
            Prior::None => {
                let mut st = State::new();
                let mut effs = Vec::new();
                let ok = eval_op(id.as_array(), &n.op, &mut st, &mut |e| effs.push(e));
                if ok {
                    self.sigma.borrow_mut().insert(*id, Rc::new(st));
                    self.origin_eff.borrow_mut().insert(*id, effs);
                    Validity::Ok
                } else {
                    Validity::Rejected
                }
            }
            Prior::Single(p) => {
                let mut st: State = (*self.sigma.borrow()[&p]).clone();
                let mut effs = Vec::new();
                let ok = eval_op(id.as_array(), &n.op, &mut st, &mut |e| effs.push(e));
                if ok {
                    self.sigma.borrow_mut().insert(*id, Rc::new(st));
                    self.origin_eff.borrow_mut().insert(*id, effs);
                    Validity::Ok
                } else {
                    self.origin_eff.borrow_mut().insert(*id, effs);
                    Validity::Rejected
                }
            }
            Prior::Merge(l, r) => match self.eval_braid(&[l, r]) {
                Ok(ev) => {
                    self.sigma.borrow_mut().insert(*id, Rc::new(ev.state));
                    Validity::Ok
                }
                Err(ParallelFinalize) => Validity::ParallelFinalize,
            },
        }
    }

    /// Stored state after `id` (requires validity Ok).
    pub fn sigma(&self, id: &CmdId) -> Rc<State> {
        let v = self.validity(id);
        assert_eq!(v, Validity::Ok, "sigma of invalid command");
        Rc::clone(&self.sigma.borrow()[id])
    }

    /// Effects the command emits when evaluated at origin (accepted or not).
    pub fn origin_effects(&self, id: &CmdId) -> Vec<Eff> {
        let _ = self.validity(id);
        self.origin_eff.borrow().get(id).cloned().unwrap_or_default()
    }

    /// The collapse fold of a head set (ids ascending): pop two from the front, merge,
    /// push to the back. Registers the merge commands; returns them in creation order.
    pub fn collapse(&mut self, heads: &[CmdId]) -> Vec<CmdId> {
        let mut q: std::collections::VecDeque<CmdId> = heads.iter().copied().collect();
        let mut made = Vec::new();
        while q.len() >= 2 {
            let l = q.pop_front().expect("len>=2");
            let r = q.pop_front().expect("len>=2");
            let m = crate::policy::merge_cmd(self.nodes[&l].address(), self.nodes[&r].address());
            self.add(&m);
            made.push(m.id);
            q.push_back(m.id);
        }
        made
    }
}
