//! Seeded generation of steps. Every choice comes from PRNG streams derived from the run
//! seed; the produced steps are explicit, so a run can be replayed without the PRNG.

use aranya_runtime::SyncResponder;
use vcommon::Rng;

use crate::{
    netfault,
    policy::{ActCmd, Key, Op, WPrio},
    sim::{Cfg, CraftItem, ItemKind, NetFault, Sel, Sim, Step, key_alphabet, prefix_alphabet},
    with_rep,
};

#[derive(Clone, Debug)]
pub struct Weights {
    pub act: u32,
    pub sync_open: u32,
    pub resp_poll: u32,
    pub deliver: u32,
    pub flush: u32,
    pub commit: u32,
    pub abandon: u32,
    pub craft: u32,
    pub hello: u32,
    pub sess: u32,
    pub cache: u32,
    pub crash: u32,
    pub queue: u32,
    pub push: u32,
}

pub struct Gen {
    pub sched: Rng,
    pub wl: Rng,
    pub net: Rng,
    pub w: Weights,
    pub nonce: u64,
    pub keys: Vec<Key>,
    pub prefixes: Vec<Key>,
    pub max_cmds_per_act: u64,
    pub finalize_pct: u64,
    pub poison_pct: u64,
    pub fail_pct: u64,
    pub fault_pct: u64,
    pub corrupt_pct: u64,
    pub prio_span: u32,
    pub spill_fault_pct: u64,
    pub small_buf_pct: u64,
}

pub fn family_cfg(family_name: &str, seed: u64, big: bool) -> Cfg {
    // "crash-subsector" is the crash family on a disk that also tears inside sectors.
    let subsector = family_name == "crash-subsector";
    // "push-chaos" is the push family with transport faults.
    let family = if subsector { "crash" } else if family_name == "push-chaos" { "push" } else { family_name };
    let mut r = Rng::derive(seed, "cfg");
    let (n_lo, n_hi) = match family {
        "facts" => (1, 2),
        "txn-race" => (3, 5),
        "sync-size" => (2, 3),
        "sessions" => (2, 3),
        "crash" => (1, 3),
        _ => (2, 5),
    };
    let n_reps = r.range(n_lo, n_hi) as usize;
    let faults = matches!(family, "net-chaos" | "dag-faults" | "crash") || family_name == "push-chaos";
    let mut file_backed = vec![false; n_reps];
    if family == "crash" || family == "file" {
        for f in file_backed.iter_mut() {
            *f = r.chance(2, 3);
        }
        file_backed[0] = true;
    }
    if family == "cache" {
        // Own stream (shifts no other draw): some replicas of the peer-cache family sit on the
        // simulated disk so that read faults can be placed inside cache updates.
        let mut f = Rng::derive(seed, "cfg-file");
        for x in file_backed.iter_mut() {
            *x = f.chance(1, 3);
        }
    }
    let max_steps = match (family, big) {
        ("sync-size", false) => 260,
        ("sync-size", true) => 900,
        ("facts", false) => 120,
        ("facts", true) => 600,
        (_, false) => r.range(30, 120) as usize,
        (_, true) => r.range(200, 600) as usize,
    };
    Cfg {
        seed,
        family: family_name.to_string(),
        n_reps,
        file_backed,
        faults,
        dump_every: if big { 7 } else { 1 },
        allpairs_max: if big { 0 } else { 48 },
        fuel: 400_000,
        max_commands: if big { 400 } else { 120 },
        lookup_every: 6,
        fs: {
            let mut fs = if family == "crash" && r.chance(1, 2) {
                crate::sim::FsCfg { eintr_pct: r.range(0, 10), short_pct: r.range(0, 15), eio_permille: if r.chance(1, 3) { r.range(1, 15) } else { 0 }, enospc_permille: if r.chance(1, 4) { r.range(1, 30) } else { 0 }, subsector, explore: 0 }
            } else {
                crate::sim::FsCfg { subsector, ..Default::default() }
            };
            if family == "crash" {
                // Own stream, so that turning exploration on shifts no other draw.
                let mut e = Rng::derive(seed, "cfg-explore");
                fs.explore = if e.chance(2, 3) { e.range(1, 3) as u32 } else { 0 };
            }
            fs
        },
        max_steps,
    }
}

impl Gen {
    pub fn new(cfg: &Cfg) -> Self {
        let mut r = Rng::derive(cfg.seed, "knobs");
        let mut w = Weights { act: 30, sync_open: 14, resp_poll: 26, deliver: 30, flush: 3, commit: 12, abandon: 1, craft: 0, hello: 3, sess: 0, cache: 1, crash: 0, queue: 0, push: 0 };
        let mut poison_pct = 0;
        let mut finalize_pct = r.range(0, 6);
        let mut fail_pct = r.range(0, 10);
        let mut fault_pct = 0;
        let mut corrupt_pct = 0;
        let mut max_cmds = r.range(1, 4);
        let family = if cfg.family == "crash-subsector" { "crash" } else { cfg.family.as_str() };
        match family {
            "push" => {
                w.push = 30;
                w.act = 40;
                w.sync_open = 6;
                w.abandon = 2;
                max_cmds = r.range(1, 6);
            }
            "push-chaos" => {
                w.push = 40;
                w.act = 30;
                w.sync_open = 6;
                fault_pct = r.range(20, 70);
                corrupt_pct = r.range(40, 95);
            }
            "adversarial" => {
                w.craft = 30;
                w.act = 15;
                poison_pct = r.range(10, 40);
                finalize_pct = r.range(0, 12);
            }
            "finalize" => {
                w.craft = 14;
                finalize_pct = r.range(10, 35);
            }
            "txn-race" => {
                w.sync_open = 25;
                w.commit = 25;
                w.act = 20;
                w.abandon = 3;
                w.craft = 6;
            }
            "sync-size" => {
                w.act = 120;
                w.sync_open = 6;
                w.commit = 8;
                w.hello = 1;
                max_cmds = r.range(1, 8);
                fail_pct = 0;
            }
            "hello" => {
                w.hello = 30;
                w.abandon = 2;
            }
            "facts" => {
                w.act = 80;
                w.sync_open = 4;
                w.craft = 6;
                poison_pct = r.range(0, 15);
                max_cmds = r.range(1, 7);
            }
            "sessions" => {
                w.sess = 45;
                w.act = 20;
            }
            "cache" => {
                w.cache = 25;
            }
            "net-chaos" => {
                w.push = 6;
                fault_pct = r.range(10, 50);
                corrupt_pct = r.range(20, 90);
                w.craft = 4;
            }
            "dag-faults" => {
                fault_pct = r.range(3, 25);
                corrupt_pct = r.range(0, 20);
                w.abandon = 4;
            }
            "queue" => {
                w.queue = 40;
                w.act = 40;
            }
            "crash" => {
                w.crash = 8;
                w.act = 40;
                fault_pct = r.range(0, 10);
            }
            _ => {}
        }
        // Swarm: randomly silence some step kinds in this run.
        if r.chance(1, 6) {
            w.flush = 0;
        }
        if r.chance(1, 8) {
            w.hello = 0;
        }
        if r.chance(1, 5) {
            w.cache = w.cache.max(6);
        }
        if cfg.family != "sessions" && r.chance(1, 5) {
            w.sess = 8;
        }
        Self {
            sched: Rng::derive(cfg.seed, "schedule"),
            wl: Rng::derive(cfg.seed, "workload"),
            net: Rng::derive(cfg.seed, "net"),
            w,
            nonce: 0,
            keys: key_alphabet(),
            prefixes: prefix_alphabet(),
            max_cmds_per_act: max_cmds,
            finalize_pct,
            poison_pct,
            fail_pct,
            fault_pct,
            corrupt_pct,
            prio_span: r.range(1, 4) as u32,
            spill_fault_pct: if cfg.faults { r.range(0, 10) } else { 0 },
            small_buf_pct: r.range(0, 8),
        }
    }

    fn key(&mut self) -> Key {
        self.wl.pick(&self.keys).clone()
    }

    fn val(&mut self) -> Vec<u8> {
        match self.wl.below(6) {
            0 => vec![],
            1 => vec![0],
            2 => b"v".to_vec(),
            _ => {
                let n = self.wl.range(1, 5) as usize;
                let mut v = vec![0u8; n];
                self.wl.fill(&mut v);
                v
            }
        }
    }

    pub fn op(&mut self, allow_poison: bool) -> Op {
        let name = self.wl.below(2) as u8;
        if allow_poison && self.wl.below(100) < self.poison_pct {
            let del = if self.wl.chance(1, 2) { Some(self.key()) } else { None };
            return Op::Poison { name, key: self.key(), val: self.val(), del };
        }
        match self.wl.below(100) {
            0..=36 => Op::Put { name, key: self.key(), val: self.val() },
            37..=50 => Op::Del { name, key: self.key() },
            51..=64 => Op::Digest { name, prefix: self.wl.pick(&self.prefixes).clone(), out: self.key() },
            65..=76 => Op::CopyIf { name, from: self.key(), to: self.key() },
            77..=87 => Op::Guard { name, need: self.key(), key: self.key(), val: self.val() },
            _ => Op::NoOp,
        }
    }

    pub fn act_cmd(&mut self, allow_poison: bool) -> ActCmd {
        self.nonce += 1;
        let prio = if self.wl.below(100) < self.finalize_pct { WPrio::Finalize } else { WPrio::Basic(self.wl.below(u64::from(self.prio_span)) as u32) };
        ActCmd { op: self.op(allow_poison), prio, nonce: self.nonce }
    }

    fn sel(&mut self) -> Sel {
        match self.wl.below(10) {
            0..=3 => Sel::Tip(self.wl.below(8) as u32),
            4..=5 => Sel::Present(self.wl.below(64) as u32),
            6 => Sel::Head(self.wl.below(4) as u32),
            7..=8 => Sel::Prev,
            _ => Sel::LastRejected,
        }
    }

    fn craft_items(&mut self, first_for_new_graph: bool) -> Vec<CraftItem> {
        let n = self.wl.range(1, 5) as usize;
        let mut items = Vec::new();
        for i in 0..n {
            let kind = if first_for_new_graph && i == 0 {
                match self.wl.below(8) {
                    0..=3 => ItemKind::DupInit,
                    4 => ItemKind::ForeignInit,
                    5 => ItemKind::PolicylessInit,
                    _ => ItemKind::Cmd(self.act_cmd(false)),
                }
            } else {
                match self.wl.below(100) {
                    0..=55 => ItemKind::Cmd(self.act_cmd(true)),
                    56..=59 => ItemKind::CmdBadCut(self.act_cmd(false), [-2i8, -1, 1, 3][self.wl.usize_below(4)]),
                    60..=74 => ItemKind::Merge(Sel::Tip(self.wl.below(8) as u32)),
                    75..=79 => ItemKind::DupInit,
                    80..=84 => ItemKind::ForeignInit,
                    _ => ItemKind::Dup(Sel::Present(self.wl.below(64) as u32)),
                }
            };
            let parent = if matches!(kind, ItemKind::Merge(_)) { Sel::Tip(self.wl.below(8) as u32) } else { self.sel() };
            items.push(CraftItem { parent, kind });
        }
        items
    }

    fn net_fault(&mut self, n_sessions: usize) -> NetFault {
        if self.net.below(100) >= self.fault_pct {
            return NetFault::None;
        }
        if self.net.below(100) < self.corrupt_pct {
            return NetFault::Corrupt { kind: self.net.below(u64::from(netfault::KINDS)) as u8, a: self.net.next_u64() as u32, b: self.net.next_u64() as u32 };
        }
        match self.net.below(4) {
            0 | 1 => NetFault::Drop,
            2 => NetFault::Dup,
            _ => NetFault::Misdeliver { to: self.net.usize_below(n_sessions.max(1)) },
        }
    }

    /// Draw the next step given the current state of the simulation.
    pub fn next(&mut self, sim: &Sim) -> Step {
        let n = sim.reps.len();
        if sim.gid.is_none() {
            // The creating action sometimes publishes more than the init command.
            let cmds: Vec<ActCmd> = if self.wl.chance(1, 3) { (0..self.wl.range(1, 2)).map(|_| self.act_cmd(false)).collect() } else { vec![] };
            return Step::Act { r: 0, cmds, fail_at: None, spill_fault: None };
        }
        let live: Vec<usize> = (0..n).filter(|r| !sim.crashed[*r]).collect();
        let with_graph: Vec<usize> = live.iter().copied().filter(|r| sim.has_graph(*r)).collect();
        let open: Vec<(usize, usize)> = live
            .iter()
            .flat_map(|r| with_rep!(&sim.reps[*r], rep => rep.open_slots()).into_iter().map(move |t| (*r, t)))
            .collect();
        let ready: Vec<usize> = sim
            .sess
            .iter()
            .enumerate()
            .filter(|(_, s)| !s.closed && !sim.crashed[s.b] && s.responder.as_ref().is_some_and(SyncResponder::ready))
            .map(|(i, _)| i)
            .collect();
        let sessions: Vec<(usize, usize)> = live
            .iter()
            .flat_map(|r| {
                with_rep!(&sim.reps[*r], rep => rep.sessions.iter().enumerate().filter(|(_, s)| s.is_some()).map(|(i, _)| i).collect::<Vec<_>>())
                    .into_iter()
                    .map(move |s| (*r, s))
            })
            .collect();
        let file_reps: Vec<usize> = (0..n).filter(|r| sim.cfg.file_backed.get(*r).copied().unwrap_or(false)).collect();
        let w = self.w.clone();
        let weights = [
            if with_graph.is_empty() || sim.g.nodes.len() >= sim.cfg.max_commands { 0 } else { w.act },
            if with_graph.is_empty() || live.len() < 2 { 0 } else { w.sync_open },
            if ready.is_empty() { 0 } else { w.resp_poll },
            if sim.net.is_empty() { 0 } else { w.deliver },
            if open.is_empty() { 0 } else { w.flush },
            if open.is_empty() { 0 } else { w.commit },
            if open.is_empty() { 0 } else { w.abandon },
            if live.is_empty() { 0 } else { w.craft },
            if with_graph.is_empty() || live.len() < 2 { 0 } else { w.hello },
            if with_graph.is_empty() { 0 } else { w.sess },
            if with_graph.is_empty() { 0 } else { w.cache },
            if file_reps.is_empty() { 0 } else { w.crash },
            w.queue,
            if with_graph.is_empty() || live.len() < 2 { 0 } else { w.push },
        ];
        if weights.iter().all(|x| *x == 0) {
            return Step::Quiesce;
        }
        match self.sched.weighted(&weights) {
            0 => {
                let r = *self.sched.pick(&with_graph);
                let k = self.wl.range(1, self.max_cmds_per_act) as usize;
                let cmds: Vec<ActCmd> = (0..k).map(|_| self.act_cmd(false)).collect();
                let fail_at = if self.wl.below(100) < self.fail_pct { Some(self.wl.usize_below(k + 1)) } else { None };
                let spill_fault = if self.wl.below(100) < self.spill_fault_pct { Some(self.wl.below(6) as u32) } else { None };
                Step::Act { r, cmds, fail_at, spill_fault }
            }
            1 => {
                let a = *self.sched.pick(&live);
                let others: Vec<usize> = with_graph.iter().copied().filter(|b| *b != a).collect();
                if others.is_empty() {
                    return Step::Hello { a: 0, b: 0, fault: None };
                }
                let b = *self.sched.pick(&others);
                let mine: Vec<usize> = open.iter().filter(|(r, _)| *r == a).map(|(_, t)| *t).collect();
                let reuse = if !mine.is_empty() && self.sched.chance(1, 3) { Some(*self.sched.pick(&mine)) } else { None };
                Step::SyncOpen { a, b, reuse, sid: self.sched.next_u64() }
            }
            2 => {
                let s = *self.sched.pick(&ready);
                let buf = if self.net.below(100) < self.small_buf_pct { Some(self.net.range(0, 300) as usize) } else { None };
                Step::RespPoll { s, buf }
            }
            3 => {
                // Mostly oldest-first; sometimes any message (reordering).
                let m = if self.net.chance(4, 5) { 0 } else { self.net.usize_below(sim.net.len()) };
                let fault = self.net_fault(sim.sess.len());
                Step::Deliver { m, fault }
            }
            4 => {
                let (r, t) = *self.sched.pick(&open);
                Step::Flush { r, t }
            }
            5 => {
                let (r, t) = *self.sched.pick(&open);
                let spill_fault = if self.wl.below(100) < self.spill_fault_pct { Some(self.wl.below(6) as u32) } else { None };
                Step::Commit { r, t, spill_fault, per_addr: self.sched.chance(1, 2) }
            }
            6 => {
                let (r, t) = *self.sched.pick(&open);
                Step::Abandon { r, t }
            }
            7 => {
                let r = *self.sched.pick(&live);
                let mine: Vec<usize> = open.iter().filter(|(x, _)| *x == r).map(|(_, t)| *t).collect();
                let t = if !mine.is_empty() && self.sched.chance(2, 3) { Some(*self.sched.pick(&mine)) } else { None };
                let items = self.craft_items(!sim.has_graph(r));
                Step::Craft { r, t, items }
            }
            8 => {
                let a = *self.sched.pick(&live);
                let others: Vec<usize> = with_graph.iter().copied().filter(|b| *b != a).collect();
                if others.is_empty() {
                    return Step::Quiesce;
                }
                // With transport faults on, the notification travels as a message.
                let fault = if self.fault_pct > 0 { Some(self.net_fault(sim.sess.len())) } else { None };
                Step::Hello { a, b: *self.sched.pick(&others), fault }
            }
            13 => {
                let a = *self.sched.pick(&live);
                let others: Vec<usize> = with_graph.iter().copied().filter(|b| *b != a).collect();
                if others.is_empty() {
                    return Step::Quiesce;
                }
                let b = *self.sched.pick(&others);
                let fault = self.net_fault(sim.sess.len());
                match self.sched.below(10) {
                    0..=2 => Step::Subscribe { a, b, sid: self.sched.next_u64(), fault },
                    3 => Step::Unsubscribe { a, b, fault },
                    _ => {
                        let buf = if self.net.below(100) < self.small_buf_pct.max(4) { Some(self.net.range(0, 400) as usize) } else { None };
                        let mode = match self.sched.below(10) { 0 => 1, 1 => 2, _ => 0 };
                        Step::Push { b, a, sid: self.sched.next_u64(), buf, fault, mode }
                    }
                }
            }
            9 => {
                if sessions.is_empty() || self.sched.chance(1, 6) {
                    return Step::SessOpen { r: *self.sched.pick(&with_graph) };
                }
                let (r, s) = *self.sched.pick(&sessions);
                match self.sched.below(10) {
                    0..=5 => {
                        let k = self.wl.range(1, 3) as usize;
                        let cmds: Vec<ActCmd> = (0..k)
                            .map(|_| {
                                let mut c = self.act_cmd(true);
                                if matches!(c.prio, WPrio::Finalize) {
                                    c.prio = WPrio::Basic(0);
                                }
                                c
                            })
                            .collect();
                        let fail_at = if self.wl.chance(1, 6) { Some(self.wl.usize_below(k + 1)) } else { None };
                        Step::SessAct { r, s, cmds, fail_at }
                    }
                    6..=8 => {
                        let (fr, fs) = *self.sched.pick(&sessions);
                        let garble = if self.net.chance(1, 5) { Some(self.net.next_u64() as u32) } else { None };
                        Step::SessRecv { r, s, from_r: fr, from_s: fs, m: self.sched.usize_below(16), garble }
                    }
                    _ => Step::SessClose { r, s },
                }
            }
            10 => {
                let r = *self.sched.pick(&with_graph);
                Step::CacheAdd { r, peer: self.sched.usize_below(n), sel: Sel::Present(self.wl.below(256) as u32), bogus: if self.wl.chance(1, 6) { self.wl.range(1, 2) as u8 } else { 0 }, read_fault: if sim.is_file(r) && self.net.chance(1, 3) { Some(self.net.below(40) as u32) } else { None } }
            }
            12 => {
                // Few segments and max cuts so that entries collide.
                let n = self.wl.range(3, 24) as usize;
                let dup_mode = self.wl.chance(1, 4);
                let mut ops = Vec::with_capacity(n);
                for _ in 0..n {
                    let seg = self.wl.below(4) as u8;
                    let mc = self.wl.below(6) as u8;
                    ops.push(match self.wl.below(if dup_mode { 12 } else { 10 }) {
                        0..=3 => crate::sim::QOp::Push { seg, mc, covered: self.wl.chance(1, 3) },
                        4..=5 => crate::sim::QOp::Pop,
                        6 => crate::sim::QOp::DrainAbove { th: mc },
                        7..=8 => {
                            let longest = mc.max(self.wl.below(6) as u8);
                            crate::sim::QOp::CoverUpTo { seg, cov: self.wl.below(u64::from(longest) + 2) as u8, longest }
                        }
                        9 => {
                            if self.wl.chance(1, 3) { crate::sim::QOp::DrainAll } else { crate::sim::QOp::Clear }
                        }
                        10 => crate::sim::QOp::PushDup { seg, mc },
                        _ => crate::sim::QOp::PopDups,
                    });
                }
                Step::QueueDrive { ops }
            }
            _ => {
                let r = *self.sched.pick(&file_reps);
                if sim.crashed[r] {
                    Step::Restart { r }
                } else {
                    // A third of the crashes are placed in the window after the next growth of
                    // the file (preallocation boundary), the rest uniformly over the next calls.
                    let after_falloc = self.sched.chance(1, 3);
                    let at = if after_falloc { self.sched.below(8) as u32 } else { self.sched.below(64) as u32 };
                    Step::Crash { r, at, choices: self.sched.next_u64(), after_falloc }
                }
            }
        }
    }
}

/// One complete seeded run: generate, execute, quiesce.
pub fn run_seeded(cfg: &Cfg) -> crate::run::Outcome {
    let _ = aranya_runtime::verif::take_probes();
    let mut sim = Sim::new(cfg.clone());
    let mut g = Gen::new(cfg);
    let mut steps = Vec::new();
    while steps.len() < cfg.max_steps && !sim.dead && sim.found.is_empty() {
        let st = g.next(&sim);
        let quiesce = st == Step::Quiesce;
        sim.exec(&st);
        steps.push(st);
        if quiesce {
            break;
        }
    }
    if !sim.dead && sim.found.is_empty() && steps.last() != Some(&Step::Quiesce) {
        sim.exec(&Step::Quiesce);
        steps.push(Step::Quiesce);
    }
    sim.finish(steps)
}
