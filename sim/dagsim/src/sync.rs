//! Sync sessions over the simulated network, peer caches, hello decisions, quiescence.

use std::{cell::Cell, collections::BTreeSet};

use aranya_crypto::Csprng;
use aranya_runtime::{
    Address, CmdId, Command as _, MAX_SYNC_MESSAGE_SIZE, PeerCache, Storage as _, StorageProvider as _, SyncIncoming,
    SyncRequester, SyncResponder,
};

use crate::{
    oracles::short,
    ops::classify,
    policy::DagCmd,
    replica::{Guarded, guarded},
    sim::{Msg, NetFault, Sel, Sim, SyncSess, take_cache},
    wire_mirror::{self, ResponseMsg},
    with_rep,
};

pub struct SimCsprng(pub Cell<u64>);

impl Csprng for SimCsprng {
    fn fill_bytes(&self, dst: &mut [u8]) {
        let mut s = self.0.get();
        for b in dst.iter_mut() {
            *b = (vcommon::splitmix(&mut s) & 0xff) as u8;
        }
        self.0.set(s);
    }
}

pub fn response_max() -> usize {
    aranya_runtime::COMMAND_RESPONSE_MAX
}

impl Sim {
    pub fn step_sync_open(&mut self, a: usize, b: usize, reuse: Option<usize>, sid: u64) {
        let Some(gid) = self.gid else { return };
        let n = self.reps.len();
        if a >= n || b >= n || a == b || self.crashed[a] || self.dead {
            return;
        }
        // Transaction: reuse an open one for the same peer, else a new one.
        let t = match reuse {
            Some(t) if self.trx_ok(a, t) && with_rep!(&self.reps[a], rep => rep.trxs[t].as_ref().is_some_and(|x| x.peer == b)) => {
                if self.has_graph(a) {
                    self.step_flush(a, t);
                    if !self.trx_ok(a, t) {
                        return;
                    }
                }
                t
            }
            _ => with_rep!(&mut self.reps[a], rep => rep.open_trx(gid, b)),
        };
        let mut requester = SyncRequester::new(gid, SimCsprng(Cell::new(sid)));
        let mut target = vec![0u8; MAX_SYNC_MESSAGE_SIZE];
        aranya_runtime::verif::set_fuel(self.cfg.fuel);
        let res = with_rep!(&mut self.reps[a], rep => {
            let cache = take_cache(&mut rep.caches, b);
            let trx = rep.trxs[t].take().expect("trx");
            let r = guarded(|| {
                let heads = trx.trx.session_heads(&cache);
                requester.poll(&mut target, rep.client.provider(), &heads, &mut rep.buffers.traversal.primary)
            });
            rep.trxs[t] = Some(trx);
            rep.caches.insert(b, cache);
            r
        });
        aranya_runtime::verif::set_fuel(u64::MAX);
        let (len, _sent) = match res {
            Guarded::Done(Ok(x)) => x,
            Guarded::Done(Err(e)) => {
                self.anomaly(format!("requester.poll failed: {e}"));
                return;
            }
            Guarded::Panicked(m) => {
                self.on_panic(Some("C16"), "requester.poll", m);
                return;
            }
        };
        // Does the responder know any command of the request's sample? (If the requester is ahead
        // of the peer by more than the sample window on its own branch and has no cache entry for
        // it, it does not, and the responder can only start from the beginning.)
        let sample_shared = match wire_mirror::decode_sync_type(&target[..len]) {
            Some((wire_mirror::SyncType::Poll { request: wire_mirror::RequestMsg::SyncRequest { commands, .. } }, _)) => {
                self.crashed[b] || commands.iter().any(|a| self.committed(b).contains(&a.id))
            }
            _ => true,
        };
        let mut sidb = [0u8; 16];
        SimCsprng(Cell::new(sid)).fill_bytes(&mut sidb);
        let view = self.view(a, Some(t));
        let missing = if self.crashed[b] { 0 } else { self.committed(b).difference(&view).count() };
        self.sess.push(SyncSess {
            a,
            b,
            trx: t,
            sid: u128::from_le_bytes(sidb),
            requester,
            responder: None,
            // A session on a transaction that another commit has overtaken is not followed
            // (see `do_add`: the shadow no longer tracks what such a transaction holds).
            clean: !with_rep!(&self.reps[a], rep => rep.trxs[t].as_ref().is_some_and(|x| x.captured.is_some_and(|c| c != rep.counter))),
            closed: false,
            ended_seen_by_requester: false,
            polls: 0,
            next_index_sent: 0,
            end_sent: false,
            sent: Vec::new(),
            last_index_accepted: None,
            delivered_indexes: BTreeSet::new(),
            missing_at_open: missing,
            delivered_new: 0,
            b_committed_at_open: if self.crashed[b] { 0 } else { self.committed(b).len() },
            a_view_at_open: view.clone(),
            delivered_missing: 0,
            sample_shared,
        });
        let s = self.sess.len() - 1;
        self.net.push(Msg { sess: s, to_responder: true, bytes: target[..len].to_vec(), pristine: true });
        self.stats.bump("sync_sessions");
        self.note(&format!("sync_open a{a} b{b} t{t} len{len}"));
    }

    /// The responder of session `s` produces its next message.
    pub fn step_resp_poll(&mut self, s: usize, buf: Option<usize>) {
        if s >= self.sess.len() || self.dead {
            return;
        }
        let b = self.sess[s].b;
        let a = self.sess[s].a;
        if self.crashed[b] || !self.has_graph(b) {
            return;
        }
        let Some(mut responder) = self.sess[s].responder.take() else { return };
        if !responder.ready() {
            self.sess[s].responder = Some(responder);
            return;
        }
        let cap = buf.unwrap_or(MAX_SYNC_MESSAGE_SIZE).min(MAX_SYNC_MESSAGE_SIZE);
        let mut target = vec![0u8; cap];
        aranya_runtime::verif::set_fuel(self.cfg.fuel);
        let res = with_rep!(&mut self.reps[b], rep => {
            let mut cache = take_cache(&mut rep.caches, a);
            let r = guarded(|| responder.poll(&mut target, rep.client.provider(), &mut cache, &mut rep.buffers.traversal));
            rep.caches.insert(a, cache);
            r
        });
        aranya_runtime::verif::set_fuel(u64::MAX);
        self.sess[s].polls += 1;
        match res {
            Guarded::Panicked(m) => {
                self.on_panic(Some("C17"), "responder.poll", m);
                return;
            }
            Guarded::Done(Err(e)) => {
                let small = matches!(e, aranya_runtime::SyncError::BufferTooSmall | aranya_runtime::SyncError::Serialize(_));
                if small && buf.is_some() {
                    self.stats.bump("fault.buffer_too_small");
                    self.sess[s].polls -= 1;
                } else {
                    self.sess[s].clean = false;
                    self.sess[s].closed = true;
                    self.anomaly(format!("responder.poll error: {e}"));
                }
                self.note(&format!("resp_poll s{s} err {e}"));
            }
            Guarded::Done(Ok(len)) => {
                let bytes = target[..len].to_vec();
                // Observe what was sent (C17): index sequence, membership in committed(b).
                if let Some((msg, _tail)) = wire_mirror::decode_response(&bytes) {
                    match msg {
                        ResponseMsg::SyncResponse { response_index, commands, .. } => {
                            if response_index != self.sess[s].next_index_sent {
                                self.violation("C17", "C17.response-index", "response-index", format!("session {s}: response index {response_index}, expected {}", self.sess[s].next_index_sent));
                            }
                            self.sess[s].next_index_sent = response_index + 1;
                            let ids: Vec<CmdId> = commands.iter().map(|c| c.id).collect();
                            let foreign: Vec<&CmdId> = ids.iter().filter(|i| !self.committed(b).contains(*i)).collect();
                            if !foreign.is_empty() {
                                self.violation("C17", "C17.uncommitted-sent", "uncommitted-sent", format!("session {s}: responder {b} sent {} which is not in its committed graph", short(foreign[0])));
                            }
                            self.stats.add("sync_commands_sent", ids.len() as u64);
                            self.sess[s].sent.push(ids);
                        }
                        ResponseMsg::SyncEnd { max_index, .. } => {
                            if max_index != self.sess[s].next_index_sent {
                                self.violation("C17", "C17.end-index", "end-index", format!("session {s}: SyncEnd max_index {max_index}, {} responses were sent", self.sess[s].next_index_sent));
                            }
                            self.sess[s].end_sent = true;
                        }
                        _ => {}
                    }
                }
                // Termination bound (each response carries at least one command).
                let bound = self.committed(b).len() as u64 + 3;
                if self.sess[s].polls > bound && !self.sess[s].end_sent {
                    self.violation("C17", "C17.no-end", "session-does-not-end", format!("session {s}: {} polls without SyncEnd (responder holds {} commands)", self.sess[s].polls, self.committed(b).len()));
                    self.sess[s].closed = true;
                }
                self.net.push(Msg { sess: s, to_responder: false, bytes, pristine: true });
                self.note(&format!("resp_poll s{s} len{len}"));
                self.check_cache(b, a, "responder cache");
            }
        }
        self.sess[s].responder = Some(responder);
    }

    pub fn step_deliver(&mut self, m: usize, fault: &NetFault) {
        if self.net.is_empty() || self.dead {
            return;
        }
        let m = m % self.net.len();
        if self.net[..m].iter().any(|x| x.sess == self.net[m].sess && x.to_responder == self.net[m].to_responder) {
            // Overtakes an older message of the same session: reordering.
            self.stats.bump("fault.reorder");
            let s = self.net[m].sess;
            self.sess[s].clean = false;
        }
        let mut msg = self.net.remove(m);
        match fault {
            NetFault::None => {}
            NetFault::Drop => {
                self.stats.bump("fault.drop");
                self.sess[msg.sess].clean = false;
                self.note("drop");
                return;
            }
            NetFault::Dup => {
                self.stats.bump("fault.dup");
                self.sess[msg.sess].clean = false;
                self.net.push(Msg { sess: msg.sess, to_responder: msg.to_responder, bytes: msg.bytes.clone(), pristine: false });
            }
            NetFault::Corrupt { kind, a, b } => {
                self.stats.bump(&format!("fault.corrupt.{kind}"));
                crate::netfault::corrupt(&mut msg.bytes, *kind, *a, *b, &self.g);
                msg.pristine = false;
                self.sess[msg.sess].clean = false;
            }
            NetFault::Misdeliver { to } => {
                if !self.sess.is_empty() {
                    let to = *to % self.sess.len();
                    if to != msg.sess {
                        self.stats.bump("fault.misdeliver");
                        self.sess[msg.sess].clean = false;
                        self.sess[to].clean = false;
                        msg.sess = to;
                        msg.pristine = false;
                    }
                }
            }
        }
        if msg.to_responder {
            self.deliver_to_responder(msg);
        } else {
            self.deliver_to_requester(msg);
        }
    }

    fn deliver_to_responder(&mut self, msg: Msg) {
        let s = msg.sess;
        let b = self.sess[s].b;
        if self.crashed[b] {
            return;
        }
        let mut responder = self.sess[s].responder.take().unwrap_or_default();
        let r = guarded(|| match SyncIncoming::decode(&msg.bytes) {
            Ok(SyncIncoming::Poll(p)) => match responder.receive(p) {
                Ok(()) => "poll-ok".to_string(),
                Err(e) => format!("poll-err:{e}"),
            },
            Ok(SyncIncoming::Subscribe(sub)) => {
                let _ = (sub.graph_id(), sub.remain_open(), sub.max_bytes(), sub.heads().as_slice().len());
                "subscribe".to_string()
            }
            Ok(SyncIncoming::Unsubscribe(u)) => {
                let _ = u.graph_id();
                "unsubscribe".to_string()
            }
            Ok(SyncIncoming::Push(p)) => {
                let _ = (p.graph_id(), p.session_id());
                "push".to_string()
            }
            Ok(SyncIncoming::Hello(h)) => format!("hello:{h:?}").chars().take(12).collect(),
            Err(e) => format!("decode-err:{e}").chars().take(24).collect(),
        });
        match r {
            Guarded::Done(outcome) => {
                self.stats.bump(&format!("recv.responder.{}", outcome.split(':').next().unwrap_or("")));
                self.note(&format!("to_responder s{s} {outcome}"));
            }
            Guarded::Panicked(m) => {
                self.on_panic(Some("C18"), "responder receive/decode", format!("{m}; bytes={}", vcommon::hex(&msg.bytes)));
            }
        }
        self.sess[s].responder = Some(responder);
    }

    fn deliver_to_requester(&mut self, msg: Msg) {
        let s = msg.sess;
        let (a, t) = (self.sess[s].a, self.sess[s].trx);
        if self.crashed[a] || self.sess[s].closed || !self.trx_ok(a, t) {
            // Still exercise the decoder (C18) on a scratch requester.
            let r = guarded(|| {
                let mut scratch = SyncRequester::new_session_id(self.gid.expect("gid"), self.sess[s].sid);
                scratch.receive(&msg.bytes).map(|o| o.map(|v| v.len())).map_err(|e| e.to_string())
            });
            if let Guarded::Panicked(m) = r {
                self.on_panic(Some("C18"), "requester.receive", format!("{m}; bytes={}", vcommon::hex(&msg.bytes)));
            }
            return;
        }
        let mirror = wire_mirror::decode_response(&msg.bytes).map(|(m, _)| m);
        if let Some(ResponseMsg::SyncResponse { session_id, response_index, .. }) = &mirror {
            if *session_id == self.sess[s].sid {
                self.sess[s].delivered_indexes.insert(*response_index);
            }
        }
        let mut requester = std::mem::replace(&mut self.sess[s].requester, SyncRequester::new_session_id(self.gid.expect("gid"), 0));
        let r = guarded(|| match requester.receive(&msg.bytes) {
            Ok(Some(cmds)) => {
                let len = msg.bytes.len();
                let base = msg.bytes.as_ptr() as usize;
                let mut out = Vec::new();
                let mut in_bounds = true;
                for c in &cmds {
                    let d = c.bytes();
                    let p = d.as_ptr() as usize;
                    if !d.is_empty() && (p < base || p + d.len() > base + len) {
                        in_bounds = false;
                    }
                    out.push(DagCmd { id: c.id(), parent: c.parent(), priority: c.priority(), policy: c.policy().map(<[u8]>::to_vec), bytes: d.to_vec() });
                }
                Ok((Some(out), in_bounds))
            }
            Ok(None) => Ok((None, true)),
            Err(e) => Err(e.to_string()),
        });
        self.sess[s].requester = requester;
        let (cmds, in_bounds) = match r {
            Guarded::Panicked(m) => {
                self.on_panic(Some("C18"), "requester.receive", format!("{m}; bytes={}", vcommon::hex(&msg.bytes)));
                return;
            }
            Guarded::Done(Err(e)) => {
                self.stats.bump("recv.requester.err");
                self.note(&format!("to_requester s{s} err {e}"));
                if self.sess[s].clean && msg.pristine {
                    self.violation("C17", "C17.clean-response-refused", "clean-response-refused", format!("session {s}: requester refused an untouched in-order response: {e}"));
                }
                return;
            }
            Guarded::Done(Ok(x)) => x,
        };
        if !in_bounds {
            self.violation("C18", "C18.out-of-bounds", "command-slice-out-of-bounds", format!("session {s}: a command payload slice lies outside the received buffer"));
        }
        // C18: only own session, and in sequence. "In sequence" is stated over what was delivered,
        // not over the requester's private counter: an accepted response index must be greater
        // than every index accepted before (no replay, no going back) and every smaller index
        // must already have been delivered to this requester (no skipping ahead of a response
        // that has not arrived). A response that arrived damaged still counts as delivered.
        if let Some(ResponseMsg::SyncResponse { session_id, response_index, .. }) = &mirror {
            if cmds.is_some() {
                if *session_id != self.sess[s].sid {
                    self.violation("C18", "C18.foreign-session", "foreign-session-accepted", format!("session {s}: accepted a response for session {session_id:x}"));
                }
                let k = *response_index;
                if self.sess[s].last_index_accepted.is_some_and(|l| k <= l) {
                    self.violation("C18", "C18.out-of-sequence", "out-of-sequence-accepted", format!("session {s}: accepted response index {k} after index {:?} had been accepted", self.sess[s].last_index_accepted));
                } else if let Some(gap) = (0..k).find(|j| !self.sess[s].delivered_indexes.contains(j)) {
                    self.violation("C18", "C18.out-of-sequence", "out-of-sequence-accepted", format!("session {s}: accepted response index {k} although index {gap} was never delivered"));
                }
                self.sess[s].last_index_accepted = Some(k);
            }
        }
        match cmds {
            None => {
                self.stats.bump("recv.requester.control");
                if matches!(mirror, Some(ResponseMsg::SyncEnd { .. })) {
                    self.sess[s].ended_seen_by_requester = true;
                    self.session_complete(s);
                }
                self.note(&format!("to_requester s{s} control"));
            }
            Some(cmds) => {
                self.stats.bump("recv.requester.commands");
                let clean = self.sess[s].clean && msg.pristine;
                // Commands that were really sent by an honest responder are known to the model;
                // corrupted ones may not parse, `predict_add` handles both.
                let addrs: Vec<Address> = cmds.iter().map(DagCmd::address).collect();
                let fresh = cmds.iter().filter(|c| !self.sess[s].a_view_at_open.contains(&c.id)).count();
                self.sess[s].delivered_missing += fresh;
                let n = self.do_add(a, t, &cmds, &format!("sync s{s} a{a}<-b{}", self.sess[s].b), clean);
                self.sess[s].delivered_new += n;
                if self.trx_ok(a, t) {
                    with_rep!(&mut self.reps[a], rep => {
                        if let Some(Some(trx)) = rep.trxs.get_mut(t) {
                            trx.received.extend(addrs);
                        }
                    });
                }
            }
        }
    }

    fn session_complete(&mut self, s: usize) {
        self.stats.bump("sync_sessions_completed");
        let ss = &self.sess[s];
        if ss.clean && ss.missing_at_open > 0 && !self.pf_seen {
            self.stats.bump("sync_sessions_clean_with_missing");
            if ss.delivered_missing == 0 {
                let (a, b, m) = (ss.a, ss.b, ss.missing_at_open);
                let shared = self.sess[s].sample_shared;
                let sig = if shared { "session-without-progress" } else { "session-without-progress:requester-ahead-of-sample-window" };
                self.violation("C16", "C16.no-progress", sig, format!("session {s}: a{a} lacked {m} commands of b{b} but a complete undisturbed session delivered none{}", if shared { "" } else { " (the responder knew no command of the request's sample)" }));
            }
        }
        let mid = self.sess[s].sent.iter().any(|v| v.len() == response_max());
        if mid {
            self.stats.bump("sync_full_responses");
        }
    }

    // ------------------------------------------------------------------ peer caches (C20)

    pub fn check_cache(&mut self, r: usize, peer: usize, ctx: &str) {
        let Some(gid) = self.gid else { return };
        if !self.has_graph(r) {
            return;
        }
        let heads: Vec<aranya_runtime::LocatedAddress> = with_rep!(&self.reps[r], rep => rep.caches.get(&peer).map(|c| c.heads().to_vec()).unwrap_or_default());
        if heads.len() > aranya_runtime::PEER_HEAD_MAX {
            self.violation("C20", "C20.too-many", "cache-too-large", format!("{ctx}: cache of r{r} for peer {peer} holds {} entries", heads.len()));
        }
        for h in &heads {
            if !self.committed(r).contains(&h.id) {
                self.violation("C20", "C20.uncommitted-entry", "cache-uncommitted-entry", format!("{ctx}: cache of r{r} for peer {peer} holds {} which is not committed locally", short(&h.id)));
                continue;
            }
            let found = with_rep!(&mut self.reps[r], rep => rep.locate(gid, h.address()));
            match found {
                Ok(Some(loc)) if loc == h.location() => {}
                other => self.violation("C20", "C20.stale-location", "cache-location", format!("{ctx}: cache entry {} has location {} but storage says {other:?}", short(&h.id), h.location())),
            }
        }
        for i in 0..heads.len() {
            for j in 0..heads.len() {
                if i != j && self.committed(r).contains(&heads[i].id) && self.committed(r).contains(&heads[j].id) && self.g.is_ancestor(&heads[i].id, &heads[j].id) {
                    self.violation("C20", "C20.ancestor-entries", "cache-ancestor-pair", format!("{ctx}: cache of r{r} for peer {peer} holds {} and its descendant {}", short(&heads[i].id), short(&heads[j].id)));
                }
            }
        }
        self.stats.bump("c20.cache_checks");
    }

    /// One `PeerCache::add_command` with the exact delta rule.
    pub fn cache_add_one(&mut self, r: usize, peer: usize, addr: Address, ctx: &str) {
        let Some(gid) = self.gid else { return };
        let before: Vec<CmdId> = with_rep!(&self.reps[r], rep => rep.caches.get(&peer).map(|c| c.heads().iter().map(|h| h.id).collect()).unwrap_or_default());
        let known = self.committed(r).contains(&addr.id) && self.g.node(&addr.id).max_cut == addr.max_cut.get();
        let mut want: Vec<CmdId> = before.clone();
        if known {
            let dup_or_anc = before.iter().any(|o| *o == addr.id || self.g.is_ancestor(&addr.id, o));
            want.retain(|o| !self.g.is_ancestor(o, &addr.id));
            if !dup_or_anc && want.len() < aranya_runtime::PEER_HEAD_MAX {
                want.push(addr.id);
            }
        }
        let armed = self.pending_read_fault.take();
        if let (Some(n), Some(fs)) = (armed, &self.fs) {
            fs.arm_read_fault(n);
        }
        let res = with_rep!(&mut self.reps[r], rep => {
            let mut cache = take_cache(&mut rep.caches, peer);
            let out = guarded(|| {
                let st = rep.client.provider().get_storage(gid)?;
                cache.add_command(st, addr, &mut rep.buffers.traversal.primary)
            });
            rep.caches.insert(peer, cache);
            out
        });
        let read_fault_fired = self.fs.as_ref().is_some_and(|fs| fs.disarm_read_fault());
        match res {
            Guarded::Panicked(m) => self.on_panic(Some("C20"), "PeerCache::add_command", m),
            Guarded::Done(Err(_)) if read_fault_fired => {
                // Narrow relaxation: the injected read error may fail the update; what the cache
                // then holds must still satisfy the invariants (checked below).
                self.stats.bump("fault.read_eio_failed_cache_update");
            }
            Guarded::Done(Err(e)) => self.anomaly(format!("{ctx}: add_command error {e}")),
            Guarded::Done(Ok(())) => {
                let after: Vec<CmdId> = with_rep!(&self.reps[r], rep => rep.caches.get(&peer).map(|c| c.heads().iter().map(|h| h.id).collect()).unwrap_or_default());
                let (mut x, mut y) = (after.clone(), want.clone());
                x.sort();
                y.sort();
                if x != y {
                    self.violation("C20", "C20.update-rule", "cache-update-rule", format!("{ctx}: recording {} (committed locally: {known}) turned cache {:?} into {:?}, expected {:?}", short(&addr.id), before.iter().map(short).collect::<Vec<_>>(), after.iter().map(short).collect::<Vec<_>>(), want.iter().map(short).collect::<Vec<_>>()));
                }
                self.stats.bump("c20.add_command");
                if !known {
                    self.stats.bump("c20.add_unknown");
                }
            }
        }
        self.check_cache(r, peer, ctx);
    }

    pub fn after_commit_cache(&mut self, r: usize, peer: usize, received: &[Address], per_addr: bool) {
        let Some(gid) = self.gid else { return };
        if peer == usize::MAX || received.is_empty() {
            return;
        }
        if per_addr {
            for a in received.iter().rev() {
                self.cache_add_one(r, peer, *a, "after-commit");
                if self.dead {
                    return;
                }
            }
        } else {
            let res = with_rep!(&mut self.reps[r], rep => {
                let mut cache = take_cache(&mut rep.caches, peer);
                let out = guarded(|| rep.client.update_heads(gid, received.iter().copied(), &mut cache, &mut rep.buffers.traversal.primary));
                rep.caches.insert(peer, cache);
                out
            });
            match res {
                Guarded::Panicked(m) => self.on_panic(Some("C20"), "update_heads", m),
                Guarded::Done(Err(e)) => self.anomaly(format!("update_heads: {}", classify(&e))),
                Guarded::Done(Ok(())) => self.check_cache(r, peer, "update_heads"),
            }
        }
    }

    pub fn step_cache_add(&mut self, r: usize, peer: usize, sel: &Sel, bogus: u8) {
        if r >= self.reps.len() || self.crashed[r] || !self.has_graph(r) || self.dead {
            return;
        }
        let peer = peer % self.reps.len();
        // Address stream: committed, known-but-uncommitted (other replicas / open transactions),
        // wrong max_cut, never-existing.
        let all: BTreeSet<CmdId> = self.g.nodes.keys().copied().collect();
        let Some(id) = self.resolve(sel, r, &all, None) else { return };
        // The API contract of the cache is that the caller records only what the peer really
        // holds (addresses it sent). An address the peer does not hold is still a legitimate
        // *test input* for the update rule (C20), but it must not stay in the cache the sync
        // sessions use, or the requester would stop sampling at a command the peer lacks (C16's
        // precondition). Such inputs are applied to a copy of the cache that is then discarded.
        let truthful = !self.crashed[peer] && peer != r && bogus == 0 && self.committed(peer).contains(&id);
        if !truthful {
            let gid = self.gid.expect("gid");
            let stash = with_rep!(&mut self.reps[r], rep => {
                let old = take_cache(&mut rep.caches, peer);
                let mut copy = PeerCache::new();
                if let Ok(st) = rep.client.provider().get_storage(gid) {
                    for h in old.heads() {
                        let _ = copy.add_command(st, h.address(), &mut rep.buffers.traversal.primary);
                    }
                }
                rep.caches.insert(peer, copy);
                old
            });
            self.step_cache_add_inner(r, peer, id, bogus);
            with_rep!(&mut self.reps[r], rep => { rep.caches.insert(peer, stash); });
            return;
        }
        self.step_cache_add_inner(r, peer, id, bogus);
    }

    fn step_cache_add_inner(&mut self, r: usize, peer: usize, id: CmdId, bogus: u8) {
        let mut addr = self.addr(&id);
        match bogus {
            1 => addr.max_cut = aranya_runtime::MaxCut::new(addr.max_cut.get() + 1),
            2 => {
                let mut b = *id.as_array();
                b[0] ^= 0x55;
                addr.id = CmdId::from_bytes(b);
            }
            _ => {}
        }
        if !self.g.nodes.contains_key(&addr.id) || self.g.node(&addr.id).max_cut != addr.max_cut.get() {
            // Unknown to the model: must simply be ignored.
            let before: Vec<CmdId> = with_rep!(&self.reps[r], rep => rep.caches.get(&peer).map(|c| c.heads().iter().map(|h| h.id).collect()).unwrap_or_default());
            let gid = self.gid.expect("gid");
            let res = with_rep!(&mut self.reps[r], rep => {
                let mut cache = take_cache(&mut rep.caches, peer);
                let out = guarded(|| {
                    let st = rep.client.provider().get_storage(gid)?;
                    cache.add_command(st, addr, &mut rep.buffers.traversal.primary)
                });
                rep.caches.insert(peer, cache);
                out
            });
            if let Guarded::Panicked(m) = res {
                self.on_panic(Some("C20"), "PeerCache::add_command", m);
                return;
            }
            let after: Vec<CmdId> = with_rep!(&self.reps[r], rep => rep.caches.get(&peer).map(|c| c.heads().iter().map(|h| h.id).collect()).unwrap_or_default());
            if before != after {
                self.violation("C20", "C20.bogus-recorded", "cache-bogus-address", format!("recording a non-existent address changed the cache of r{r}"));
            }
            self.stats.bump("c20.add_bogus");
            return;
        }
        self.cache_add_one(r, peer, addr, "cache_add");
    }

    // ------------------------------------------------------------------ hello (C19)

    pub fn step_hello(&mut self, a: usize, b: usize, fault: Option<&NetFault>) {
        let Some(gid) = self.gid else { return };
        let n = self.reps.len();
        if a >= n || b >= n || a == b || self.crashed[a] || self.crashed[b] || !self.has_graph(b) || self.dead {
            return;
        }
        let h = match with_rep!(&mut self.reps[b], rep => rep.hello_head(gid)) {
            Guarded::Done(Ok(h)) => h,
            Guarded::Done(Err(e)) => {
                self.violation("C19", "C19.hello-error", "hello-error", format!("hello_head failed on r{b}: {}", classify(&e)));
                return;
            }
            Guarded::Panicked(m) => {
                self.on_panic(Some("C19"), "hello_head", m);
                return;
            }
        };
        // The notification as a message: encoded in the wire format, through the network, decoded by
        // the library. An untouched message must announce exactly the head that was computed; a
        // damaged one is only required not to panic any decoder or the decision (C18) - what it
        // claims about the peer is then the transport's lie, not the library's.
        let mut h = h;
        if let Some(fault) = fault {
            let mut bytes = wire_mirror::encode_sync_type(&wire_mirror::SyncType::Hello(wire_mirror::HelloType::Hello { graph_id: gid, head: h }), &[]);
            let mut pristine = true;
            match fault {
                NetFault::None | NetFault::Dup | NetFault::Misdeliver { .. } => {}
                NetFault::Drop => {
                    self.stats.bump("fault.drop");
                    return;
                }
                NetFault::Corrupt { kind, a: x, b: y } => {
                    self.stats.bump(&format!("fault.corrupt.{kind}"));
                    crate::netfault::corrupt(&mut bytes, *kind, *x, *y, &self.g);
                    pristine = false;
                }
            }
            let dec = guarded(|| match SyncIncoming::decode(&bytes) {
                Ok(SyncIncoming::Hello(aranya_runtime::SyncHello::Hello(nf))) => Ok((nf.graph_id(), nf.head())),
                Ok(SyncIncoming::Hello(aranya_runtime::SyncHello::Subscribe(x))) => {
                    let _ = (x.graph_id(), x.graph_change_delay(), x.duration(), x.schedule_delay());
                    Err("hello-subscribe".to_string())
                }
                Ok(SyncIncoming::Hello(aranya_runtime::SyncHello::Unsubscribe(x))) => {
                    let _ = x.graph_id();
                    Err("hello-unsubscribe".to_string())
                }
                Ok(_) => Err("other".to_string()),
                Err(e) => Err(format!("decode-err:{e}").chars().take(24).collect()),
            });
            match dec {
                Guarded::Panicked(m) => {
                    self.on_panic(Some("C18"), "SyncIncoming::decode (hello)", format!("{m}; bytes={}", vcommon::hex(&bytes)));
                    return;
                }
                Guarded::Done(Err(what)) => {
                    self.stats.bump(&format!("recv.hello.{}", what.split(':').next().unwrap_or("")));
                    if pristine {
                        self.anomaly(format!("an untouched hello notification was not decoded as one: {what}"));
                    }
                    return;
                }
                Guarded::Done(Ok((g2, h2))) => {
                    self.stats.bump("recv.hello.ok");
                    if pristine {
                        if g2 != gid || h2 != h {
                            self.anomaly("an untouched hello notification decoded to a different graph or head".to_string());
                            return;
                        }
                    } else {
                        // Damaged: drive the decision for panics only.
                        let r = with_rep!(&mut self.reps[a], rep => rep.should_sync(g2, h2));
                        if let Guarded::Panicked(m) = r {
                            self.on_panic(Some("C18"), "should_sync_on_hello (damaged hello)", m);
                        }
                        self.stats.bump("hello.damaged_decided");
                        return;
                    }
                    h = h2;
                }
            }
        }
        let d = match with_rep!(&mut self.reps[a], rep => rep.should_sync(gid, h)) {
            Guarded::Done(Ok(d)) => d,
            Guarded::Done(Err(e)) => {
                self.violation("C19", "C19.decision-error", "hello-decision-error", format!("should_sync_on_hello failed on r{a}: {}", classify(&e)));
                return;
            }
            Guarded::Panicked(m) => {
                self.on_panic(Some("C19"), "should_sync_on_hello", m);
                return;
            }
        };
        self.stats.bump(if d { "hello.sync" } else { "hello.no_sync" });
        self.note(&format!("hello a{a} b{b} -> {d}"));
        if !self.has_graph(a) {
            if !d {
                self.violation("C19", "C19.no-graph", "no-graph-no-sync", format!("r{a} lacks the graph but decided not to sync"));
            }
            return;
        }
        if !d {
            let missing: Vec<CmdId> = self.committed(b).difference(self.committed(a)).copied().collect();
            if !missing.is_empty() {
                // Known finding class: the only missing commands are merge commands all of whose
                // parents r{a} holds (directly or through other such merges).
                let mut have: BTreeSet<CmdId> = self.committed(a).clone();
                let mut rest: Vec<CmdId> = missing.clone();
                rest.sort_by_key(|c| self.g.node(c).max_cut);
                let mut only_derivable_merges = true;
                for c in &rest {
                    let n = self.g.node(c);
                    if n.is_merge() && n.parents().iter().all(|p| have.contains(p)) {
                        have.insert(*c);
                    } else {
                        only_derivable_merges = false;
                        break;
                    }
                }
                let sig = if only_derivable_merges { "suppressed-sync-only-derivable-merges-missing" } else { "suppressed-sync-commands-missing" };
                self.violation("C19", "C19.suppressed-needed-sync", sig, format!("r{a} decided not to sync on hello {}@{} from r{b}, yet lacks {} committed commands of r{b} (e.g. {}, merge: {})", short(&h.id), h.max_cut, missing.len(), short(&missing[0]), self.g.node(&missing[0]).is_merge()));
            } else if self.committed(a) != self.committed(b) {
                self.stats.bump("hello.no_sync_a_ahead");
            }
        }
    }

    // ------------------------------------------------------------------ quiescence

    /// One complete undisturbed session a <- b, then commit and cache update.
    pub fn full_session(&mut self, a: usize, b: usize, sid: u64) -> usize {
        let before = self.sess.len();
        self.step_sync_open(a, b, None, sid);
        if self.sess.len() == before || self.dead {
            return 0;
        }
        let s = self.sess.len() - 1;
        let t = self.sess[s].trx;
        let mut guard = 0;
        while !self.dead && !self.sess[s].closed && !self.sess[s].ended_seen_by_requester {
            guard += 1;
            if guard > 100_000 {
                self.violation("C17", "C17.no-end", "session-does-not-end", format!("quiescent session a{a}<-b{b} did not end"));
                break;
            }
            // Deliver everything pending for this session in order.
            if let Some(i) = self.net.iter().position(|m| m.sess == s) {
                self.step_deliver(i, &NetFault::None);
                continue;
            }
            let ready = self.sess[s].responder.as_ref().is_some_and(SyncResponder::ready);
            if ready {
                self.step_resp_poll(s, None);
            } else {
                break;
            }
        }
        let n = self.sess[s].delivered_new;
        if self.trx_exists(a, t) {
            self.step_commit(a, t, None, false);
        }
        n
    }

    pub fn step_quiesce(&mut self) {
        if self.gid.is_none() || self.dead {
            return;
        }
        self.net.clear();
        for s in &mut self.sess {
            s.closed = true;
        }
        // Quiescence re-ingests everything everywhere; sample the in-policy dumps.
        {
            let mut l = self.log.borrow_mut();
            l.dump_every = l.dump_every.max(1) * 4;
        }
        let n = self.reps.len();
        if let Some(fs) = &self.fs {
            for r in 0..n {
                fs.disarm(r);
            }
        }
        for r in 0..n {
            if self.crashed[r] {
                self.step_restart(r);
            }
            let slots: Vec<usize> = with_rep!(&self.reps[r], rep => rep.open_slots());
            for t in slots {
                self.step_abandon(r, t);
            }
        }
        let total: usize = self.g.nodes.len();
        let bound = total / 1 + 8;
        let mut rounds = 0;
        let mut sid = 0x5151_0000u64;
        loop {
            rounds += 1;
            let mut moved = 0;
            for a in 0..n {
                for b in 0..n {
                    if a != b && self.has_graph(b) && !self.dead {
                        sid += 1;
                        moved += self.full_session(a, b, sid);
                    }
                }
            }
            if moved == 0 || self.dead {
                break;
            }
            if rounds > bound && self.pf_seen {
                return;
            }
            if rounds > bound {
                self.violation("C16", "C16.no-convergence", "no-convergence", format!("replicas still exchange commands after {rounds} quiescent rounds ({total} commands exist)"));
                return;
            }
        }
        if self.dead {
            return;
        }
        self.stats.add("quiesce_rounds", rounds as u64);
        if self.pf_seen {
            return;
        }
        // Everybody who has the graph must now hold the same committed set.
        let with_graph: Vec<usize> = (0..n).filter(|r| self.has_graph(*r)).collect();
        if let Some(first) = with_graph.first() {
            for r in &with_graph[1..] {
                if self.committed(*r) != self.committed(*first) {
                    self.violation("C16", "C16.not-converged", "not-converged", format!("after bidirectional sync until silence r{first} holds {} commands and r{r} holds {}", self.committed(*first).len(), self.committed(*r).len()));
                }
            }
            for r in &with_graph {
                self.check_committed(*r, "quiescence");
            }
        }
        for r in 0..n {
            if !self.has_graph(r) && !with_graph.is_empty() {
                self.violation("C16", "C16.graph-not-created", "graph-not-synced", format!("r{r} still lacks the graph after quiescent sync"));
            }
        }
    }

    pub fn peer_cache_mut<R>(&mut self, r: usize, peer: usize, f: impl FnOnce(&mut PeerCache) -> R) -> R {
        with_rep!(&mut self.reps[r], rep => f(rep.caches.entry(peer).or_default()))
    }
}
