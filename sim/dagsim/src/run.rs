//! Executing explicit step lists; the outcome of one run.

use std::collections::BTreeMap;

use crate::sim::{Cfg, Found, Sim, Stats, Step};

pub struct Outcome {
    pub steps: Vec<Step>,
    pub found: Vec<Found>,
    pub stats: Stats,
    pub event_hash: u64,
    pub shape_hash: u64,
    pub nontrivial: std::collections::BTreeSet<u64>,
    pub c01_pairs: u64,
    pub c01_nontrivial: usize,
    pub commands: usize,
    pub merges: usize,
}

impl Sim {
    pub fn exec(&mut self, step: &Step) {
        if self.dead {
            return;
        }
        self.step_no += 1;
        self.stats.steps += 1;
        match step {
            Step::Act { r, cmds, fail_at, spill_fault } => self.step_act(*r, cmds, *fail_at, *spill_fault),
            Step::SyncOpen { a, b, reuse, sid } => self.step_sync_open(*a, *b, *reuse, *sid),
            Step::RespPoll { s, buf } => self.step_resp_poll(*s, *buf),
            Step::Deliver { m, fault } => self.step_deliver(*m, fault),
            Step::Flush { r, t } => self.step_flush(*r, *t),
            Step::Commit { r, t, spill_fault, per_addr } => self.step_commit(*r, *t, *spill_fault, *per_addr),
            Step::Abandon { r, t } => self.step_abandon(*r, *t),
            Step::Craft { r, t, items } => self.step_craft(*r, *t, items),
            Step::Hello { a, b, fault } => self.step_hello(*a, *b, fault.as_ref()),
            Step::Subscribe { a, b, sid, fault } => self.step_subscribe(*a, *b, *sid, fault),
            Step::Unsubscribe { a, b, fault } => self.step_unsubscribe(*a, *b, fault),
            Step::Push { b, a, sid, buf, fault, mode } => self.step_push(*b, *a, *sid, *buf, fault, *mode),
            Step::SessOpen { r } => self.step_sess_open(*r),
            Step::SessAct { r, s, cmds, fail_at } => self.step_sess_act(*r, *s, cmds, *fail_at),
            Step::SessRecv { r, s, from_r, from_s, m, garble } => self.step_sess_recv(*r, *s, *from_r, *from_s, *m, *garble),
            Step::SessClose { r, s } => self.step_sess_close(*r, *s),
            Step::CacheAdd { r, peer, sel, bogus, read_fault } => {
                self.pending_read_fault = if self.is_file(*r) { *read_fault } else { None };
                self.step_cache_add(*r, *peer, sel, *bogus);
                self.pending_read_fault = None;
            }
            Step::Crash { r, at, choices, after_falloc } => self.step_crash(*r, *at, *choices, *after_falloc),
            Step::QueueDrive { ops } => self.step_queue_drive(ops),
            Step::Restart { r } => self.step_restart(*r),
            Step::Quiesce => self.step_quiesce(),
        }
        for r in 0..self.reps.len() {
            if self.is_file(r) {
                self.fs_after_call(r);
            }
        }
        let q: Vec<(String, String)> = std::mem::take(&mut self.qmon.borrow_mut().found);
        for (sig, detail) in q {
            self.violation("C21", &format!("C21.{sig}"), &sig, detail);
        }
    }

    pub fn finish(mut self, steps: Vec<Step>) -> Outcome {
        for (k, v) in aranya_runtime::verif::take_probes() {
            *self.stats.probes.entry(k.to_string()).or_insert(0) += v;
        }
        if let Some(fs) = &self.fs {
            for (k, v) in fs.counters() {
                *self.stats.counters.entry(k.to_string()).or_insert(0) += v;
            }
        }
        crate::qmon::QMon::uninstall();
        {
            let q = self.qmon.borrow();
            for (k, v) in &q.ops {
                *self.stats.counters.entry(format!("c21.op.{k}")).or_insert(0) += v;
                *self.stats.counters.entry("c21.ops".into()).or_insert(0) += v;
            }
            *self.stats.counters.entry("c21.transitions_checked".into()).or_insert(0) += q.checked;
        }
        // Drop replicas (closing simulated descriptors) before the simulated disk goes away.
        self.reps.clear();
        aranya_libc::verif::install(None);
        // Canonical shape of the DAG: parent structure + priorities, ids abstracted by order.
        let mut index: BTreeMap<aranya_runtime::CmdId, usize> = BTreeMap::new();
        let mut order: Vec<_> = self.g.nodes.values().collect();
        order.sort_by_key(|n| (n.max_cut, n.cmd.id));
        let mut shape = Vec::new();
        for (i, n) in order.iter().enumerate() {
            index.insert(n.cmd.id, i);
            for p in n.parents() {
                shape.extend_from_slice(&(index.get(&p).copied().unwrap_or(usize::MAX) as u32).to_le_bytes());
            }
            shape.push(match n.prio() {
                aranya_runtime::Priority::Merge => 0,
                aranya_runtime::Priority::Basic(x) => 1 + (x as u8 & 3),
                aranya_runtime::Priority::Finalize => 6,
                aranya_runtime::Priority::Init => 7,
            });
        }
        let merges = self.g.nodes.values().filter(|n| n.is_merge()).count();
        Outcome {
            steps,
            found: self.found,
            event_hash: self.event_hash,
            shape_hash: vcommon::fnv(&shape),
            nontrivial: self.nontrivial,
            c01_pairs: self.c01_pairs,
            c01_nontrivial: self.c01_nontrivial.len(),
            commands: self.g.nodes.len(),
            merges,
            stats: self.stats,
        }
    }
}

/// Execute an explicit step list in a fresh simulator.
pub fn replay(cfg: &Cfg, steps: &[Step]) -> Outcome {
    let _ = aranya_runtime::verif::take_probes();
    let mut sim = Sim::new(cfg.clone());
    for s in steps {
        sim.exec(s);
        if sim.dead {
            break;
        }
    }
    sim.finish(steps.to_vec())
}
