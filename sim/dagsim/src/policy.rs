//! `DagPolicy`: a Rust `Policy` with read-dependent command semantics (DESIGN 3.5).
//!
//! The semantic function `eval_op` is written once, generic over `Facts`, and is
//! used both by the policy (against the runtime's perspectives) and by the model
//! (against a plain map), so the two can only disagree if storage disagrees.

use std::{cell::RefCell, rc::Rc};

use aranya_runtime::{
    ActionPlacement, Address, CmdId, Command, CommandPlacement, FactPerspective, Keys, MergeIds,
    Perspective, Policy, PolicyError, PolicyId, PolicyStore, Prior, Priority, Sink,
    testing::hash_for_testing_only,
};
use serde::{Deserialize, Serialize};

pub const NAMES: [&str; 3] = ["kv", "kw", "seq"];
pub const N_SEQ: u8 = 2;

pub type Key = Vec<Vec<u8>>;

#[derive(Serialize, Deserialize, Clone, Debug, PartialEq, Eq, PartialOrd, Ord)]
pub enum Op {
    Init,
    Merge,
    Put { name: u8, key: Key, val: Vec<u8> },
    Del { name: u8, key: Key },
    /// Prefix query; writes count+hash of the results under `kv/out`.
    Digest { name: u8, prefix: Key, out: Key },
    /// Exact query; copies to `kv/to` when present, deletes `kv/to` otherwise.
    CopyIf { name: u8, from: Key, to: Key },
    /// Rejects, before writing, when `need` is absent; else behaves as Put.
    Guard { name: u8, need: Key, key: Key, val: Vec<u8> },
    /// Writes (and optionally deletes) and then always fails.
    Poison { name: u8, key: Key, val: Vec<u8>, del: Option<Key> },
    NoOp,
}

#[derive(Serialize, Deserialize, Clone, Copy, Debug, PartialEq, Eq, PartialOrd, Ord)]
pub enum WPrio {
    Merge,
    Basic(u32),
    Finalize,
    Init,
}

impl WPrio {
    pub fn to_priority(self) -> Priority {
        match self {
            WPrio::Merge => Priority::Merge,
            WPrio::Basic(n) => Priority::Basic(n),
            WPrio::Finalize => Priority::Finalize,
            WPrio::Init => Priority::Init,
        }
    }
}

/// Serialized command body.
#[derive(Serialize, Deserialize, Clone, Debug, PartialEq, Eq)]
pub struct Wire {
    pub parent: Prior<Address>,
    pub prio: WPrio,
    pub op: Op,
    pub nonce: u64,
}

impl Op {
    /// Fact-name indexes must name one of `NAMES` (a garbled body can decode to anything).
    fn well_formed(&self) -> bool {
        let ok = |n: &u8| usize::from(*n) < NAMES.len();
        match self {
            Op::Init | Op::Merge | Op::NoOp => true,
            Op::Put { name, .. } | Op::Del { name, .. } | Op::Digest { name, .. } | Op::CopyIf { name, .. } | Op::Guard { name, .. } | Op::Poison { name, .. } => ok(name),
        }
    }
}

/// The one place command bodies are decoded: policy and model agree on what is unparsable.
pub fn parse_wire(bytes: &[u8]) -> Option<Wire> {
    let w: Wire = postcard::from_bytes(bytes).ok()?;
    w.op.well_formed().then_some(w)
}

/// An owned command. Fields are explicit so the harness can craft inconsistent shapes.
#[derive(Clone, Debug, PartialEq, Eq)]
pub struct DagCmd {
    pub id: CmdId,
    pub parent: Prior<Address>,
    pub priority: Priority,
    pub policy: Option<Vec<u8>>,
    pub bytes: Vec<u8>,
}

impl DagCmd {
    pub fn from_wire(w: &Wire) -> Self {
        let bytes = postcard::to_allocvec(w).expect("wire serialises");
        let id = hash_for_testing_only(&bytes);
        Self {
            id,
            parent: w.parent,
            priority: w.prio.to_priority(),
            policy: matches!(w.op, Op::Init).then(|| vec![0u8; 8]),
            bytes,
        }
    }

    pub fn wire(&self) -> Option<Wire> {
        parse_wire(&self.bytes)
    }

    pub fn address(&self) -> Address {
        use aranya_runtime::CommandExt as _;
        CommandExt::address(self).expect("max cut fits")
    }
}
use aranya_runtime::CommandExt;

impl Command for DagCmd {
    fn priority(&self) -> Priority {
        self.priority.clone()
    }
    fn id(&self) -> CmdId {
        self.id
    }
    fn parent(&self) -> Prior<Address> {
        self.parent
    }
    fn policy(&self) -> Option<&[u8]> {
        self.policy.as_deref()
    }
    fn bytes(&self) -> &[u8] {
        &self.bytes
    }
}

// ------------------------------------------------------------ semantics

pub trait Facts {
    fn get(&mut self, name: u8, key: &Key) -> Option<Vec<u8>>;
    fn scan(&mut self, name: u8, prefix: &Key) -> Vec<(Key, Vec<u8>)>;
    fn put(&mut self, name: u8, key: Key, val: Vec<u8>);
    fn del(&mut self, name: u8, key: Key);
}

#[derive(Clone, Debug, PartialEq, Eq, PartialOrd, Ord, Serialize, Deserialize)]
pub struct Eff {
    pub id: [u8; 32],
    pub tag: u8,
    pub data: Vec<u8>,
}

fn mix16(old: &[u8], id: &[u8]) -> Vec<u8> {
    let mut a: u64 = 0xcbf2_9ce4_8422_2325;
    let mut b: u64 = 0x9E37_79B9_7F4A_7C15;
    for x in old.iter().chain(id.iter()) {
        a = (a ^ u64::from(*x)).wrapping_mul(0x0000_0100_0000_01B3);
        b = (b.rotate_left(5) ^ u64::from(*x)).wrapping_mul(0xD6E8_FEB8_6659_FD93);
    }
    let mut out = a.to_le_bytes().to_vec();
    out.extend_from_slice(&b.to_le_bytes());
    out
}

fn bump_seq(id: &[u8; 32], f: &mut impl Facts) {
    let old = f.get(N_SEQ, &Vec::new()).unwrap_or_default();
    f.put(N_SEQ, Vec::new(), mix16(&old, id));
}

/// Returns `true` when accepted. Effects go to `emit`.
pub fn eval_op(id: &[u8; 32], op: &Op, f: &mut impl Facts, emit: &mut dyn FnMut(Eff)) -> bool {
    match op {
        // Writes nothing at all (not even the order-tracking fact): segments must be able to
        // contain commands without fact updates, before and between writers.
        Op::NoOp => {
            emit(Eff { id: *id, tag: 1, data: Vec::new() });
            return true;
        }
        Op::Init => {}
        Op::Merge => {}
        Op::Put { name, key, val } => {
            f.put(*name, key.clone(), val.clone());
        }
        Op::Del { name, key } => {
            f.del(*name, key.clone());
        }
        Op::Digest { name, prefix, out } => {
            let rows = f.scan(*name, prefix);
            let mut h = Vec::new();
            for (k, v) in &rows {
                for c in k {
                    h.push(c.len() as u8);
                    h.extend_from_slice(c);
                }
                h.push(0xff);
                h.extend_from_slice(v);
                h.push(0xfe);
            }
            let mut val = vec![rows.len() as u8];
            val.extend_from_slice(&mix16(&h, &[])[..8]);
            f.put(0, out.clone(), val);
        }
        Op::CopyIf { name, from, to } => match f.get(*name, from) {
            Some(v) => f.put(0, to.clone(), v),
            None => f.del(0, to.clone()),
        },
        Op::Guard { name, need, key, val } => {
            if f.get(*name, need).is_none() {
                return false;
            }
            f.put(*name, key.clone(), val.clone());
        }
        Op::Poison { name, key, val, del } => {
            f.put(*name, key.clone(), val.clone());
            if let Some(d) = del {
                f.del(*name, d.clone());
            }
            bump_seq(id, f);
            emit(Eff { id: *id, tag: 9, data: val.clone() });
            return false;
        }
    }
    bump_seq(id, f);
    let seq = f.get(N_SEQ, &Vec::new()).unwrap_or_default();
    emit(Eff { id: *id, tag: 1, data: seq });
    true
}

// ------------------------------------------------------------ perspective adapter

pub fn to_keys(k: &Key) -> Keys {
    k.iter().map(|c| c.clone().into_boxed_slice()).collect()
}

pub fn from_keys(k: &[Box<[u8]>]) -> Key {
    k.iter().map(|c| c.to_vec()).collect()
}

struct RealFacts<'a, P: FactPerspective> {
    p: &'a mut P,
    err: bool,
}

impl<P: FactPerspective> Facts for RealFacts<'_, P> {
    fn get(&mut self, name: u8, key: &Key) -> Option<Vec<u8>> {
        match self.p.query(NAMES[name as usize], &to_keys(key)) {
            Ok(v) => v.map(|b| b.to_vec()),
            Err(_) => {
                self.err = true;
                None
            }
        }
    }
    fn scan(&mut self, name: u8, prefix: &Key) -> Vec<(Key, Vec<u8>)> {
        match self.p.query_prefix(NAMES[name as usize], &to_keys(prefix)) {
            Ok(it) => {
                let mut out = Vec::new();
                for f in it {
                    match f {
                        Ok(f) => out.push((from_keys(&f.key), f.value.to_vec())),
                        Err(_) => self.err = true,
                    }
                }
                out
            }
            Err(_) => {
                self.err = true;
                Vec::new()
            }
        }
    }
    fn put(&mut self, name: u8, key: Key, val: Vec<u8>) {
        if self
            .p
            .insert(NAMES[name as usize].into(), to_keys(&key), val.into_boxed_slice())
            .is_err()
        {
            self.err = true;
        }
    }
    fn del(&mut self, name: u8, key: Key) {
        if self.p.delete(NAMES[name as usize].into(), to_keys(&key)).is_err() {
            self.err = true;
        }
    }
}

/// Everything visible through a query interface, in the order returned.
pub type Dump = Vec<(u8, Key, Vec<u8>)>;

/// Dump all names by whole-name prefix query; also report whether results were strictly
/// ascending and whether exact queries agree with the prefix results.
pub fn dump_query<Q: aranya_runtime::Query>(q: &Q, probe_keys: &[Key]) -> Result<(Dump, bool), ()> {
    dump_query_opt(q, probe_keys, true)
}

/// `deep` also cross-checks every row with an exact query and probes absent keys.
pub fn dump_query_opt<Q: aranya_runtime::Query>(q: &Q, probe_keys: &[Key], deep: bool) -> Result<(Dump, bool), ()> {
    let mut out = Dump::new();
    let mut consistent = true;
    for (ni, name) in NAMES.iter().enumerate() {
        let it = q.query_prefix(name, &[]).map_err(|_| ())?;
        let mut last: Option<Key> = None;
        let mut seen: Vec<Key> = Vec::new();
        for f in it {
            let f = f.map_err(|_| ())?;
            let k = from_keys(&f.key);
            if let Some(l) = &last {
                if *l >= k {
                    consistent = false;
                }
            }
            last = Some(k.clone());
            if deep {
                let exact = q.query(name, &f.key).map_err(|_| ())?;
                if exact.as_deref() != Some(&*f.value) {
                    consistent = false;
                }
                seen.push(k.clone());
            }
            out.push((ni as u8, k, f.value.to_vec()));
        }
        for k in probe_keys.iter().filter(|_| deep) {
            if !seen.contains(k) && q.query(name, &to_keys(k)).map_err(|_| ())?.is_some() {
                consistent = false;
            }
        }
    }
    Ok((out, consistent))
}

// ------------------------------------------------------------ evaluation log

#[derive(Clone, Copy, Debug, PartialEq, Eq)]
pub enum Place {
    Origin,
    Braid,
    OffGraph,
    ActionOnGraph,
    ActionOffGraph,
}

#[derive(Clone, Debug)]
pub struct EvalRec {
    pub id: CmdId,
    pub place: Place,
    /// Perspective contents just before evaluation (`None` when not sampled or unreadable).
    pub dump: Option<Dump>,
    pub dump_consistent: bool,
    pub accepted: bool,
    pub storage_err: bool,
    pub is_merge: bool,
    pub unparsable: bool,
}

#[derive(Clone, Debug)]
pub struct ActionRec {
    /// `head_address()` of the perspective the action was handed.
    pub seen_head: Prior<Address>,
    pub seen_dump: Option<Dump>,
    pub published: Vec<DagCmd>,
}

#[derive(Default)]
pub struct EvalLog {
    pub evals: Vec<EvalRec>,
    pub actions: Vec<ActionRec>,
    /// Dump every n-th evaluation (1 = all, 0 = none).
    pub dump_every: u32,
    pub counter: u32,
    pub probe_keys: Vec<Key>,
}

pub type SharedLog = Rc<RefCell<EvalLog>>;

impl EvalLog {
    fn want_dump(&mut self) -> bool {
        if self.dump_every == 0 {
            return false;
        }
        self.counter = self.counter.wrapping_add(1);
        self.counter % self.dump_every == 0
    }
}

// ------------------------------------------------------------ sink

#[derive(Clone, Debug, PartialEq, Eq)]
pub enum SinkEv {
    Begin,
    Consume(Eff),
    Rollback,
    Commit,
}

#[derive(Default)]
pub struct RecSink {
    pub events: Vec<SinkEv>,
}

impl Sink<Eff> for RecSink {
    fn begin(&mut self) {
        self.events.push(SinkEv::Begin);
    }
    fn consume(&mut self, effect: Eff) {
        self.events.push(SinkEv::Consume(effect));
    }
    fn rollback(&mut self) {
        self.events.push(SinkEv::Rollback);
    }
    fn commit(&mut self) {
        self.events.push(SinkEv::Commit);
    }
}

impl RecSink {
    /// Splits the transcript into (committed, rolled-back, dangling) effect lists.
    pub fn settle(&self) -> (Vec<Eff>, Vec<Eff>, Vec<Eff>) {
        let mut committed = Vec::new();
        let mut rolled = Vec::new();
        let mut cur: Vec<Eff> = Vec::new();
        for ev in &self.events {
            match ev {
                SinkEv::Begin => {}
                SinkEv::Consume(e) => cur.push(e.clone()),
                SinkEv::Commit => committed.append(&mut cur),
                SinkEv::Rollback => rolled.append(&mut cur),
            }
        }
        (committed, rolled, cur)
    }
}

/// Message sink for session actions.
#[derive(Default)]
pub struct MsgSink {
    pub cur: Vec<Vec<u8>>,
    pub committed: Vec<Vec<u8>>,
    pub rollbacks: u32,
}

impl<'b> Sink<&'b [u8]> for MsgSink {
    fn begin(&mut self) {}
    fn consume(&mut self, effect: &'b [u8]) {
        self.cur.push(effect.to_vec());
    }
    fn rollback(&mut self) {
        self.cur.clear();
        self.rollbacks += 1;
    }
    fn commit(&mut self) {
        self.committed.append(&mut self.cur);
    }
}

// ------------------------------------------------------------ policy

#[derive(Clone, Debug, Serialize, Deserialize, PartialEq, Eq)]
pub struct ActCmd {
    pub op: Op,
    pub prio: WPrio,
    pub nonce: u64,
}

#[derive(Clone, Debug)]
pub struct DagAction {
    pub cmds: Vec<ActCmd>,
    /// Fail (after publishing that many commands) with this error.
    pub fail_at: Option<usize>,
}

pub struct DagPolicy {
    pub log: SharedLog,
}

pub struct DagStore {
    pub policy: DagPolicy,
}

impl DagStore {
    pub fn new(log: SharedLog) -> Self {
        Self { policy: DagPolicy { log } }
    }
}

impl PolicyStore for DagStore {
    type Policy = DagPolicy;
    type Effect = Eff;
    fn add_policy(&mut self, policy: &[u8]) -> Result<PolicyId, PolicyError> {
        Ok(PolicyId::new(policy.first().copied().unwrap_or(0).into()))
    }
    fn get_policy(&self, _id: PolicyId) -> Result<&Self::Policy, PolicyError> {
        Ok(&self.policy)
    }
}

impl DagPolicy {
    fn eval(
        &self,
        id: CmdId,
        bytes: &[u8],
        is_merge_parent: bool,
        facts: &mut impl FactPerspective,
        sink: &mut impl Sink<Eff>,
        place: Place,
    ) -> Result<(), PolicyError> {
        let wire: Option<Wire> = parse_wire(bytes);
        let (want, deep, probe_keys) = {
            let mut l = self.log.borrow_mut();
            let w = l.want_dump();
            (w, l.counter % 5 == 0, l.probe_keys.clone())
        };
        let (dump, dump_consistent) = if want {
            match dump_query_opt(&*facts, &probe_keys, deep) {
                Ok((d, c)) => (Some(d), c),
                Err(()) => (None, true),
            }
        } else {
            (None, true)
        };
        let mut rec = EvalRec {
            id,
            place,
            dump,
            dump_consistent,
            accepted: false,
            storage_err: false,
            is_merge: is_merge_parent,
            unparsable: wire.is_none(),
        };
        let Some(wire) = wire else {
            self.log.borrow_mut().evals.push(rec);
            return Err(PolicyError::Read);
        };
        let mut rf = RealFacts { p: facts, err: false };
        let idb: [u8; 32] = *id.as_array();
        let accepted = eval_op(&idb, &wire.op, &mut rf, &mut |e| sink.consume(e));
        rec.accepted = accepted && !rf.err;
        rec.storage_err = rf.err;
        let err = rf.err;
        self.log.borrow_mut().evals.push(rec);
        if err {
            return Err(PolicyError::Read);
        }
        if accepted { Ok(()) } else { Err(PolicyError::Rejected) }
    }
}

impl Policy for DagPolicy {
    type Action<'a> = DagAction;
    type Effect = Eff;
    type Command<'a> = DagCmd;

    fn serial(&self) -> u32 {
        0
    }

    fn call_rule(
        &self,
        command: &impl Command,
        facts: &mut impl FactPerspective,
        sink: &mut impl Sink<Self::Effect>,
        placement: CommandPlacement,
    ) -> Result<(), PolicyError> {
        let place = match placement {
            CommandPlacement::OnGraphAtOrigin => Place::Origin,
            CommandPlacement::OnGraphInBraid => Place::Braid,
            CommandPlacement::OffGraph => Place::OffGraph,
        };
        let is_merge = matches!(command.parent(), Prior::Merge(..));
        self.eval(command.id(), command.bytes(), is_merge, facts, sink, place)
    }

    fn call_action(
        &self,
        action: Self::Action<'_>,
        facts: &mut impl Perspective,
        sink: &mut impl Sink<Self::Effect>,
        placement: ActionPlacement,
    ) -> Result<(), PolicyError> {
        let place = match placement {
            ActionPlacement::OnGraph => Place::ActionOnGraph,
            ActionPlacement::OffGraph => Place::ActionOffGraph,
        };
        let seen_head = facts.head_address().map_err(PolicyError::Bug)?;
        let probe_keys = self.log.borrow().probe_keys.clone();
        let seen_dump = dump_query(&*facts, &probe_keys).ok().map(|(d, _)| d);
        let slot = {
            let mut l = self.log.borrow_mut();
            l.actions.push(ActionRec { seen_head, seen_dump, published: Vec::new() });
            l.actions.len() - 1
        };
        for (i, c) in action.cmds.iter().enumerate() {
            if action.fail_at == Some(i) {
                return Err(PolicyError::Panic);
            }
            let parent = facts.head_address().map_err(PolicyError::Bug)?;
            let wire = Wire { parent, prio: c.prio, op: c.op.clone(), nonce: c.nonce };
            let cmd = DagCmd::from_wire(&wire);
            self.eval(cmd.id, &cmd.bytes, false, facts, sink, place)?;
            facts.add_command(&cmd).map_err(|_| PolicyError::Write)?;
            self.log.borrow_mut().actions[slot].published.push(cmd);
        }
        if action.fail_at == Some(action.cmds.len()) {
            return Err(PolicyError::Panic);
        }
        Ok(())
    }

    fn merge<'a>(&self, _target: &'a mut [u8], ids: MergeIds) -> Result<Self::Command<'a>, PolicyError> {
        let (left, right): (Address, Address) = ids.into();
        Ok(merge_cmd(left, right))
    }
}

/// The deterministic merge command for two (id-ordered) parents.
pub fn merge_cmd(left: Address, right: Address) -> DagCmd {
    let (left, right) = if left.id <= right.id { (left, right) } else { (right, left) };
    DagCmd::from_wire(&Wire {
        parent: Prior::Merge(left, right),
        prio: WPrio::Merge,
        op: Op::Merge,
        nonce: 0,
    })
}
