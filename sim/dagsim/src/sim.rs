//! The simulator core: configuration, explicit steps, replicas, network, findings.

use std::{
    cell::RefCell,
    collections::{BTreeMap, BTreeSet},
    rc::Rc,
};

use aranya_runtime::{CmdId, GraphId, PeerCache, SyncRequester, SyncResponder};
use serde::{Deserialize, Serialize};

use crate::{
    model::Global,
    policy::{ActCmd, EvalLog, Key, SharedLog},
    replica::{AnyRep, MemSP, Rep, SpillFaults, SpillKind},
};

#[derive(Serialize, Deserialize, Clone, Debug, PartialEq)]
pub struct Cfg {
    pub seed: u64,
    pub family: String,
    pub n_reps: usize,
    /// true = file backend on SimFs for that replica.
    pub file_backed: Vec<bool>,
    pub faults: bool,
    /// Dump the perspective inside the policy every n-th evaluation (0 = never).
    pub dump_every: u32,
    /// Expensive all-pairs checks (C11) when the graph has at most this many commands.
    pub allpairs_max: usize,
    pub fuel: u64,
    pub max_steps: usize,
    /// Stop creating commands once the global DAG holds this many.
    pub max_commands: usize,
    /// Run the lookup/ancestry oracle (C11) on every n-th state check.
    pub lookup_every: u32,
    /// Transient / hard fault rates of the simulated disk.
    #[serde(default)]
    pub fs: FsCfg,
}

#[derive(Serialize, Deserialize, Clone, Debug, PartialEq, Default)]
pub struct FsCfg {
    pub eintr_pct: u64,
    pub short_pct: u64,
    pub eio_permille: u64,
    pub enospc_permille: u64,
    /// Sub-sector tearing (finer than real disks; separate family, see DESIGN 3.4).
    #[serde(default)]
    pub subsector: bool,
    /// Crash images taken and checked at every sync inside a commit (crash-state exploration).
    #[serde(default)]
    pub explore: u32,
}

#[derive(Serialize, Deserialize, Clone, Debug, PartialEq)]
pub enum Sel {
    /// k-th (mod n) command present in the replica/transaction view, sorted by id.
    Present(u32),
    /// k-th (mod n) frontier element of the view.
    Tip(u32),
    /// k-th (mod n) committed head.
    Head(u32),
    /// The previous crafted item of this batch (falls back to Tip(0)).
    Prev,
    /// The last command this replica saw rejected (falls back to Tip(0)).
    LastRejected,
}

#[derive(Serialize, Deserialize, Clone, Debug, PartialEq)]
pub enum ItemKind {
    Cmd(ActCmd),
    /// A command naming its parent by the right id and a max cut that is off by `delta`.
    CmdBadCut(ActCmd, i8),
    Merge(Sel),
    DupInit,
    ForeignInit,
    /// Parentless but without policy bytes and with its own id (only meaningful as first command).
    PolicylessInit,
    /// A command already present (duplicate delivery).
    Dup(Sel),
}

#[derive(Serialize, Deserialize, Clone, Debug, PartialEq)]
pub struct CraftItem {
    pub parent: Sel,
    pub kind: ItemKind,
}

#[derive(Serialize, Deserialize, Clone, Debug, PartialEq)]
pub enum NetFault {
    None,
    Drop,
    Dup,
    /// Byte-level or field-aware mutation, parameterised explicitly.
    Corrupt { kind: u8, a: u32, b: u32 },
    /// Deliver to the endpoint of another live session.
    Misdeliver { to: usize },
}

#[derive(Serialize, Deserialize, Clone, Debug, PartialEq)]
pub enum Step {
    Act { r: usize, cmds: Vec<ActCmd>, fail_at: Option<usize>, spill_fault: Option<u32> },
    SyncOpen { a: usize, b: usize, reuse: Option<usize>, sid: u64 },
    RespPoll { s: usize, buf: Option<usize> },
    Deliver { m: usize, fault: NetFault },
    Flush { r: usize, t: usize },
    Commit { r: usize, t: usize, spill_fault: Option<u32>, per_addr: bool },
    Abandon { r: usize, t: usize },
    Craft { r: usize, t: Option<usize>, items: Vec<CraftItem> },
    Hello {
        a: usize,
        b: usize,
        /// The notification travels as a hello message through the network (None = direct call).
        #[serde(default)]
        fault: Option<NetFault>,
    },
    /// `a` subscribes at `b` (push subscription): `b` records the advertised sample in its cache.
    Subscribe { a: usize, b: usize, sid: u64, fault: NetFault },
    /// `a` unsubscribes at `b` (decode path only).
    Unsubscribe { a: usize, b: usize, fault: NetFault },
    /// `b` pushes to `a`; see `push.rs` for `mode`.
    Push { b: usize, a: usize, sid: u64, buf: Option<usize>, fault: NetFault, mode: u8 },
    SessOpen { r: usize },
    SessAct { r: usize, s: usize, cmds: Vec<ActCmd>, fail_at: Option<usize> },
    SessRecv { r: usize, s: usize, from_r: usize, from_s: usize, m: usize, garble: Option<u32> },
    SessClose { r: usize, s: usize },
    CacheAdd {
        r: usize,
        peer: usize,
        sel: Sel,
        bogus: u8,
        /// File-backed replicas: fail the n-th read system call of the cache update with EIO.
        #[serde(default)]
        read_fault: Option<u32>,
    },
    Crash {
        r: usize,
        at: u32,
        choices: u64,
        /// Count `at` mutating calls from the replica's next `fallocate` instead of from now.
        #[serde(default)]
        after_falloc: bool,
    },
    /// Drive a fresh real `TraversalQueue` directly (C21; the monitor is the oracle). Reaches the
    /// documented rule branches no current caller in the runtime reaches.
    QueueDrive { ops: Vec<QOp> },
    Restart { r: usize },
    Quiesce,
}

#[derive(Serialize, Deserialize, Clone, Debug, PartialEq)]
pub enum QOp {
    Clear,
    Push { seg: u8, mc: u8, covered: bool },
    PushDup { seg: u8, mc: u8 },
    Pop,
    PopDups,
    DrainAbove { th: u8 },
    CoverUpTo { seg: u8, cov: u8, longest: u8 },
    DrainAll,
}

/// A violation candidate found during a run.
#[derive(Clone, Debug, Serialize, Deserialize, PartialEq)]
pub struct Found {
    pub property: String,
    pub class: String,
    pub sig: String,
    pub detail: String,
    pub step: usize,
}

#[derive(Clone, Debug, Default)]
pub struct Stats {
    pub steps: u64,
    pub counters: BTreeMap<String, u64>,
    pub probes: BTreeMap<String, u64>,
    pub anomalies: Vec<String>,
    pub sim_time_ms: u64,
}

impl Stats {
    pub fn bump(&mut self, k: &str) {
        *self.counters.entry(k.to_string()).or_insert(0) += 1;
    }
    pub fn add(&mut self, k: &str, n: u64) {
        *self.counters.entry(k.to_string()).or_insert(0) += n;
    }
}

pub struct Msg {
    pub sess: usize,
    pub to_responder: bool,
    pub bytes: Vec<u8>,
    pub pristine: bool,
}

pub struct SyncSess {
    pub a: usize,
    pub b: usize,
    pub trx: usize,
    pub sid: u128,
    pub requester: SyncRequester,
    pub responder: Option<SyncResponder>,
    /// No fault touched this session and its transaction was not disturbed.
    pub clean: bool,
    pub closed: bool,
    pub ended_seen_by_requester: bool,
    pub polls: u64,
    pub next_index_sent: u64,
    pub end_sent: bool,
    /// Command ids per response index actually sent by the responder.
    pub sent: Vec<Vec<CmdId>>,
    /// Highest response index whose commands the requester handed out.
    pub last_index_accepted: Option<u64>,
    /// Response indexes (of this session) that reached the requester, damaged or not.
    pub delivered_indexes: BTreeSet<u64>,
    pub missing_at_open: usize,
    pub delivered_new: usize,
    pub b_committed_at_open: usize,
    /// What the requester held (committed + this transaction) when the session opened.
    pub a_view_at_open: BTreeSet<CmdId>,
    /// Received commands the requester lacked at open.
    pub delivered_missing: usize,
    /// The responder holds at least one command of the request's sample.
    pub sample_shared: bool,
}

/// Observation used by C01: what a replica exposed for a given committed set.
#[derive(Clone, Debug, PartialEq, Eq)]
pub struct Exposed {
    pub heads: Vec<(CmdId, u64)>,
    pub dump_hash: u64,
    pub hello: Option<(CmdId, u64)>,
    pub rep: usize,
    pub history_hash: u64,
}

pub struct Sim {
    pub cfg: Cfg,
    pub g: Global,
    pub gid: Option<GraphId>,
    pub init_id: Option<CmdId>,
    pub reps: Vec<AnyRep>,
    pub net: Vec<Msg>,
    pub sess: Vec<SyncSess>,
    pub log: SharedLog,
    pub stats: Stats,
    pub found: Vec<Found>,
    pub step_no: usize,
    pub dead: bool,
    pub nonce: u64,
    pub event_hash: u64,
    pub exposed: BTreeMap<u64, Exposed>,
    pub spill_faults: Vec<Rc<SpillFaults>>,
    pub last_rejected: Vec<Option<CmdId>>,
    /// Per replica: hash of the ingest history (order + batching + commit points).
    pub history_hash: Vec<u64>,
    pub probe_keys: Vec<Key>,
    pub crashed: Vec<bool>,
    pub c01_pairs: u64,
    pub c01_nontrivial: BTreeSet<u64>,
    pub nontrivial: BTreeSet<u64>,
    /// Concurrent finalize commands exist somewhere: replicas legitimately cannot converge.
    pub pf_seen: bool,
    pub state_checks: u64,
    pub fs: Option<Rc<crate::simfs::SimFs>>,
    pub disk: Vec<crate::simfs::DiskShadow>,
    /// Print every event-log line (debugging only; never influences behaviour).
    pub trace: bool,
    /// Read fault to inject into the next peer-cache update (consumed by `cache_add_one`).
    pub pending_read_fault: Option<u32>,
    /// Traversal-queue refinement monitor (C21).
    pub qmon: crate::qmon::SharedQMon,
}

pub fn key_alphabet() -> Vec<Key> {
    let c = |s: &str| s.as_bytes().to_vec();
    vec![
        vec![],
        vec![c("")],
        vec![c("a")],
        vec![c("a"), c("")],
        vec![c("a"), c("b")],
        vec![c("a"), c("b"), c("a")],
        vec![c("ab")],
        vec![c("ab"), c("a")],
        vec![c("b")],
        vec![c("b"), c("a")],
        vec![c(""), c("a")],
        vec![c("a"), c("a")],
    ]
}

pub fn prefix_alphabet() -> Vec<Key> {
    let c = |s: &str| s.as_bytes().to_vec();
    vec![vec![], vec![c("a")], vec![c("a"), c("b")], vec![c("")], vec![c("ab")], vec![c("b")], vec![c("a"), c("")]]
}

impl Sim {
    pub fn new(cfg: Cfg) -> Self {
        let log: SharedLog = Rc::new(RefCell::new(EvalLog::default()));
        log.borrow_mut().dump_every = cfg.dump_every;
        let probe_keys = key_alphabet();
        log.borrow_mut().probe_keys = probe_keys.clone();
        let fs = if cfg.file_backed.iter().any(|f| *f) {
            let fs = Rc::new(crate::simfs::SimFs::new(
                cfg.seed,
                crate::simfs::FsFaults { eintr_pct: cfg.fs.eintr_pct, short_pct: cfg.fs.short_pct, eio_permille: cfg.fs.eio_permille, enospc_permille: cfg.fs.enospc_permille, subsector: cfg.fs.subsector, explore: cfg.fs.explore },
            ));
            aranya_libc::verif::install(Some(Rc::clone(&fs) as Rc<dyn aranya_libc::verif::SimSys>));
            Some(fs)
        } else {
            aranya_libc::verif::install(None);
            None
        };
        let mut reps = Vec::new();
        let mut spill_faults = Vec::new();
        for i in 0..cfg.n_reps {
            let sf = Rc::new(SpillFaults::default());
            spill_faults.push(Rc::clone(&sf));
            let file = cfg.file_backed.get(i).copied().unwrap_or(false);
            if file {
                reps.push(crate::simfs::new_file_rep(i, Rc::clone(&log), SpillKind::Faulty(sf)));
            } else {
                reps.push(AnyRep::Mem(Rep::new(i, MemSP::default(), Rc::clone(&log), SpillKind::Faulty(sf))));
            }
        }
        let n = cfg.n_reps;
        Self {
            cfg,
            g: Global::new(),
            gid: None,
            init_id: None,
            reps,
            net: Vec::new(),
            sess: Vec::new(),
            log,
            stats: Stats::default(),
            found: Vec::new(),
            step_no: 0,
            dead: false,
            nonce: 0,
            event_hash: 0xcbf2_9ce4_8422_2325,
            exposed: BTreeMap::new(),
            spill_faults,
            last_rejected: vec![None; n],
            history_hash: vec![0; n],
            probe_keys,
            crashed: vec![false; n],
            c01_pairs: 0,
            c01_nontrivial: BTreeSet::new(),
            nontrivial: BTreeSet::new(),
            pf_seen: false,
            state_checks: 0,
            fs,
            disk: vec![crate::simfs::DiskShadow::default(); n],
            trace: std::env::var_os("DAGSIM_TRACE").is_some(),
            pending_read_fault: None,
            qmon: crate::qmon::QMon::install(),
        }
    }

    pub fn note(&mut self, s: &str) {
        if self.trace {
            eprintln!("TRACE step {}: {s}", self.step_no);
        }
        self.event_hash = vcommon::fnv(&[&self.event_hash.to_le_bytes()[..], s.as_bytes()].concat());
    }

    pub fn violation(&mut self, property: &str, class: &str, sig: &str, detail: String) {
        self.note(&format!("VIOLATION {property} {class}"));
        self.found.push(Found {
            property: property.to_string(),
            class: class.to_string(),
            sig: sig.to_string(),
            detail,
            step: self.step_no,
        });
    }

    pub fn anomaly(&mut self, what: String) {
        if what.contains("panicked") {
            self.qmon.borrow_mut().forget_all();
        }
        self.note(&format!("ANOMALY {what}"));
        if self.stats.anomalies.len() < 64 {
            self.stats.anomalies.push(format!("step {}: {what}", self.step_no));
        }
        *self.stats.counters.entry("anomaly_events".into()).or_insert(0) += 1;
    }

    /// A panic inside the library: fuel exhaustion is a liveness violation of the property that
    /// owns the step; other panics are violations only where a property defines the outcome.
    pub fn on_panic(&mut self, owner: Option<&str>, what: &str, msg: String) {
        // An unwound call may have left a queue operation half done.
        self.qmon.borrow_mut().forget_all();
        if let Some(rest) = msg.strip_prefix(crate::simfs::CRASH_PANIC) {
            // The simulated machine of a file-backed replica lost power inside a system call.
            let r: usize = rest.trim().trim_start_matches('r').split(' ').next().and_then(|x| x.parse().ok()).unwrap_or(0);
            self.crash_process(r, 0);
            return;
        }
        self.dead = true;
        if msg.contains("aranya_verif: fuel exhausted") {
            let p = owner.unwrap_or("C02");
            self.violation(p, &format!("{p}.nontermination"), &format!("fuel:{what}"), format!("{what}: loop budget exhausted ({msg})"));
        } else if let Some(p) = owner {
            self.violation(p, &format!("{p}.panic"), &format!("panic:{what}"), format!("{what} panicked: {msg}"));
        } else {
            self.anomaly(format!("{what} panicked: {msg}"));
        }
    }

    pub fn fresh_nonce(&mut self) -> u64 {
        self.nonce += 1;
        self.nonce
    }
}

pub fn take_cache(caches: &mut BTreeMap<usize, PeerCache>, peer: usize) -> PeerCache {
    caches.remove(&peer).unwrap_or_default()
}
