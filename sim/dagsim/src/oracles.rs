//! State oracles evaluated after every successful commit / action / recovery.

use std::collections::BTreeSet;

use aranya_runtime::{Address, CmdId, MaxCut};

use crate::{
    model::state_dump,
    policy::Dump,
    replica::Guarded,
    sim::{Exposed, Sim},
    with_rep,
};

pub fn dump_hash(d: &Dump) -> u64 {
    let mut bytes = Vec::new();
    for (n, k, v) in d {
        bytes.push(*n);
        for c in k {
            bytes.push(c.len() as u8);
            bytes.extend_from_slice(c);
        }
        bytes.push(0xff);
        bytes.extend_from_slice(v);
        bytes.push(0xfe);
    }
    vcommon::fnv(&bytes)
}

pub fn set_hash(s: &BTreeSet<CmdId>) -> u64 {
    let mut bytes = Vec::with_capacity(s.len() * 32);
    for id in s {
        bytes.extend_from_slice(id.as_bytes());
    }
    vcommon::fnv(&bytes)
}

pub fn short(id: &CmdId) -> String {
    vcommon::hex(&id.as_bytes()[..4])
}

impl Sim {
    pub fn committed(&self, r: usize) -> &BTreeSet<CmdId> {
        with_rep!(&self.reps[r], rep => &rep.committed)
    }

    pub fn has_graph(&self, r: usize) -> bool {
        with_rep!(&self.reps[r], rep => rep.has_graph)
    }

    pub fn model_heads(&self, r: usize) -> Vec<CmdId> {
        self.g.frontier(self.committed(r))
    }

    pub fn addr(&self, id: &CmdId) -> Address {
        self.g.node(id).address()
    }

    /// Address the replica must advertise: its head, or the merge its head set collapses to.
    pub fn model_hello(&mut self, heads: &[CmdId]) -> Address {
        if heads.len() == 1 {
            return self.addr(&heads[0]);
        }
        let made = self.g.collapse(heads);
        let last = *made.last().expect("multi-head collapse makes merges");
        self.addr(&last)
    }

    /// Oracles over the committed state of replica `r` (C01 C03 C09 C11 C12, hello for C04/C19).
    pub fn check_committed(&mut self, r: usize, ctx: &str) {
        if self.dead {
            return;
        }
        let Some(gid) = self.gid else { return };
        let shadow: BTreeSet<CmdId> = self.committed(r).clone();
        let want_heads = self.g.frontier(&shadow);

        // --- C09: head set is exactly the frontier, ascending, duplicate-free.
        let heads = match with_rep!(&mut self.reps[r], rep => rep.heads(gid)) {
            Ok(h) => h,
            Err(e) => {
                self.violation("C09", "C09.heads-unreadable", "heads-unreadable", format!("{ctx}: get_heads failed on replica {r}: {e}"));
                return;
            }
        };
        let got_ids: Vec<CmdId> = heads.iter().map(|h| h.id).collect();
        if got_ids.windows(2).any(|w| w[0] >= w[1]) {
            self.violation("C09", "C09.heads-order", "heads-not-ascending", format!("{ctx}: replica {r} heads not strictly ascending: {:?}", got_ids.iter().map(short).collect::<Vec<_>>()));
        }
        if got_ids != want_heads {
            self.violation(
                "C09",
                "C09.frontier",
                "heads-not-frontier",
                format!(
                    "{ctx}: replica {r} heads {:?} != frontier of committed set {:?}",
                    got_ids.iter().map(short).collect::<Vec<_>>(),
                    want_heads.iter().map(short).collect::<Vec<_>>()
                ),
            );
            return;
        }
        for h in &heads {
            if h.max_cut.get() != self.g.node(&h.id).max_cut {
                self.violation("C09", "C09.head-maxcut", "head-maxcut", format!("{ctx}: head {} max_cut {} != {}", short(&h.id), h.max_cut, self.g.node(&h.id).max_cut));
            }
        }
        if let Some(init) = self.init_id {
            let a = Address { id: init, max_cut: MaxCut::new(0) };
            match with_rep!(&mut self.reps[r], rep => rep.locate(gid, a)) {
                Ok(Some(_)) => {}
                other => self.violation("C09", "C09.init-unreachable", "init-unreachable", format!("{ctx}: init not reachable from heads on replica {r}: {other:?}")),
            }
        }

        // --- C03 / C12: fact dump equals the model.
        let want_state = match self.g.state_of_heads(&want_heads) {
            Ok(s) => s,
            Err(_) => {
                self.violation("C05", "C05.undetected", "parallel-finalize-committed", format!("{ctx}: replica {r} committed heads whose braid has concurrent finalize commands"));
                return;
            }
        };
        let want_dump = state_dump(&want_state);
        let probe = self.probe_keys.clone();
        let got = with_rep!(&mut self.reps[r], rep => rep.fact_dump(gid, &probe));
        let has_merge = shadow.iter().any(|c| self.g.node(c).is_merge());
        let state_prop = if heads.len() > 1 || has_merge { "C03" } else { "C12" };
        let mut got_hash = 0;
        match got {
            Err(()) => self.violation("C12", "C12.query-error", "query-error", format!("{ctx}: fact queries failed on replica {r}")),
            Ok((dump, consistent)) => {
                got_hash = dump_hash(&dump);
                if !consistent {
                    self.violation("C12", "C12.query-consistency", "prefix-vs-exact", format!("{ctx}: prefix results not ascending or exact query disagrees on replica {r}: {dump:?}"));
                }
                if dump != want_dump {
                    self.violation(
                        state_prop,
                        &format!("{state_prop}.state"),
                        "state-mismatch",
                        format!("{ctx}: replica {r} ({} heads) facts {dump:?} != model {want_dump:?}", heads.len()),
                    );
                }
            }
        }

        // --- hello head (C04 / C19 / C01).
        let want_hello = self.model_hello(&want_heads);
        let hello = match with_rep!(&mut self.reps[r], rep => rep.hello_head(gid)) {
            Guarded::Done(Ok(a)) => {
                if a != want_hello {
                    self.violation("C04", "C04.hello-head", "hello-head", format!("{ctx}: replica {r} hello_head {}@{} != expected {}@{}", short(&a.id), a.max_cut, short(&want_hello.id), want_hello.max_cut));
                }
                Some((a.id, a.max_cut.get()))
            }
            Guarded::Done(Err(e)) => {
                self.violation("C19", "C19.hello-error", "hello-error", format!("{ctx}: hello_head failed on replica {r}: {e}"));
                None
            }
            Guarded::Panicked(m) => {
                self.on_panic(Some("C19"), "hello_head", m);
                None
            }
        };

        // --- C01: equal committed sets expose equal state.
        let key = set_hash(&shadow);
        let me = Exposed {
            heads: heads.iter().map(|h| (h.id, h.max_cut.get())).collect(),
            dump_hash: got_hash,
            hello,
            rep: r,
            history_hash: self.history_hash[r],
        };
        if let Some(prev) = self.exposed.get(&key).cloned() {
            if prev.history_hash != me.history_hash {
                self.c01_pairs += 1;
                if heads.len() >= 2 || has_merge {
                    self.c01_nontrivial.insert(key ^ prev.history_hash.rotate_left(7) ^ me.history_hash);
                }
            }
            if prev.heads != me.heads || prev.dump_hash != me.dump_hash || prev.hello != me.hello {
                self.violation(
                    "C01",
                    "C01.divergence",
                    "same-set-different-state",
                    format!("{ctx}: replicas {} and {} hold the same {} commands but expose heads {:?}/{:?} dump {:x}/{:x} hello {:?}/{:?}", prev.rep, r, shadow.len(), prev.heads.len(), me.heads.len(), prev.dump_hash, me.dump_hash, prev.hello, me.hello),
                );
            }
        } else {
            self.exposed.insert(key, me);
        }

        // --- C11: lookups and ancestry.
        self.state_checks += 1;
        if self.cfg.lookup_every <= 1 || self.state_checks % u64::from(self.cfg.lookup_every) == 0 {
            self.check_lookups(r, ctx, &shadow);
        }
        self.note(&format!("state r{r} n={} heads={} dump={got_hash:x}", shadow.len(), heads.len()));
    }

    pub fn check_lookups(&mut self, r: usize, ctx: &str, shadow: &BTreeSet<CmdId>) {
        let Some(gid) = self.gid else { return };
        let all: Vec<CmdId> = shadow.iter().copied().collect();
        let full = all.len() <= self.cfg.allpairs_max;
        // Deterministic sample: stride through the set.
        let stride = if full { 1 } else { (all.len() / 24).max(1) };
        let mut locs = Vec::new();
        let file = self.is_file(r);
        for (i, id) in all.iter().step_by(stride).enumerate() {
            let a = self.addr(id);
            // File-backed replicas: every seventh lookup runs with a read error placed inside it.
            // It may then fail, but it may not answer wrongly.
            let faulty = file && (i + self.step_no) % 7 == 0;
            if let (true, Some(fs)) = (faulty, &self.fs) {
                fs.arm_read_fault(((i * 13 + self.step_no) % 12) as u32);
            }
            let found = with_rep!(&mut self.reps[r], rep => rep.locate(gid, a));
            let fired = faulty && self.fs.as_ref().is_some_and(|fs| fs.disarm_read_fault());
            if fired {
                self.stats.bump("fault.read_eio_in_lookup");
                if found.is_err() {
                    self.stats.bump("fault.read_eio_lookup_failed");
                    continue;
                }
            }
            match found {
                Ok(Some(loc)) => {
                    let at = with_rep!(&mut self.reps[r], rep => rep.id_at(gid, loc));
                    if !matches!(at, Ok(Some(x)) if x == *id) {
                        self.violation("C11", "C11.wrong-location", "wrong-location", format!("{ctx}: replica {r} get_location({}) returned {loc} holding {at:?}", short(id)));
                    }
                    locs.push((*id, loc));
                }
                Ok(None) => self.violation("C11", "C11.lookup-miss", "committed-not-found", format!("{ctx}: replica {r} cannot find committed command {} (max_cut {})", short(id), a.max_cut)),
                Err(e) => self.violation("C11", "C11.lookup-error", "lookup-error", format!("{ctx}: replica {r} get_location({}) failed: {e}", short(id))),
            }
        }
        // Non-members: every command known to the model but not committed here.
        // Those a commit attempted since the last success first (they may sit in written but
        // uncommitted segments), then a stride through the rest.
        let mut outsiders: Vec<CmdId> = self.disk.get(r).map(|d| d.attempted.iter().flat_map(|s| s.iter().copied()).filter(|k| !shadow.contains(k)).collect::<BTreeSet<_>>().into_iter().rev().take(12).collect()).unwrap_or_default();
        let rest: Vec<CmdId> = self.g.nodes.keys().filter(|k| !shadow.contains(*k)).copied().collect();
        let step = (rest.len() / 16).max(1);
        outsiders.extend(rest.into_iter().step_by(step).take(16));
        for id in outsiders {
            let a = self.addr(&id);
            if let Ok(Some(loc)) = with_rep!(&mut self.reps[r], rep => rep.locate(gid, a)) {
                self.violation("C11", "C11.phantom", "uncommitted-found", format!("{ctx}: replica {r} finds {} at {loc} although it is not in the committed graph", short(&id)));
            }
        }
        // Ancestry.
        let pairs_full = locs.len() <= 40;
        let n = locs.len();
        let mut checked = 0u64;
        for i in 0..n {
            for j in 0..n {
                if !pairs_full && (i * 31 + j * 17 + self.step_no) % 23 != 0 {
                    continue;
                }
                let (ia, la) = locs[i];
                let (ib, lb) = locs[j];
                let want = self.g.is_ancestor(&ia, &ib);
                let faulty = file && (i * 5 + j + self.step_no) % 11 == 0;
                if let (true, Some(fs)) = (faulty, &self.fs) {
                    fs.arm_read_fault(((i + j * 7 + self.step_no) % 10) as u32);
                }
                let answer = with_rep!(&mut self.reps[r], rep => rep.is_ancestor(gid, la, lb));
                let fired = faulty && self.fs.as_ref().is_some_and(|fs| fs.disarm_read_fault());
                if fired && answer.is_err() {
                    self.stats.bump("fault.read_eio_ancestry_failed");
                    continue;
                }
                match answer {
                    Ok(got) if got == want => {}
                    Ok(got) => {
                        self.violation("C11", "C11.ancestry", "is-ancestor-wrong", format!("{ctx}: replica {r} is_ancestor({} -> {}) = {got}, model says {want}", short(&ia), short(&ib)));
                        return;
                    }
                    Err(e) => {
                        self.violation("C11", "C11.ancestry-error", "is-ancestor-error", format!("{ctx}: is_ancestor failed: {e}"));
                        return;
                    }
                }
                checked += 1;
            }
        }
        self.stats.add("c11.ancestry_pairs", checked);
        self.stats.add("c11.lookups", locs.len() as u64);
    }
}
