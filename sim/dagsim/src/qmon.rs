//! C21: in-situ refinement monitor for the traversal queue (DESIGN section 5, C21).
//!
//! The guarded hook in `storage/mod.rs` reports every mutating queue operation made by graph
//! searches, braids and sync during a simulated run, together with the logical contents of the
//! queue *before* the operation (a multiset of `(location, covered)`), and every entry handed to
//! a drain callback. The pre-state of the next operation on the same queue object is the
//! post-state of the previous one, so every transition can be compared with the documented
//! rules, transcribed here over plain multisets: no partition index, no entry order, no
//! tie-breaking between entries of equal max cut.

use std::{cell::RefCell, collections::BTreeMap, rc::Rc};

use aranya_runtime::{
    Location, MaxCut, QUEUE_CAPACITY,
    verif::{QueueEvent, QueueOp},
};

type Entry = (Location, bool);

struct Pending {
    op: QueueOp,
    pre: Vec<Entry>,
    drained: Vec<Location>,
}

#[derive(Default)]
pub struct QMon {
    last: BTreeMap<usize, Pending>,
    pub ops: BTreeMap<&'static str, u64>,
    pub checked: u64,
    pub found: Vec<(String, String)>,
    trace: bool,
}

pub type SharedQMon = Rc<RefCell<QMon>>;

fn sorted(mut v: Vec<Entry>) -> Vec<Entry> {
    v.sort();
    v
}

fn without(pre: &[Entry], i: usize) -> Vec<Entry> {
    let mut v = pre.to_vec();
    v.remove(i);
    v
}

fn show(v: &[Entry]) -> String {
    let items: Vec<String> = v.iter().map(|(l, c)| format!("{}{}", l, if *c { "c" } else { "" })).collect();
    format!("[{}]", items.join(" "))
}

fn op_name(op: &QueueOp) -> &'static str {
    match op {
        QueueOp::Clear => "clear",
        QueueOp::PushCovered { .. } => "push_covered",
        QueueOp::PushDuplicate { .. } => "push_duplicate",
        QueueOp::PopCovered => "pop",
        QueueOp::PopDuplicates => "pop_duplicates",
        QueueOp::DrainAbove { .. } => "drain_above",
        QueueOp::CoverUpTo { .. } => "cover_up_to",
        QueueOp::DrainAll => "drain_all",
        QueueOp::Drained { .. } => "drained",
    }
}

/// The documented push rule applied to the entry at `i` (same segment as `loc`).
fn push_onto(pre: &[Entry], i: usize, loc: Location, covered: bool) -> Vec<Entry> {
    let mut v = pre.to_vec();
    let (cur, was) = v[i];
    if loc.max_cut > cur.max_cut {
        v[i] = (Location::new(cur.segment, loc.max_cut), covered);
    } else if loc.max_cut == cur.max_cut {
        v[i] = (cur, was || covered);
    }
    sorted(v)
}

fn cover_onto(pre: &[Entry], i: usize, coverage: MaxCut, longest: MaxCut) -> Vec<Entry> {
    let mut v = pre.to_vec();
    let (cur, was) = v[i];
    if !was {
        if coverage >= longest {
            v[i] = (cur, true);
        } else if coverage >= cur.max_cut {
            if let Some(next) = coverage.checked_add(1) {
                v[i] = (Location::new(cur.segment, next), false);
            }
        }
    }
    sorted(v)
}

/// Returns the sets of post-states the documented rules allow, and the multiset that must have
/// been handed to the drain callback (if the operation drains).
fn allowed(p: &Pending) -> (Vec<Vec<Entry>>, Option<Vec<Location>>) {
    let pre = &p.pre;
    match &p.op {
        QueueOp::Clear => (vec![vec![]], None),
        QueueOp::DrainAll => {
            let mut d: Vec<Location> = pre.iter().filter(|e| !e.1).map(|e| e.0).collect();
            d.sort();
            (vec![vec![]], Some(d))
        }
        QueueOp::PushCovered { loc, covered } => {
            let same: Vec<usize> = (0..pre.len()).filter(|i| pre[*i].0.segment == loc.segment).collect();
            if same.is_empty() {
                let mut v = pre.clone();
                v.push((*loc, *covered));
                let mut out = vec![sorted(v)];
                if pre.len() >= QUEUE_CAPACITY {
                    out.push(pre.clone());
                }
                (out, None)
            } else {
                (same.into_iter().map(|i| push_onto(pre, i, *loc, *covered)).collect(), None)
            }
        }
        QueueOp::PushDuplicate { loc } => {
            let mut v = pre.clone();
            v.push((*loc, false));
            let mut out = vec![sorted(v)];
            if pre.len() >= QUEUE_CAPACITY {
                out.push(pre.clone());
            }
            (out, None)
        }
        QueueOp::PopCovered => {
            let Some(hi) = pre.iter().map(|e| e.0.max_cut).max() else { return (vec![vec![]], None) };
            ((0..pre.len()).filter(|i| pre[*i].0.max_cut == hi).map(|i| without(pre, i)).collect(), None)
        }
        QueueOp::PopDuplicates => {
            let Some(hi) = pre.iter().map(|e| e.0.max_cut).max() else { return (vec![vec![]], None) };
            let mut out = Vec::new();
            for (l, _) in pre.iter().filter(|e| e.0.max_cut == hi) {
                let v: Vec<Entry> = pre.iter().filter(|e| e.0 != *l).copied().collect();
                if !out.contains(&v) {
                    out.push(v);
                }
            }
            (out, None)
        }
        QueueOp::DrainAbove { threshold } => {
            let keep: Vec<Entry> = pre.iter().filter(|e| e.0.max_cut <= *threshold).copied().collect();
            let mut d: Vec<Location> = pre.iter().filter(|e| e.0.max_cut > *threshold && !e.1).map(|e| e.0).collect();
            d.sort();
            (vec![keep], Some(d))
        }
        QueueOp::CoverUpTo { segment, coverage, longest } => {
            let same: Vec<usize> = (0..pre.len()).filter(|i| pre[*i].0.segment == *segment).collect();
            if same.is_empty() {
                (vec![pre.clone()], None)
            } else {
                (same.into_iter().map(|i| cover_onto(pre, i, *coverage, *longest)).collect(), None)
            }
        }
        QueueOp::Drained { .. } => (vec![pre.clone()], None),
    }
}

impl QMon {
    pub fn install() -> SharedQMon {
        let m: SharedQMon = Rc::new(RefCell::new(QMon { trace: std::env::var_os("QMON_TRACE").is_some(), ..QMon::default() }));
        let m2 = Rc::clone(&m);
        aranya_runtime::verif::set_queue_trace(Some(Box::new(move |ev| m2.borrow_mut().on_event(ev))));
        m
    }

    pub fn uninstall() {
        aranya_runtime::verif::set_queue_trace(None);
    }

    /// Queue objects were dropped or moved (replica crash / restart): forget what was pending.
    pub fn forget_all(&mut self) {
        if self.trace {
            eprintln!("QMON forget_all");
        }
        self.last.clear();
    }

    fn on_event(&mut self, ev: QueueEvent) {
        if self.trace {
            eprintln!("QMON {:x} {:?} pre={}/{}", ev.queue, ev.op, ev.uncovered.len(), ev.covered.len());
        }
        *self.ops.entry(op_name(&ev.op)).or_insert(0) += 1;
        if let QueueOp::Drained { loc } = ev.op {
            match self.last.get_mut(&ev.queue) {
                Some(p) if matches!(p.op, QueueOp::DrainAbove { .. } | QueueOp::DrainAll) => p.drained.push(loc),
                _ => self.flag("drain-callback-outside-drain", format!("entry {loc} was handed to a drain callback outside drain_above/drain_all")),
            }
            return;
        }
        let pre = sorted(ev.uncovered.iter().map(|l| (*l, false)).chain(ev.covered.iter().map(|l| (*l, true))).collect());
        if let Some(p) = self.last.remove(&ev.queue) {
            self.check(&p, &pre);
        }
        self.last.insert(ev.queue, Pending { op: ev.op, pre, drained: Vec::new() });
    }

    fn check(&mut self, p: &Pending, post: &[Entry]) {
        self.checked += 1;
        let (posts, drained) = allowed(p);
        if !posts.iter().any(|x| x.as_slice() == post) {
            let sig = format!("{}-post-state", op_name(&p.op));
            self.flag(&sig, format!("{:?} turned the queue {} into {}; the documented rules allow {}", p.op, show(&p.pre), show(post), posts.iter().map(|x| show(x)).collect::<Vec<_>>().join(" or ")));
            return;
        }
        if let Some(mut want) = drained {
            let mut got = p.drained.clone();
            got.sort();
            want.sort();
            if got != want {
                let sig = format!("{}-callback", op_name(&p.op));
                self.flag(&sig, format!("{:?} on {} handed {:?} to its callback; exactly the uncovered entries {:?} must be passed", p.op, show(&p.pre), got.iter().map(ToString::to_string).collect::<Vec<_>>(), want.iter().map(ToString::to_string).collect::<Vec<_>>()));
            }
        }
    }

    fn flag(&mut self, sig: &str, detail: String) {
        if self.found.len() < 4 {
            self.found.push((sig.to_string(), detail));
        }
    }
}

impl crate::sim::Sim {
    /// Drives a fresh real queue with an explicit operation list. Transitions are checked by the
    /// monitor through the same hook as in-situ operations; returned values are checked here.
    pub fn step_queue_drive(&mut self, ops: &[crate::sim::QOp]) {
        use aranya_runtime::{SegmentIndex, storage::TraversalQueue};

        use crate::sim::QOp;
        let loc = |seg: u8, mc: u8| Location::new(SegmentIndex::new(u64::from(seg)), MaxCut::new(u64::from(mc)));
        let mut q = Box::new(TraversalQueue::new());
        let mut bad: Option<String> = None;
        let r = crate::replica::guarded(|| {
            q.clear();
            for op in ops {
                match op {
                    QOp::Clear => q.clear(),
                    QOp::Push { seg, mc, covered } => {
                        let _ = q.push_covered(loc(*seg, *mc), *covered);
                    }
                    QOp::PushDup { seg, mc } => {
                        let _ = q.push_duplicate(loc(*seg, *mc));
                    }
                    QOp::Pop => {
                        let top = q.peek().copied();
                        match q.pop_covered() {
                            Ok(got) => {
                                if got.map(|g| g.0.max_cut) != top.map(|t| t.max_cut) {
                                    bad = Some(format!("pop returned {got:?} but the highest entry was {top:?}"));
                                }
                            }
                            Err(e) => bad = Some(format!("pop failed: {e}")),
                        }
                    }
                    QOp::PopDups => {
                        let _ = q.pop_duplicates();
                    }
                    QOp::DrainAbove { th } => {
                        let _ = q.drain_above(MaxCut::new(u64::from(*th)), |_| {});
                    }
                    QOp::CoverUpTo { seg, cov, longest } => {
                        let _ = q.cover_up_to(SegmentIndex::new(u64::from(*seg)), MaxCut::new(u64::from(*cov)), MaxCut::new(u64::from(*longest)));
                    }
                    QOp::DrainAll => q.drain_all(|_| {}),
                }
            }
            // A final clear reports the last post-state to the monitor.
            q.clear();
        });
        if let crate::replica::Guarded::Panicked(m) = r {
            self.on_panic(Some("C21"), "traversal queue operation", m);
            return;
        }
        if let Some(b) = bad {
            self.violation("C21", "C21.pop-result", "pop-result", b);
        }
        self.stats.bump("c21.direct_drives");
        self.note(&format!("queue_drive {}", ops.len()));
    }
}
