//! Engine E1 `dagsim`: cluster simulator for the runtime properties (DESIGN sections 4-5).

mod generate;
mod minimise;
mod model;
mod netfault;
mod ops;
mod oracles;
mod policy;
mod push;
mod qmon;
mod replica;
mod run;
mod sessions;
mod sim;
mod simfs;
mod sync;
mod wire_mirror;

use std::collections::{BTreeMap, BTreeSet};

use serde_json::json;
use vcommon::{Cli, Evidence, Tier, Violation};

use crate::{
    generate::{family_cfg, run_seeded},
    run::Outcome,
    sim::{Cfg, Found, Step},
};

/// Families a property's check draws from (weights), and which oracle labels it reports.
struct Plan {
    families: &'static [(&'static str, u32)],
    /// Oracle labels (property prefixes of violation classes) reported under this check.
    reports: &'static [&'static str],
    quick_runs: u64,
    thorough_runs: u64,
    nontrivial: &'static str,
}

fn plan(p: &str) -> Option<Plan> {
    let d = |families, reports, quick_runs, thorough_runs, nontrivial| Some(Plan { families, reports, quick_runs, thorough_runs, nontrivial });
    match p {
        "C01" => d(&[("dag", 5), ("dag-faults", 3), ("txn-race", 1), ("adversarial", 1)], &["C01"], 6000, 80000, "two replicas (or one replica at two points) reached the same committed command set through different ingest histories and the set has >= 2 heads or >= 1 merge"),
        "C02" => d(&[("dag", 4), ("finalize", 1), ("adversarial", 2), ("sync-size", 1)], &["C02", "C03"], 6000, 80000, "run contains a braid (multi-head commit, merge ingest or collapse) evaluating >= 3 commands"),
        "C03" => d(&[("dag", 4), ("finalize", 2), ("adversarial", 2), ("facts", 1)], &["C03", "C02"], 6000, 80000, "run contains >= 1 merge command or multi-head commit whose state was compared with the reference braid"),
        "C04" => d(&[("dag", 5), ("hello", 2), ("sessions", 1), ("crash", 1)], &["C04"], 6000, 80000, "an action ran on a committed multi-head graph"),
        "C05" => d(&[("finalize", 6), ("adversarial", 2), ("dag", 1)], &["C05"], 6000, 80000, "run exercised both outcomes or a finalize command that is not a tip"),
        "C06" => d(&[("adversarial", 7), ("facts", 2), ("txn-race", 1)], &["C06", "C13"], 8000, 100000, "a command was rejected at origin while its transaction held >= 1 accepted command"),
        "C07" => d(&[("dag", 5), ("hello", 2), ("facts", 2), ("dag-faults", 1), ("crash", 1)], &["C07"], 6000, 80000, "an action failed after publishing >= 1 command (or on a multi-head graph) and another action succeeded in the same run"),
        "C08" => d(&[("txn-race", 7), ("adversarial", 1), ("dag", 2), ("crash", 1)], &["C08"], 6000, 80000, "run has >= 1 ConcurrentTransaction refusal and >= 1 successful commit"),
        "C09" => d(&[("adversarial", 4), ("dag", 4), ("txn-race", 2), ("crash", 1)], &["C09"], 6000, 80000, "committed head set with >= 2 heads was checked against the frontier"),
        "C10" => d(&[("adversarial", 8), ("dag", 1)], &["C10"], 6000, 80000, "an init-shaped command was refused or a graph was created from a synced init"),
        "C11" => d(&[("facts", 4), ("dag", 4), ("sync-size", 1), ("crash", 1)], &["C11"], 5000, 60000, "ancestry and lookup answers were compared on a graph with >= 1 merge or a skip-list jump"),
        "C12" => d(&[("facts", 7), ("dag", 2), ("adversarial", 1)], &["C12"], 6000, 80000, "perspective dumps were compared on a run that compacted a fact index or read a mid-segment perspective"),
        "C13" => d(&[("adversarial", 4), ("sessions", 4), ("facts", 2)], &["C13", "C06", "C14"], 6000, 80000, "a write-then-fail operation was reverted (origin rejection or failed session operation) and later reads were compared"),
        "C14" => d(&[("sessions", 9), ("dag", 1)], &["C14"], 6000, 80000, "a session performed >= 2 operations including a failed one or a delete of a committed key"),
        "C16" => d(&[("sync-size", 5), ("dag", 4), ("hello", 1)], &["C16"], 1500, 20000, "a complete undisturbed session ran while the requester lacked commands"),
        "C17" => d(&[("sync-size", 4), ("dag", 4), ("dag-faults", 2), ("push", 3)], &["C17"], 1500, 20000, "a session sent >= 2 responses or resumed in the middle of a segment"),
        "C18" => d(&[("net-chaos", 9), ("dag-faults", 1), ("push-chaos", 4)], &["C18"], 6000, 80000, "a corrupted, truncated, misdelivered or duplicated message reached a decoder"),
        "C19" => d(&[("hello", 7), ("dag", 2), ("dag-faults", 1), ("crash", 2)], &["C19"], 6000, 80000, "a hello decision 'no sync' was taken between replicas with different head sets"),
        "C20" => d(&[("cache", 6), ("dag", 3), ("adversarial", 1), ("push", 2)], &["C20"], 6000, 80000, "a peer cache update removed an ancestor entry or ignored an uncommitted address"),
        "C15" => d(&[("crash", 6), ("crash-subsector", 2)], &["C15"], 3000, 40000, "crash inside a commit with >= 1 pending write partially surviving"),
        "C21" => d(&[("dag", 3), ("sync-size", 2), ("adversarial", 1), ("queue", 1)], &["C21"], 3000, 40000, "the run's searches, braids and sync sessions exercised pop, push and at least one of drain_above / cover_up_to / pop_duplicates on a monitored queue"),
        _ => None,
    }
}

fn nontrivial(property: &str, o: &Outcome) -> bool {
    let c = |k: &str| o.stats.counters.get(k).copied().unwrap_or(0);
    let p = |k: &str| o.stats.probes.get(k).copied().unwrap_or(0);
    match property {
        "C01" => o.c01_nontrivial > 0,
        "C02" | "C03" => c("multi_head_commits") + c("multi_head_actions") > 0 || o.merges > 0,
        "C04" => c("multi_head_actions") > 0,
        "C05" => c("parallel_finalize_on_merge") + c("parallel_finalize_on_commit") > 0,
        "C06" | "C13" => c("rejected_with_accepted_in_trx") > 0 || (property == "C13" && c("c14.actions_failed") + c("c14.receives_failed") > 0),
        "C07" => c("actions_failed") > 0 && c("actions_ok") > 0,
        "C08" => c("concurrent_transaction") > 0 && c("commits") > 0,
        "C09" => c("multi_head_commits") > 0,
        "C10" => c("init_error") > 0,
        "C11" => o.merges > 0 || p("skip.jump_taken") > 0,
        "C12" => p("facts.compact") + p("facts.midsegment") > 0,
        "C14" => c("c14.actions_failed") + c("c14.receives_failed") > 0 && c("c14.observations") >= 2,
        "C16" => c("sync_sessions_clean_with_missing") > 0,
        "C17" => c("sync_full_responses") > 0 || p("resp.resume_midsegment") > 0 || c("sync_sessions_completed") > 0,
        "C18" => o.stats.counters.iter().any(|(k, v)| k.starts_with("fault.") && *v > 0),
        "C19" => c("hello.no_sync_a_ahead") > 0,
        "C20" => c("c20.add_command") > 0,
        "C15" => c("crash.in_commit_partial") > 0,
        "C21" => c("c21.op.pop") > 0 && c("c21.op.push_covered") > 0 && c("c21.op.drain_above") + c("c21.op.cover_up_to") + c("c21.op.pop_duplicates") > 0,
        _ => false,
    }
}

fn pick_family(plan: &Plan, seed: u64) -> &'static str {
    let mut r = vcommon::Rng::derive(seed, "family");
    let w: Vec<u32> = plan.families.iter().map(|f| f.1).collect();
    plan.families[r.weighted(&w)].0
}

fn reported<'a>(plan: &Plan, found: &'a [Found]) -> (Vec<&'a Found>, Vec<&'a Found>) {
    found.iter().partition(|f| plan.reports.contains(&f.property.as_str()))
}

#[derive(serde::Serialize, serde::Deserialize)]
struct ReplayFile {
    engine: String,
    property: String,
    seed: u64,
    cfg: Cfg,
    steps: Vec<Step>,
    violation: Found,
    minimised_from: usize,
    /// Build configuration the run needs: "knobs" = small spill / compaction / prealloc constants
    /// and the `low-mem-usage` sync limits; "real" = the shipped constants.
    #[serde(default = "real_build")]
    build: String,
}

fn real_build() -> String {
    "real".into()
}

pub fn this_build() -> &'static str {
    if cfg!(aranya_verif_knobs) { "knobs" } else { "real" }
}

/// What one process (one build configuration) contributes to a batch.
#[derive(serde::Serialize, serde::Deserialize, Default)]
struct Agg {
    build: String,
    runs: u64,
    counters: BTreeMap<String, u64>,
    probes: BTreeMap<String, u64>,
    shapes: BTreeSet<u64>,
    histories: BTreeSet<u64>,
    distinct_nontrivial: BTreeSet<u64>,
    anomalies: Vec<String>,
    other: BTreeMap<String, u64>,
    steps_total: u64,
    sim_ms: u64,
    families: BTreeMap<String, u64>,
    violations: Vec<VJson>,
    samples: Vec<serde_json::Value>,
    max_commands: usize,
}

#[derive(serde::Serialize, serde::Deserialize, Clone)]
struct VJson {
    property: String,
    class: String,
    sig: String,
    detail: String,
    seed: u64,
    replay: String,
}

impl Agg {
    fn merge(&mut self, o: Agg) {
        self.runs += o.runs;
        for (k, v) in o.counters {
            *self.counters.entry(k).or_insert(0) += v;
        }
        for (k, v) in o.probes {
            *self.probes.entry(format!("{k}@{}", o.build)).or_insert(0) += v;
        }
        self.shapes.extend(o.shapes);
        self.histories.extend(o.histories);
        self.distinct_nontrivial.extend(o.distinct_nontrivial);
        self.anomalies.extend(o.anomalies.into_iter().take(6));
        for (k, v) in o.other {
            *self.other.entry(k).or_insert(0) += v;
        }
        self.steps_total += o.steps_total;
        self.sim_ms += o.sim_ms;
        for (k, v) in o.families {
            *self.families.entry(format!("{k}@{}", o.build)).or_insert(0) += v;
        }
        for v in o.violations {
            if !self.violations.iter().any(|x| x.sig == v.sig) {
                self.violations.push(v);
            }
        }
        self.samples.extend(o.samples.into_iter().take(1));
        self.max_commands = self.max_commands.max(o.max_commands);
    }
}

/// Runs this process's share of the batch: run indexes `i` with `i % of == part`.
fn run_share(cli: &Cli, plan: &Plan, runs: u64, part: u64, of: u64, jobs: usize) -> Agg {
    let big_every = if cli.tier == Tier::Thorough { 25 } else { 60 };
    let only_family = cli.extra.get("family").cloned();
    let lookups_always = cli.property == "C11";
    let max_steps: Option<usize> = cli.extra.get("steps").and_then(|s| s.parse().ok());
    let seed = cli.seed;
    // Debugging aid (never set by the registered commands): run one index of the batch only.
    let only: Option<u64> = std::env::var("DAGSIM_ONLY").ok().and_then(|v| v.parse().ok());
    let mine: Vec<u64> = (0..runs).filter(|i| i % of == part && only.is_none_or(|o| o == *i)).collect();
    let outcomes: Vec<(u64, Cfg, Outcome)> = vcommon::parallel_map(mine.len() as u64, jobs, |k| {
        let i = mine[k as usize];
        let s = vcommon::mix(seed, i);
        let fam: String = only_family.clone().unwrap_or_else(|| pick_family(plan, s).to_string());
        let big = i % big_every == big_every - 1;
        let mut cfg = family_cfg(&fam, s, big);
        if let Some(n) = max_steps {
            cfg.max_steps = n;
        }
        if lookups_always {
            cfg.lookup_every = 1;
        }
        let o = run_seeded(&cfg);
        (s, cfg, o)
    });
    let mut a = Agg { build: this_build().to_string(), runs: outcomes.len() as u64, ..Default::default() };
    for (s, cfg, o) in &outcomes {
        for (k, v) in &o.stats.counters {
            *a.counters.entry(k.clone()).or_insert(0) += v;
        }
        for (k, v) in &o.stats.probes {
            *a.probes.entry(k.clone()).or_insert(0) += v;
        }
        *a.families.entry(cfg.family.clone()).or_insert(0) += 1;
        a.shapes.insert(o.shape_hash);
        a.histories.insert(o.event_hash);
        a.steps_total += o.stats.steps;
        a.sim_ms += o.stats.sim_time_ms;
        a.max_commands = a.max_commands.max(o.commands);
        if nontrivial(&cli.property, o) {
            a.distinct_nontrivial.insert(o.event_hash ^ o.shape_hash.rotate_left(21));
        }
        for an in &o.stats.anomalies {
            if a.anomalies.len() < 12 {
                a.anomalies.push(format!("seed {s:#x} ({}): {an}", this_build()));
            }
            *a.counters.entry("anomalies".into()).or_insert(0) += 1;
        }
        let (mine, others) = reported(plan, &o.found);
        for f in others {
            *a.other.entry(format!("{}:{}", f.class, f.sig)).or_insert(0) += 1;
        }
        if let Some(f) = mine.first() {
            if a.violations.len() < 5 && !a.violations.iter().any(|v| v.sig == f.sig) {
                let v = minimise::minimise_and_write(&cli.property, *s, cfg, &o.steps, f, &plan_reports(plan));
                a.violations.push(VJson { property: v.property, class: v.class, sig: v.sig, detail: v.detail, seed: v.seed, replay: v.replay.display().to_string() });
            }
            *a.counters.entry("violating_runs".into()).or_insert(0) += 1;
        }
        if a.samples.len() < 2 && nontrivial(&cli.property, o) && o.steps.len() <= 40 {
            a.samples.push(json!({"seed": format!("{s:#x}"), "build": this_build(), "family": cfg.family, "replicas": cfg.n_reps, "steps": o.steps}));
        }
    }
    if a.samples.is_empty() {
        if let Some((s, cfg, o)) = outcomes.first() {
            a.samples.push(json!({"seed": format!("{s:#x}"), "build": this_build(), "family": cfg.family, "replicas": cfg.n_reps, "steps": o.steps.iter().take(30).collect::<Vec<_>>()}));
        }
    }
    a
}

/// Path of the binary built in the other configuration (set by `/verif/check`).
fn alt_bin() -> Option<std::path::PathBuf> {
    std::env::var_os("DAGSIM_ALT_BIN").map(std::path::PathBuf::from).filter(|p| p.exists())
}

fn main() {
    replica::install_quiet_panic_hook();
    let cli = vcommon::parse_cli();
    if let Some(path) = &cli.replay {
        std::process::exit(replay_file(&cli, path));
    }
    let Some(plan) = plan(&cli.property) else {
        vcommon::harness_error(&format!("dagsim does not serve property {:?}", cli.property));
    };
    if cli.has_flag("audit") {
        std::process::exit(audit(&cli, &plan));
    }
    let runs = cli.extra.get("runs").and_then(|s| s.parse().ok()).unwrap_or(match cli.tier {
        Tier::Quick => plan.quick_runs,
        Tier::Thorough => plan.thorough_runs,
    });
    // Child mode: run a share and hand the aggregate to the parent.
    if let Some(out) = cli.extra.get("emit") {
        let (part, of) = cli.extra.get("part").and_then(|p| p.split_once('/')).and_then(|(a, b)| Some((a.parse().ok()?, b.parse().ok()?))).unwrap_or((0u64, 1u64));
        let a = run_share(&cli, &plan, runs, part, of, cli.jobs);
        std::fs::write(out, serde_json::to_string(&a).expect("aggregate serialises")).unwrap_or_else(|e| vcommon::harness_error(&format!("cannot write {out}: {e}")));
        return;
    }
    let mut ev = Evidence::new(&cli, "exploration");
    // Two build configurations share the batch when the other binary is available: even run
    // indexes here, odd ones in the other build (real constants vs. small constants + low-mem).
    let alt = if cli.extra.contains_key("single") { None } else { alt_bin() };
    let mut agg = match &alt {
        None => run_share(&cli, &plan, runs, 0, 1, cli.jobs),
        Some(bin) => {
            let tmp = std::env::temp_dir().join(format!("dagsim-agg-{}-{}.json", std::process::id(), cli.property));
            let mut cmd = std::process::Command::new(bin);
            cmd.arg("--property").arg(&cli.property).arg("--tier").arg(cli.tier.as_str()).arg("--seed").arg(cli.seed.to_string());
            cmd.arg("--runs").arg(runs.to_string()).arg("--part").arg("1/2").arg("--emit").arg(&tmp);
            cmd.arg("--jobs").arg((cli.jobs / 2).max(1).to_string());
            for k in ["family", "steps"] {
                if let Some(v) = cli.extra.get(k) {
                    cmd.arg(format!("--{k}")).arg(v);
                }
            }
            if cli.has_flag("no-minimise") {
                cmd.arg("--no-minimise");
            }
            let child = cmd.spawn().unwrap_or_else(|e| vcommon::harness_error(&format!("cannot start {}: {e}", bin.display())));
            let mut a = run_share(&cli, &plan, runs, 0, 2, (cli.jobs - cli.jobs / 2).max(1));
            let out = child.wait_with_output().unwrap_or_else(|e| vcommon::harness_error(&format!("waiting for the other build failed: {e}")));
            if !out.status.success() {
                vcommon::harness_error(&format!("the other build configuration exited with {}", out.status));
            }
            let text = std::fs::read_to_string(&tmp).unwrap_or_else(|e| vcommon::harness_error(&format!("no aggregate from the other build: {e}")));
            let _ = std::fs::remove_file(&tmp);
            let b: Agg = serde_json::from_str(&text).unwrap_or_else(|e| vcommon::harness_error(&format!("bad aggregate from the other build: {e}")));
            // Probes and families of this build are tagged too, so the evidence shows which
            // configuration reached which branch.
            let mut merged = Agg::default();
            merged.merge(std::mem::take(&mut a));
            merged.merge(b);
            merged
        }
    };
    if alt.is_none() {
        agg.build = this_build().to_string();
    }
    let violations: Vec<Violation> = agg.violations.iter().map(|v| Violation { property: v.property.clone(), class: v.class.clone(), sig: v.sig.clone(), detail: v.detail.clone(), seed: v.seed, replay: v.replay.clone().into() }).collect();
    ev.evaluations = agg.runs;
    ev.distinct_nontrivial = agg.distinct_nontrivial.len() as u64;
    ev.rule = format!(
        "each evaluation is one seeded simulated run (family drawn per run from {:?}): replicas run the real aranya-runtime ClientState/Transaction/sync code over a simulated network and storage; steps, deliveries and faults are drawn from PRNG streams derived from mix(seed, run index). A run is counted non-trivial when: {}. Distinct = distinct (event-log hash, DAG shape hash).",
        plan.families, plan.nontrivial
    );
    ev.samples = agg.samples.clone();
    ev.violations = violations.len() as u64;
    let faults: BTreeMap<&String, &u64> = agg.counters.iter().filter(|(k, _)| k.starts_with("fault.")).collect();
    ev.set("faults_fired", json!(faults));
    ev.set("probes", json!(agg.probes));
    ev.set("counters", json!(agg.counters));
    ev.set("families", json!(agg.families));
    ev.set("distinct_dag_shapes", json!(agg.shapes.len()));
    ev.set("distinct_histories", json!(agg.histories.len()));
    ev.set("distinct_measure", json!("histories: FNV hash of the per-run event log (every step outcome, delivered message, state digest); shapes: canonical parent/priority structure of the global DAG"));
    ev.set("sim_steps", json!(agg.steps_total));
    ev.set("sim_time_s", json!(agg.sim_ms as f64 / 1000.0));
    ev.set("sim_time_note", json!("the library has no timers; simulated time only orders network events"));
    ev.set("largest_graph_commands", json!(agg.max_commands));
    ev.set("anomalies_outside_claimed_properties", json!(agg.anomalies));
    ev.set("other_property_findings_not_reported_by_this_check", json!(agg.other));
    ev.set(
        "components",
        json!({
            "real": ["aranya-runtime ClientState, Transaction, braiding, convergence map, LinearStorageProvider, fact indexes, Session, SyncRequester, SyncResponder, PeerCache, TraversalQueue; for file-backed replicas also storage/linear/libc (FileManager, Writer, Reader) and aranya-libc above the system-call seam"],
            "stub": ["network (SimNet)", "policy (DagPolicy, Rust; VM not in the loop)", "effect sink (RecSink)", "spill (in-memory with injected errors)", "memory-backed IoManager from the repository's testing module unless the run is file-backed", "disk below the system calls (SimFs) for file-backed replicas"],
            "build_configurations": if alt.is_some() { json!(["real (shipped constants): even run indexes", "knobs (braid block 4, convergence blocks 3x2, fact-index depth 3, skip gap 3, prealloc chunk 8 KiB) + low-mem-usage sync limits: odd run indexes"]) } else { json!([this_build()]) }
        }),
    );
    ev.assumptions = vec![
        "merge commands are produced by the policy's deterministic merge(); merges with ancestor-related parents are not generated".into(),
        "a clean batch is evidence, not proof: the search is sampled".into(),
    ];
    ev.write(&cli.evidence_path());
    let code = vcommon::report(&cli.property, &violations);
    println!(
        "{}: {} runs, {} steps, {} distinct histories, {} non-trivial, {} violations, {} anomalies",
        cli.property,
        agg.runs,
        agg.steps_total,
        agg.histories.len(),
        agg.distinct_nontrivial.len(),
        violations.len(),
        agg.counters.get("anomalies").copied().unwrap_or(0)
    );
    std::process::exit(code);
}

fn plan_reports(plan: &Plan) -> Vec<String> {
    plan.reports.iter().map(|s| s.to_string()).collect()
}

fn replay_file(cli: &Cli, path: &std::path::Path) -> i32 {
    let text = std::fs::read_to_string(path).unwrap_or_else(|e| vcommon::harness_error(&format!("cannot read replay {}: {e}", path.display())));
    let rf: ReplayFile = serde_json::from_str(&text).unwrap_or_else(|e| vcommon::harness_error(&format!("bad replay file: {e}")));
    if rf.build != this_build() {
        // The run needs the other build configuration: hand over.
        let Some(bin) = alt_bin() else {
            vcommon::harness_error(&format!("replay needs the {:?} build of dagsim; run it through /verif/check", rf.build));
        };
        let status = std::process::Command::new(bin).args(std::env::args().skip(1)).env_remove("DAGSIM_ALT_BIN").status().unwrap_or_else(|e| vcommon::harness_error(&format!("cannot start the other build: {e}")));
        return status.code().unwrap_or(2);
    }
    let o = run::replay(&rf.cfg, &rf.steps);
    let hit = o.found.iter().find(|f| f.class == rf.violation.class);
    match hit {
        Some(f) => {
            let v = Violation { property: rf.property.clone(), class: f.class.clone(), sig: f.sig.clone(), detail: f.detail.clone(), seed: rf.seed, replay: path.to_path_buf() };
            println!("replay reproduces: {} at step {}", f.class, f.step);
            vcommon::report(&cli.property, &[v])
        }
        None => {
            println!("replay did not reproduce {} (found: {:?})", rf.violation.class, o.found.iter().map(|f| &f.class).collect::<Vec<_>>());
            0
        }
    }
}

/// Determinism audit: N seeds, each run twice (second time on another worker layout); event
/// hashes must agree. Exit 2 on mismatch.
fn audit(cli: &Cli, plan: &Plan) -> i32 {
    let n = cli.extra.get("runs").and_then(|s| s.parse().ok()).unwrap_or(400u64);
    let seed = cli.seed;
    let one = |jobs: usize| -> Vec<(u64, u64, usize)> {
        vcommon::parallel_map(n, jobs, |i| {
            let s = vcommon::mix(seed, i);
            let cfg = family_cfg(pick_family(plan, s), s, i % 40 == 39);
            let o = run_seeded(&cfg);
            (o.event_hash, o.shape_hash, o.found.len())
        })
    };
    let a = one(cli.jobs);
    let b = one((cli.jobs / 3).max(1));
    let mut h = Vec::new();
    for (x, y) in a.iter().zip(b.iter()) {
        if x != y {
            eprintln!("HARNESS-ERROR: nondeterminism detected: {x:?} vs {y:?}");
            return 2;
        }
        h.extend_from_slice(&x.0.to_le_bytes());
    }
    println!("audit ok: {n} seeds x 2 executions identical; digest {:016x}", vcommon::fnv(&h));
    0
}
