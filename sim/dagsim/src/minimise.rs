//! Delta-debugging over the explicit step list (DESIGN 3.6).

use vcommon::Violation;

use crate::{
    ReplayFile,
    run::replay,
    sim::{Cfg, Found, NetFault, Step},
};

fn fails(cfg: &Cfg, steps: &[Step], class: &str) -> Option<Found> {
    replay(cfg, steps).found.into_iter().find(|f| f.class == class)
}

fn simplify(step: &Step) -> Vec<Step> {
    let mut out = Vec::new();
    match step {
        Step::Act { r, cmds, fail_at, spill_fault } => {
            if cmds.len() > 1 {
                for i in 0..cmds.len() {
                    let mut c = cmds.clone();
                    c.remove(i);
                    out.push(Step::Act { r: *r, cmds: c, fail_at: *fail_at, spill_fault: *spill_fault });
                }
            }
            if fail_at.is_some() || spill_fault.is_some() {
                out.push(Step::Act { r: *r, cmds: cmds.clone(), fail_at: None, spill_fault: None });
            }
        }
        Step::Craft { r, t, items } => {
            if items.len() > 1 {
                for i in 0..items.len() {
                    let mut c = items.clone();
                    c.remove(i);
                    out.push(Step::Craft { r: *r, t: *t, items: c });
                }
            }
        }
        Step::Deliver { m, fault } => {
            if *fault != NetFault::None {
                out.push(Step::Deliver { m: *m, fault: NetFault::None });
                out.push(Step::Deliver { m: *m, fault: NetFault::Drop });
            }
        }
        Step::Push { b, a, sid, buf, fault, mode } => {
            if *fault != NetFault::None {
                out.push(Step::Push { b: *b, a: *a, sid: *sid, buf: *buf, fault: NetFault::None, mode: *mode });
            }
            if buf.is_some() {
                out.push(Step::Push { b: *b, a: *a, sid: *sid, buf: None, fault: fault.clone(), mode: *mode });
            }
            if *mode != 0 {
                out.push(Step::Push { b: *b, a: *a, sid: *sid, buf: *buf, fault: fault.clone(), mode: 0 });
            }
        }
        Step::Subscribe { a, b, sid, fault } => {
            if *fault != NetFault::None {
                out.push(Step::Subscribe { a: *a, b: *b, sid: *sid, fault: NetFault::None });
            }
        }
        Step::Hello { a, b, fault: Some(_) } => out.push(Step::Hello { a: *a, b: *b, fault: None }),
        Step::Commit { r, t, spill_fault, per_addr } => {
            if spill_fault.is_some() || *per_addr {
                out.push(Step::Commit { r: *r, t: *t, spill_fault: None, per_addr: false });
            }
        }
        Step::RespPoll { s, buf } => {
            if buf.is_some() {
                out.push(Step::RespPoll { s: *s, buf: None });
            }
        }
        Step::SessAct { r, s, cmds, fail_at } => {
            if cmds.len() > 1 {
                for i in 0..cmds.len() {
                    let mut c = cmds.clone();
                    c.remove(i);
                    out.push(Step::SessAct { r: *r, s: *s, cmds: c, fail_at: *fail_at });
                }
            }
        }
        _ => {}
    }
    out
}

pub fn minimise(cfg: &Cfg, steps: &[Step], class: &str) -> (Vec<Step>, Found) {
    let mut cur: Vec<Step> = steps.to_vec();
    let mut found = fails(cfg, &cur, class).expect("violation reproduces from its explicit step list");
    // Cut everything after the violating step.
    if found.step < cur.len() {
        let cut = cur[..found.step].to_vec();
        if let Some(f) = fails(cfg, &cut, class) {
            cur = cut;
            found = f;
        }
    }
    let mut budget = 1500usize;
    // ddmin: remove chunks, halving the chunk size.
    let mut chunk = (cur.len() / 2).max(1);
    while chunk >= 1 && budget > 0 {
        let mut i = 0;
        let mut removed_any = false;
        while i < cur.len() && budget > 0 {
            let end = (i + chunk).min(cur.len());
            let mut cand = cur[..i].to_vec();
            cand.extend_from_slice(&cur[end..]);
            budget -= 1;
            if let Some(f) = fails(cfg, &cand, class) {
                cur = cand;
                found = f;
                removed_any = true;
            } else {
                i = end;
            }
        }
        if chunk == 1 && !removed_any {
            break;
        }
        chunk = if chunk == 1 { 1 } else { chunk / 2 };
        if chunk == 1 && !removed_any && cur.len() <= 1 {
            break;
        }
    }
    // Per-step simplification.
    let mut progress = true;
    while progress && budget > 0 {
        progress = false;
        for i in 0..cur.len() {
            for alt in simplify(&cur[i]) {
                if budget == 0 {
                    break;
                }
                budget -= 1;
                let mut cand = cur.clone();
                cand[i] = alt;
                if let Some(f) = fails(cfg, &cand, class) {
                    cur = cand;
                    found = f;
                    progress = true;
                    break;
                }
            }
        }
    }
    // Fewer replicas if the tail ones are unused.
    (cur, found)
}

pub fn minimise_and_write(property: &str, seed: u64, cfg: &Cfg, steps: &[Step], found: &Found, _reports: &[String]) -> Violation {
    let reproduces = fails(cfg, steps, &found.class).is_some();
    if !reproduces {
        vcommon::harness_error(&format!("violation {} of seed {seed:#x} does not reproduce from its explicit step list (nondeterminism)", found.class));
    }
    let no_min = std::env::args().any(|a| a == "--no-minimise");
    let (min_steps, f) = if no_min { (steps.to_vec(), found.clone()) } else { minimise(cfg, steps, &found.class) };
    let rf = ReplayFile {
        engine: "dagsim".into(),
        property: property.to_string(),
        seed,
        cfg: cfg.clone(),
        steps: min_steps,
        violation: f.clone(),
        minimised_from: steps.len(),
        build: crate::this_build().to_string(),
    };
    let tag = f.sig.chars().filter(|c| c.is_ascii_alphanumeric() || *c == '-').take(40).collect::<String>();
    let path = vcommon::replay_path(property, seed, &tag);
    std::fs::write(&path, serde_json::to_string_pretty(&rf).expect("replay serialises")).unwrap_or_else(|e| vcommon::harness_error(&format!("cannot write replay: {e}")));
    Violation { property: property.to_string(), class: f.class, sig: f.sig, detail: f.detail, seed, replay: path }
}
