//! A replica: real `ClientState` + storage provider + the harness-side shadow.

use std::{
    cell::Cell,
    collections::{BTreeMap, BTreeSet},
    panic::{AssertUnwindSafe, catch_unwind},
    rc::Rc,
};

use aranya_runtime::{
    Address, ClientError, ClientState, CmdId, GraphId, LibcSpill, LocatedAddress, Location, MemSpill,
    PeerCache, RuntimeBuffers, Segment as _, Session, Spill, Storage as _, StorageError,
    StorageProvider, Transaction,
    linear::{LinearStorageProvider, libc::FileManager, testing::Manager as MemManager},
};

use crate::policy::{DagAction, DagCmd, DagStore, Dump, Key, MsgSink, RecSink, SharedLog, dump_query};

pub type MemSP = LinearStorageProvider<MemManager>;
pub type FileSP = LinearStorageProvider<FileManager>;

// ------------------------------------------------------------ panics

thread_local! {
    static LAST_PANIC: std::cell::RefCell<Option<String>> = const { std::cell::RefCell::new(None) };
}

pub fn install_quiet_panic_hook() {
    std::panic::set_hook(Box::new(|info| {
        let msg = if let Some(s) = info.payload().downcast_ref::<&str>() {
            (*s).to_string()
        } else if let Some(s) = info.payload().downcast_ref::<String>() {
            s.clone()
        } else {
            "non-string panic".to_string()
        };
        let loc = info
            .location()
            .map(|l| format!("{}:{}", l.file().rsplit('/').next().unwrap_or(""), l.line()))
            .unwrap_or_default();
        if std::env::var_os("DAGSIM_LOUD").is_some() {
            eprintln!("PANIC {msg} @ {loc}\n{}", std::backtrace::Backtrace::force_capture());
        }
        LAST_PANIC.with(|p| *p.borrow_mut() = Some(format!("{msg} @ {loc}")));
    }));
}

/// Outcome of a guarded library call.
pub enum Guarded<T> {
    Done(T),
    Panicked(String),
}

pub fn guarded<T>(f: impl FnOnce() -> T) -> Guarded<T> {
    match catch_unwind(AssertUnwindSafe(f)) {
        Ok(v) => Guarded::Done(v),
        Err(_) => Guarded::Panicked(
            LAST_PANIC.with(|p| p.borrow_mut().take()).unwrap_or_else(|| "panic".into()),
        ),
    }
}

// ------------------------------------------------------------ spill

#[derive(Default)]
pub struct SpillFaults {
    /// Fail the spill operation with this index (counted per API call).
    pub fail_at: Cell<Option<u32>>,
    pub ops: Cell<u32>,
    pub fired: Cell<u32>,
}

pub struct FaultySpill {
    buf: Vec<u8>,
    faults: Rc<SpillFaults>,
}

impl FaultySpill {
    fn tick(&self) -> Result<(), StorageError> {
        let n = self.faults.ops.get();
        self.faults.ops.set(n + 1);
        if self.faults.fail_at.get() == Some(n) {
            self.faults.fired.set(self.faults.fired.get() + 1);
            return Err(StorageError::IoError);
        }
        Ok(())
    }
}

impl Spill for FaultySpill {
    fn write_at(&mut self, offset: usize, data: &[u8]) -> Result<(), StorageError> {
        self.tick()?;
        let end = offset + data.len();
        if end > self.buf.len() {
            self.buf.resize(end, 0);
        }
        self.buf[offset..end].copy_from_slice(data);
        Ok(())
    }
    fn read_at(&mut self, offset: usize, data: &mut [u8]) -> Result<(), StorageError> {
        self.tick()?;
        let src = self.buf.get(offset..offset + data.len()).ok_or(StorageError::IoError)?;
        data.copy_from_slice(src);
        Ok(())
    }
}

pub enum AnySpill {
    Mem(MemSpill),
    Faulty(FaultySpill),
    Libc(LibcSpill),
}

impl Spill for AnySpill {
    fn write_at(&mut self, offset: usize, data: &[u8]) -> Result<(), StorageError> {
        match self {
            AnySpill::Mem(s) => s.write_at(offset, data),
            AnySpill::Faulty(s) => s.write_at(offset, data),
            AnySpill::Libc(s) => s.write_at(offset, data),
        }
    }
    fn read_at(&mut self, offset: usize, data: &mut [u8]) -> Result<(), StorageError> {
        match self {
            AnySpill::Mem(s) => s.read_at(offset, data),
            AnySpill::Faulty(s) => s.read_at(offset, data),
            AnySpill::Libc(s) => s.read_at(offset, data),
        }
    }
}

#[derive(Clone)]
pub enum SpillKind {
    Mem,
    Faulty(Rc<SpillFaults>),
    /// Real `LibcSpill` in this (simulated) directory.
    Libc(String),
}

impl SpillKind {
    pub fn make(&self) -> Result<AnySpill, StorageError> {
        match self {
            SpillKind::Mem => Ok(AnySpill::Mem(MemSpill::new()?)),
            SpillKind::Faulty(f) => Ok(AnySpill::Faulty(FaultySpill { buf: Vec::new(), faults: Rc::clone(f) })),
            SpillKind::Libc(dir) => {
                let mut p = dir.clone().into_bytes();
                p.push(0);
                Ok(AnySpill::Libc(LibcSpill::new(aranya_libc::Path::new(&p))?))
            }
        }
    }
}

// ------------------------------------------------------------ replica

pub struct Trx<SP: StorageProvider> {
    pub trx: Transaction<SP, DagStore>,
    /// Replica commit counter when the transaction first read the heads.
    pub captured: Option<u64>,
    /// Commands accepted into this transaction.
    pub acc: BTreeSet<CmdId>,
    /// Addresses received from the peer (for `update_heads` after commit).
    pub received: Vec<Address>,
    pub peer: usize,
    /// A non-policy error happened: no property defines further use; must be abandoned.
    pub dead: bool,
    /// A command was refused at origin (policy rejection or unstorable after its rule ran) while
    /// this transaction was open: committing it is the situation C06 speaks about.
    pub had_rejection: bool,
}

pub struct Sess<SP: StorageProvider> {
    pub s: Session<SP, DagStore>,
    /// Model: committed facts at creation overlaid with the session's writes.
    pub model: crate::model::State,
    pub msgs: MsgSink,
}

pub struct Rep<SP: StorageProvider> {
    pub idx: usize,
    pub client: ClientState<DagStore, SP>,
    pub buffers: RuntimeBuffers<SP::Segment>,
    pub trxs: Vec<Option<Trx<SP>>>,
    pub sessions: Vec<Option<Sess<SP>>>,
    pub caches: BTreeMap<usize, PeerCache>,
    pub spill: SpillKind,
    // shadow
    pub has_graph: bool,
    pub committed: BTreeSet<CmdId>,
    pub counter: u64,
}

impl<SP: StorageProvider> Rep<SP> {
    pub fn new(idx: usize, provider: SP, log: SharedLog, spill: SpillKind) -> Self {
        Self {
            idx,
            client: ClientState::new(DagStore::new(log), provider),
            buffers: RuntimeBuffers::new(),
            trxs: Vec::new(),
            sessions: Vec::new(),
            caches: BTreeMap::new(),
            spill,
            has_graph: false,
            committed: BTreeSet::new(),
            counter: 0,
        }
    }

    pub fn new_graph(&mut self, action: DagAction, sink: &mut RecSink) -> Guarded<Result<GraphId, ClientError>> {
        guarded(|| self.client.new_graph(&[0u8; 8], action, sink))
    }

    pub fn heads(&mut self, gid: GraphId) -> Result<Vec<LocatedAddress>, StorageError> {
        let st = self.client.provider().get_storage(gid)?;
        Ok(st.get_heads()?.iter().collect())
    }

    pub fn fact_dump(&mut self, gid: GraphId, probe: &[Key]) -> Result<(Dump, bool), ()> {
        let st = self.client.provider().get_storage(gid).map_err(|_| ())?;
        let idx = st.fact_cache().map_err(|_| ())?;
        dump_query(&idx, probe)
    }

    pub fn locate(&mut self, gid: GraphId, addr: Address) -> Result<Option<Location>, StorageError> {
        let buf = &mut self.buffers.traversal.primary;
        let st = self.client.provider().get_storage(gid)?;
        st.get_location(addr, buf)
    }

    /// Id of the command stored at `loc`.
    pub fn id_at(&mut self, gid: GraphId, loc: Location) -> Result<Option<CmdId>, StorageError> {
        use aranya_runtime::Command as _;
        let st = self.client.provider().get_storage(gid)?;
        let seg = st.get_segment(loc)?;
        Ok(seg.get_command(loc).map(|c| c.id()))
    }

    pub fn is_ancestor(&mut self, gid: GraphId, a: Location, b: Location) -> Result<bool, StorageError> {
        let buf = &mut self.buffers.traversal.primary;
        let st = self.client.provider().get_storage(gid)?;
        st.is_ancestor(a, b, buf)
    }

    pub fn hello_head(&mut self, gid: GraphId) -> Guarded<Result<Address, ClientError>> {
        guarded(|| self.client.hello_head(gid))
    }

    pub fn should_sync(&mut self, gid: GraphId, head: Address) -> Guarded<Result<bool, ClientError>> {
        guarded(|| {
            let buf = &mut self.buffers.traversal.primary;
            self.client.should_sync_on_hello(gid, head, buf)
        })
    }

    pub fn action(&mut self, gid: GraphId, action: DagAction, sink: &mut RecSink) -> Guarded<Result<(), ClientError>> {
        let spill = self.spill.clone();
        guarded(|| self.client.action(gid, sink, action, &mut self.buffers, || spill.make()))
    }

    pub fn open_trx(&mut self, gid: GraphId, peer: usize) -> usize {
        let trx = self.client.transaction(gid);
        let t = Trx { trx, captured: None, acc: BTreeSet::new(), received: Vec::new(), peer, dead: false, had_rejection: false };
        if let Some(i) = self.trxs.iter().position(Option::is_none) {
            self.trxs[i] = Some(t);
            i
        } else {
            self.trxs.push(Some(t));
            self.trxs.len() - 1
        }
    }

    pub fn add(&mut self, slot: usize, cmds: &[DagCmd], sink: &mut RecSink) -> Guarded<Result<usize, ClientError>> {
        let spill = self.spill.clone();
        let mut t = self.trxs[slot].take().expect("open trx");
        let r = guarded(|| self.client.add_commands(&mut t.trx, sink, cmds, &mut self.buffers, || spill.make()));
        self.trxs[slot] = Some(t);
        r
    }

    pub fn flush(&mut self, gid: GraphId, slot: usize) -> Guarded<Result<(), ClientError>> {
        let mut t = self.trxs[slot].take().expect("open trx");
        let r = guarded(|| {
            let st = self.client.provider().get_storage(gid)?;
            t.trx.flush(st)
        });
        self.trxs[slot] = Some(t);
        r
    }

    /// Consumes the transaction. Returns it's shadow alongside the result.
    pub fn commit(&mut self, slot: usize, sink: &mut RecSink) -> (Guarded<Result<bool, ClientError>>, TrxShadow) {
        let spill = self.spill.clone();
        let t = self.trxs[slot].take().expect("open trx");
        let shadow = TrxShadow { captured: t.captured, acc: t.acc, received: t.received, peer: t.peer };
        let trx = t.trx;
        let r = guarded(|| self.client.commit(trx, sink, &mut self.buffers, || spill.make()));
        (r, shadow)
    }

    pub fn open_slots(&self) -> Vec<usize> {
        self.trxs.iter().enumerate().filter(|(_, t)| t.is_some()).map(|(i, _)| i).collect()
    }
}

pub struct TrxShadow {
    pub captured: Option<u64>,
    pub acc: BTreeSet<CmdId>,
    pub received: Vec<Address>,
    pub peer: usize,
}

pub enum AnyRep {
    Mem(Rep<MemSP>),
    File(Rep<FileSP>),
}

#[macro_export]
macro_rules! with_rep {
    ($any:expr, $r:ident => $body:expr) => {
        match $any {
            $crate::replica::AnyRep::Mem($r) => $body,
            $crate::replica::AnyRep::File($r) => $body,
        }
    };
}
