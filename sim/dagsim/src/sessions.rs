//! Ephemeral sessions (C14, C13): overlay semantics, failed operations, graph untouched.

use aranya_runtime::{Address, ClientError, CmdId, MaxCut, Prior};

use crate::{
    model::{State, state_dump},
    ops::{ExpEval, classify},
    policy::{ActCmd, DagAction, DagCmd, Eff, MsgSink, Place, RecSink, Wire, eval_op},
    replica::{Guarded, Sess, guarded},
    sim::Sim,
    with_rep,
};

impl Sim {
    fn sess_ok(&self, r: usize, s: usize) -> bool {
        r < self.reps.len() && !self.crashed[r] && with_rep!(&self.reps[r], rep => rep.sessions.get(s).is_some_and(Option::is_some))
    }

    pub fn step_sess_open(&mut self, r: usize) {
        let Some(gid) = self.gid else { return };
        if r >= self.reps.len() || self.crashed[r] || !self.has_graph(r) || self.dead {
            return;
        }
        let heads = self.model_heads(r);
        let Ok(base) = self.g.state_of_heads(&heads) else { return };
        let res = with_rep!(&mut self.reps[r], rep => {
            match guarded(|| rep.client.session(gid)) {
                Guarded::Done(Ok(s)) => {
                    rep.sessions.push(Some(Sess { s, model: base, msgs: MsgSink::default() }));
                    Ok(())
                }
                Guarded::Done(Err(e)) => Err(classify(&e)),
                Guarded::Panicked(m) => Err(format!("panic {m}")),
            }
        });
        match res {
            Ok(()) => self.stats.bump("sessions_opened"),
            Err(e) => self.anomaly(format!("session open failed: {e}")),
        }
    }

    pub fn step_sess_close(&mut self, r: usize, s: usize) {
        if self.sess_ok(r, s) {
            with_rep!(&mut self.reps[r], rep => { rep.sessions[s] = None; });
        }
    }

    fn session_parent(&self) -> Address {
        let gid = self.gid.expect("gid");
        Address { id: CmdId::from_bytes(*gid.as_array()), max_cut: MaxCut::new(0) }
    }

    /// Runs an empty action to observe the session's current view and compares it with the model.
    fn observe_session(&mut self, r: usize, s: usize, ctx: &str) {
        self.log.borrow_mut().actions.clear();
        let mut esink = RecSink::default();
        let res = with_rep!(&mut self.reps[r], rep => {
            let mut sess = rep.sessions[s].take().expect("session");
            let mut ms = MsgSink::default();
            let out = guarded(|| sess.s.action(&rep.client, &mut esink, &mut ms, DagAction { cmds: vec![], fail_at: None }));
            let model = sess.model.clone();
            rep.sessions[s] = Some(sess);
            (out, model)
        });
        let (out, model) = res;
        match out {
            Guarded::Panicked(m) => self.on_panic(Some("C14"), "session observe", m),
            Guarded::Done(Err(e)) => self.anomaly(format!("{ctx}: observe action failed {}", classify(&e))),
            Guarded::Done(Ok(())) => {
                let seen = self.log.borrow().actions.first().and_then(|a| a.seen_dump.clone());
                let want = state_dump(&model);
                match seen {
                    Some(d) if d == want => self.stats.bump("c14.observations"),
                    Some(d) => self.violation("C14", "C14.overlay", "session-overlay-mismatch", format!("{ctx}: session of r{r} observes {d:?}, model (committed facts + session writes) says {want:?}")),
                    None => self.violation("C14", "C14.query-error", "session-query-error", format!("{ctx}: session queries failed")),
                }
            }
        }
    }

    pub fn step_sess_act(&mut self, r: usize, s: usize, cmds: &[ActCmd], fail_at: Option<usize>) {
        if !self.sess_ok(r, s) || self.dead || cmds.is_empty() {
            return;
        }
        let before_graph = self.snapshot(r);
        let parent = self.session_parent();
        let model_before: State = with_rep!(&self.reps[r], rep => rep.sessions[s].as_ref().expect("s").model.clone());
        // Prediction.
        let mut st = model_before.clone();
        let mut exp = Vec::new();
        let mut effs: Vec<Eff> = Vec::new();
        let mut want_ok = true;
        let mut n_msgs = 0;
        for (i, c) in cmds.iter().enumerate() {
            if fail_at == Some(i) {
                want_ok = false;
                break;
            }
            let cmd = DagCmd::from_wire(&Wire { parent: Prior::Single(parent), prio: c.prio, op: c.op.clone(), nonce: c.nonce });
            let before = st.clone();
            let mut e = Vec::new();
            let ok = eval_op(cmd.id.as_array(), &c.op, &mut st, &mut |x| e.push(x));
            exp.push(ExpEval { id: cmd.id, place: Place::ActionOffGraph, before, accepted: ok });
            if !ok {
                want_ok = false;
                break;
            }
            effs.append(&mut e);
            n_msgs += 1;
        }
        if fail_at == Some(cmds.len()) {
            want_ok = false;
        }
        self.log.borrow_mut().evals.clear();
        self.log.borrow_mut().actions.clear();
        let mut esink = RecSink::default();
        let (out, produced) = with_rep!(&mut self.reps[r], rep => {
            let mut sess = rep.sessions[s].take().expect("session");
            let mut ms = std::mem::take(&mut sess.msgs);
            let committed_before = ms.committed.len();
            let out = guarded(|| sess.s.action(&rep.client, &mut esink, &mut ms, DagAction { cmds: cmds.to_vec(), fail_at }));
            let produced = ms.cur.len();
            if matches!(out, Guarded::Done(Ok(()))) {
                let mut cur = std::mem::take(&mut ms.cur);
                ms.committed.append(&mut cur);
            } else {
                ms.cur.clear();
            }
            let _ = committed_before;
            sess.msgs = ms;
            rep.sessions[s] = Some(sess);
            (out, produced)
        });
        let ctx = format!("session action r{r} s{s}");
        let out = match out {
            Guarded::Panicked(m) => {
                self.on_panic(Some("C14"), &ctx, m);
                return;
            }
            Guarded::Done(x) => x,
        };
        self.note(&format!("{ctx} -> {}", match &out { Ok(()) => "ok".into(), Err(e) => classify(e) }));
        let seen = self.log.borrow().actions.first().and_then(|a| a.seen_dump.clone());
        if let Some(d) = seen {
            if d != state_dump(&model_before) {
                self.violation("C14", "C14.overlay", "session-overlay-mismatch", format!("{ctx}: action observed {d:?}, model says {:?}", state_dump(&model_before)));
            }
        }
        match (out, want_ok) {
            (Ok(()), true) => {
                with_rep!(&mut self.reps[r], rep => { rep.sessions[s].as_mut().expect("s").model = st; });
                self.verify_evals(r, &ctx, &exp, true);
                self.verify_sink(&ctx, &esink, Some(&effs), None, "C14");
                if produced != n_msgs {
                    self.violation("C14", "C14.messages", "session-messages", format!("{ctx}: {produced} messages produced, {n_msgs} commands published"));
                }
                self.stats.bump("c14.actions_ok");
            }
            (Err(e), false) => {
                self.stats.bump("c14.actions_failed");
                let _ = e;
                let (committed, _, dangling) = esink.settle();
                if !committed.is_empty() || !dangling.is_empty() {
                    self.violation("C14", "C14.failed-effects", "session-failed-effects", format!("{ctx}: failed action committed {} effects", committed.len()));
                }
                if produced != 0 {
                    self.violation("C14", "C14.failed-messages", "session-failed-messages", format!("{ctx}: failed action left {produced} emitted messages"));
                }
                self.verify_evals(r, &ctx, &exp, false);
            }
            (got, want) => {
                let gs = match &got { Ok(()) => "Ok".into(), Err(e) => classify(e) };
                if matches!(got, Err(ClientError::Bug(_))) {
                    self.anomaly(format!("{ctx}: {gs}"));
                } else {
                    self.violation("C14", "C14.action-outcome", "session-action-outcome", format!("{ctx}: returned {gs}, model expects success={want}"));
                }
                self.dead = true;
                return;
            }
        }
        self.observe_session(r, s, &ctx);
        let after_graph = self.snapshot(r);
        if after_graph != before_graph {
            self.violation("C14", "C14.graph-changed", "session-changed-graph", format!("{ctx}: the graph's heads/facts changed {before_graph:?} -> {after_graph:?}"));
        }
    }

    pub fn step_sess_recv(&mut self, r: usize, s: usize, from_r: usize, from_s: usize, m: usize, garble: Option<u32>) {
        if !self.sess_ok(r, s) || !self.sess_ok(from_r, from_s) || self.dead {
            return;
        }
        let msgs: Vec<Vec<u8>> = with_rep!(&self.reps[from_r], rep => rep.sessions[from_s].as_ref().expect("s").msgs.committed.clone());
        if msgs.is_empty() {
            return;
        }
        let mut bytes = msgs[m % msgs.len()].clone();
        if let Some(g) = garble {
            match g % 3 {
                0 => bytes.truncate(g as usize % (bytes.len() + 1)),
                1 => {
                    let i = 32 + (g as usize % bytes.len().saturating_sub(32).max(1));
                    if i < bytes.len() {
                        bytes[i] ^= 0x21;
                    }
                }
                _ => bytes.push(g as u8),
            }
            self.stats.bump("fault.session_garble");
        }
        let before_graph = self.snapshot(r);
        let model_before: State = with_rep!(&self.reps[r], rep => rep.sessions[s].as_ref().expect("s").model.clone());
        // Prediction.
        #[derive(Debug, PartialEq)]
        enum Want {
            Deser,
            Unparsable,
            Rejected,
            Ok,
        }
        let mut st = model_before.clone();
        let mut exp = Vec::new();
        let mut effs = Vec::new();
        let want = if bytes.len() < 32 {
            Want::Deser
        } else {
            let id = CmdId::from_bytes(bytes[..32].try_into().expect("32"));
            match crate::policy::parse_wire(&bytes[32..]) {
                None => Want::Unparsable,
                Some(w) => {
                    let before = st.clone();
                    let ok = eval_op(id.as_array(), &w.op, &mut st, &mut |x| effs.push(x));
                    exp.push(ExpEval { id, place: Place::OffGraph, before, accepted: ok });
                    if ok { Want::Ok } else { Want::Rejected }
                }
            }
        };
        self.log.borrow_mut().evals.clear();
        let mut esink = RecSink::default();
        let out = with_rep!(&mut self.reps[r], rep => {
            let mut sess = rep.sessions[s].take().expect("session");
            let out = guarded(|| sess.s.receive(&rep.client, &mut esink, &bytes));
            rep.sessions[s] = Some(sess);
            out
        });
        let ctx = format!("session receive r{r} s{s}");
        let out = match out {
            Guarded::Panicked(m) => {
                self.on_panic(Some("C14"), &ctx, m);
                return;
            }
            Guarded::Done(x) => x,
        };
        self.note(&format!("{ctx} -> {}", match &out { Ok(()) => "ok".into(), Err(e) => classify(e) }));
        match (&out, &want) {
            (Ok(()), Want::Ok) => {
                with_rep!(&mut self.reps[r], rep => { rep.sessions[s].as_mut().expect("s").model = st; });
                self.verify_evals(r, &ctx, &exp, true);
                self.verify_sink(&ctx, &esink, Some(&effs), None, "C14");
                self.stats.bump("c14.receives_ok");
            }
            (Err(_), Want::Deser | Want::Unparsable | Want::Rejected) => {
                self.stats.bump("c14.receives_failed");
                let (committed, _, dangling) = esink.settle();
                if !committed.is_empty() || !dangling.is_empty() {
                    self.violation("C14", "C14.failed-effects", "session-failed-effects", format!("{ctx}: failed receive committed {} effects", committed.len()));
                }
                self.log.borrow_mut().evals.clear();
            }
            (got, want) => {
                let gs = match got { Ok(()) => "Ok".into(), Err(e) => classify(e) };
                self.violation("C14", "C14.receive-outcome", "session-receive-outcome", format!("{ctx}: returned {gs}, model expects {want:?}"));
                self.dead = true;
                return;
            }
        }
        self.observe_session(r, s, &ctx);
        let after_graph = self.snapshot(r);
        if after_graph != before_graph {
            self.violation("C14", "C14.graph-changed", "session-changed-graph", format!("{ctx}: the graph's heads/facts changed"));
        }
    }
}
