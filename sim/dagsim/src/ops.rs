//! Step handlers for actions, crafted ingest, transactions; prediction by the model and
//! comparison with what the runtime did.

use std::collections::BTreeSet;

use aranya_runtime::{Address, ClientError, CmdId, GraphId, MaxCut, PolicyError, Prior, StorageError};

use crate::{
    model::{State, Validity, state_dump},
    oracles::short,
    policy::{ActCmd, DagAction, DagCmd, Eff, Op, Place, RecSink, SinkEv, WPrio, Wire},
    replica::Guarded,
    sim::{Found, CraftItem, ItemKind, Sel, Sim},
    with_rep,
};

#[derive(Clone, Debug)]
pub struct ExpEval {
    pub id: CmdId,
    pub place: Place,
    pub before: State,
    pub accepted: bool,
}

#[derive(Clone, Debug, PartialEq, Eq)]
pub enum ExpErr {
    Init,
    NoSuchParent(CmdId),
    Rejected,
    ParallelFinalize,
    Unparsable,
    /// Parent named by the right id but a wrong max cut: must be refused (with whatever error)
    /// and leave no trace; which error depends on whether the parent heads the open perspective.
    BadParentCut,
}

pub struct AddPrediction {
    pub evals: Vec<ExpEval>,
    pub accepted: Vec<CmdId>,
    pub count: usize,
    pub err: Option<ExpErr>,
    pub creates_graph: bool,
    /// Effects that must end up committed / rolled back.
    pub eff_committed: Vec<Eff>,
    pub rejected_cmd: Option<CmdId>,
}

pub fn classify(e: &ClientError) -> String {
    match e {
        ClientError::NoSuchParent(_) => "NoSuchParent".into(),
        ClientError::PolicyError(PolicyError::Rejected) => "Rejected".into(),
        ClientError::PolicyError(PolicyError::Read) => "PolicyRead".into(),
        ClientError::PolicyError(PolicyError::Panic) => "PolicyPanic".into(),
        ClientError::PolicyError(p) => format!("Policy({p})"),
        ClientError::StorageError(StorageError::EmptyPerspective) => "EmptyPerspective".into(),
        ClientError::StorageError(StorageError::IoError) => "IoError".into(),
        ClientError::StorageError(s) => format!("Storage({s})"),
        ClientError::InitError => "InitError".into(),
        ClientError::ParallelFinalize => "ParallelFinalize".into(),
        ClientError::ConcurrentTransaction => "ConcurrentTransaction".into(),
        ClientError::Bug(b) => format!("Bug({b})"),
        other => format!("Other({other})"),
    }
}

fn exp_name(e: &ExpErr) -> &'static str {
    match e {
        ExpErr::Init => "InitError",
        ExpErr::NoSuchParent(_) => "NoSuchParent",
        ExpErr::Rejected => "Rejected",
        ExpErr::ParallelFinalize => "ParallelFinalize",
        ExpErr::Unparsable => "PolicyRead",
        ExpErr::BadParentCut => "<any error>",
    }
}

impl Sim {
    pub fn view(&self, r: usize, t: Option<usize>) -> BTreeSet<CmdId> {
        with_rep!(&self.reps[r], rep => {
            let mut v = rep.committed.clone();
            if let Some(t) = t {
                if let Some(Some(trx)) = rep.trxs.get(t) {
                    v.extend(trx.acc.iter().copied());
                }
            }
            v
        })
    }

    pub fn resolve(&self, sel: &Sel, r: usize, view: &BTreeSet<CmdId>, prev: Option<CmdId>) -> Option<CmdId> {
        if view.is_empty() {
            return None;
        }
        let pick = |v: &Vec<CmdId>, k: u32| -> Option<CmdId> {
            if v.is_empty() { None } else { Some(v[k as usize % v.len()]) }
        };
        match sel {
            Sel::Present(k) => pick(&view.iter().copied().collect(), *k),
            Sel::Tip(k) => pick(&self.g.frontier(view), *k),
            Sel::Head(k) => pick(&self.g.frontier(self.committed(r)), *k),
            Sel::Prev => prev.or_else(|| pick(&self.g.frontier(view), 0)),
            Sel::LastRejected => self.last_rejected[r].or_else(|| pick(&self.g.frontier(view), 0)),
        }
    }

    pub fn make_cmd(&mut self, parent: Address, c: &ActCmd) -> DagCmd {
        DagCmd::from_wire(&Wire { parent: Prior::Single(parent), prio: c.prio, op: c.op.clone(), nonce: c.nonce })
    }

    /// Turn crafted items into commands (registering well-formed ones in the model).
    pub fn build_items(&mut self, r: usize, t: Option<usize>, items: &[CraftItem]) -> Vec<DagCmd> {
        let mut view = self.view(r, t);
        let mut out = Vec::new();
        let mut prev: Option<CmdId> = None;
        for it in items {
            let cmd: Option<DagCmd> = match &it.kind {
                ItemKind::Cmd(c) => {
                    let p = self.resolve(&it.parent, r, &view, prev).or(self.init_id);
                    p.map(|p| {
                        let a = if self.g.nodes.contains_key(&p) { self.addr(&p) } else { Address { id: p, max_cut: MaxCut::new(0) } };
                        self.make_cmd(a, c)
                    })
                }
                ItemKind::CmdBadCut(c, delta) => {
                    let p = self.resolve(&it.parent, r, &view, prev).filter(|p| self.g.nodes.contains_key(p));
                    p.map(|p| {
                        let mut a = self.addr(&p);
                        let mc = a.max_cut.get() as i64 + i64::from(if *delta == 0 { 1 } else { *delta });
                        a.max_cut = MaxCut::new(mc.max(0) as u64 + u64::from(mc.max(0) as u64 == a.max_cut.get()));
                        self.make_cmd(a, c)
                    })
                }
                ItemKind::Merge(s2) => {
                    let l = self.resolve(&it.parent, r, &view, prev);
                    let rr = self.resolve(s2, r, &view, prev);
                    match (l, rr) {
                        (Some(l), Some(rr))
                            if l != rr
                                && self.g.validity(&l) == Validity::Ok
                                && self.g.validity(&rr) == Validity::Ok
                                && !self.g.is_ancestor(&l, &rr)
                                && !self.g.is_ancestor(&rr, &l) =>
                        {
                            Some(crate::policy::merge_cmd(self.addr(&l), self.addr(&rr)))
                        }
                        _ => None,
                    }
                }
                ItemKind::DupInit => self.init_id.map(|i| self.g.node(&i).cmd.clone()),
                ItemKind::ForeignInit => {
                    let n = self.fresh_nonce();
                    Some(DagCmd::from_wire(&Wire { parent: Prior::None, prio: WPrio::Init, op: Op::Init, nonce: 0xF0F0_0000 + n }))
                }
                ItemKind::PolicylessInit => self.init_id.map(|i| {
                    let mut c = self.g.node(&i).cmd.clone();
                    c.policy = None;
                    c
                }),
                ItemKind::Dup(s) => self.resolve(s, r, &view, prev).map(|i| self.g.node(&i).cmd.clone()),
            };
            if let Some(c) = cmd {
                if !matches!(it.kind, ItemKind::PolicylessInit | ItemKind::CmdBadCut(..)) {
                    self.g.add(&c);
                }
                prev = Some(c.id);
                // Later selectors in the batch may refer to it; whether it is really accepted is
                // decided by `predict_add`.
                if self.g.nodes.contains_key(&c.id) && self.g.validity(&c.id) == Validity::Ok {
                    view.insert(c.id);
                }
                out.push(c);
            }
        }
        out
    }

    /// Model of `add_commands` (DESIGN C06/C10): what must happen for this batch.
    pub fn predict_add(&mut self, r: usize, t: usize, gid: GraphId, cmds: &[DagCmd]) -> AddPrediction {
        let mut p = AddPrediction { evals: vec![], accepted: vec![], count: 0, err: None, creates_graph: false, eff_committed: vec![], rejected_cmd: None };
        let mut view = self.view(r, Some(t));
        let mut it = cmds.iter();
        if !self.has_graph(r) {
            let Some(first) = it.next() else {
                p.err = Some(ExpErr::Init);
                return p;
            };
            let ok_shape = first.id.as_bytes() == gid.as_bytes() && matches!(first.parent, Prior::None) && first.policy.is_some();
            if !ok_shape {
                p.err = Some(ExpErr::Init);
                return p;
            }
            if first.wire().is_none() {
                p.err = Some(ExpErr::Unparsable);
                return p;
            }
            self.g.add(first);
            p.evals.push(ExpEval { id: first.id, place: Place::Origin, before: State::new(), accepted: true });
            p.eff_committed.extend(self.g.origin_effects(&first.id));
            p.accepted.push(first.id);
            p.count += 1;
            p.creates_graph = true;
            view.insert(first.id);
        }
        for c in it {
            if view.contains(&c.id) {
                continue;
            }
            match c.parent {
                Prior::None => {
                    if c.id.as_bytes() == gid.as_bytes() {
                        continue;
                    }
                    p.err = Some(ExpErr::Init);
                    return p;
                }
                Prior::Single(pa) => {
                    if !view.contains(&pa.id) {
                        p.err = Some(ExpErr::NoSuchParent(pa.id));
                        return p;
                    }
                    if self.g.nodes.get(&pa.id).is_some_and(|n| n.max_cut != pa.max_cut.get()) {
                        p.err = Some(ExpErr::BadParentCut);
                        p.rejected_cmd = Some(c.id);
                        return p;
                    }
                    if c.wire().is_none() {
                        p.err = Some(ExpErr::Unparsable);
                        return p;
                    }
                    self.g.add(c);
                    let before = (*self.g.sigma(&pa.id)).clone();
                    match self.g.validity(&c.id) {
                        Validity::Ok => {
                            p.evals.push(ExpEval { id: c.id, place: Place::Origin, before, accepted: true });
                            p.eff_committed.extend(self.g.origin_effects(&c.id));
                            p.accepted.push(c.id);
                            p.count += 1;
                            view.insert(c.id);
                        }
                        _ => {
                            p.evals.push(ExpEval { id: c.id, place: Place::Origin, before, accepted: false });
                            p.err = Some(ExpErr::Rejected);
                            p.rejected_cmd = Some(c.id);
                            return p;
                        }
                    }
                }
                Prior::Merge(l, rr) => {
                    if !view.contains(&l.id) {
                        p.err = Some(ExpErr::NoSuchParent(l.id));
                        return p;
                    }
                    if !view.contains(&rr.id) {
                        p.err = Some(ExpErr::NoSuchParent(rr.id));
                        return p;
                    }
                    self.g.add(c);
                    match self.g.eval_braid(&[l.id, rr.id]) {
                        Ok(ev) => {
                            for (id, before, ok) in ev.steps {
                                p.evals.push(ExpEval { id, place: Place::Braid, before, accepted: ok });
                            }
                            p.eff_committed.extend(ev.effects);
                            p.accepted.push(c.id);
                            p.count += 1;
                            view.insert(c.id);
                        }
                        Err(_) => {
                            self.pf_seen = true;
                            p.err = Some(ExpErr::ParallelFinalize);
                            return p;
                        }
                    }
                }
            }
        }
        p
    }

    /// Compare the policy's evaluation log with the model's expectation (C02 C03 C12).
    pub fn verify_evals(&mut self, r: usize, ctx: &str, expected: &[ExpEval], strict_len: bool) {
        let evals: Vec<_> = std::mem::take(&mut self.log.borrow_mut().evals);
        for e in &evals {
            if e.is_merge {
                self.violation("C02", "C02.merge-evaluated", "merge-evaluated", format!("{ctx}: the policy was asked to evaluate merge command {}", short(&e.id)));
            }
            if !e.dump_consistent {
                self.violation("C12", "C12.query-consistency", "prefix-vs-exact-perspective", format!("{ctx}: perspective handed to {} returned unordered prefix results or exact/prefix disagreement", short(&e.id)));
            }
        }
        if self.dead {
            return;
        }
        let got_ids: Vec<(CmdId, Place)> = evals.iter().map(|e| (e.id, e.place)).collect();
        let want_ids: Vec<(CmdId, Place)> = expected.iter().map(|e| (e.id, e.place)).collect();
        let n = got_ids.len().min(want_ids.len());
        if got_ids[..n] != want_ids[..n] || (strict_len && got_ids.len() != want_ids.len()) {
            let braidy = want_ids.iter().chain(got_ids.iter()).any(|(_, p)| *p == Place::Braid);
            let prop = if braidy { "C02" } else { "C06" };
            self.violation(
                prop,
                &format!("{prop}.eval-sequence"),
                "eval-sequence",
                format!(
                    "{ctx}: replica {r} evaluated {:?} but the reference says {:?}",
                    got_ids.iter().map(|(i, p)| format!("{}:{p:?}", short(i))).collect::<Vec<_>>(),
                    want_ids.iter().map(|(i, p)| format!("{}:{p:?}", short(i))).collect::<Vec<_>>()
                ),
            );
            return;
        }
        for (g, w) in evals.iter().zip(expected.iter()) {
            if g.storage_err {
                continue;
            }
            if g.accepted != w.accepted {
                self.violation("C03", "C03.eval-outcome", "eval-outcome", format!("{ctx}: {} at {:?} accepted={} but model says {}", short(&g.id), g.place, g.accepted, w.accepted));
                return;
            }
            if let Some(d) = &g.dump {
                let want = state_dump(&w.before);
                if *d != want {
                    let prop = if g.place == Place::Braid { "C03" } else { "C12" };
                    self.violation(
                        prop,
                        &format!("{prop}.perspective"),
                        "perspective-mismatch",
                        format!("{ctx}: perspective handed to {} ({:?}) was {d:?}, model says {want:?}", short(&g.id), g.place),
                    );
                    return;
                }
                self.stats.bump("perspective_dumps_checked");
            }
        }
    }

    /// Effects: everything consumed must be settled; committed effects equal the expectation
    /// when `exact`, and never contain effects of `rejected`.
    pub fn verify_sink(&mut self, ctx: &str, sink: &RecSink, want_committed: Option<&[Eff]>, rejected: Option<CmdId>, prop: &str) {
        let (committed, _rolled, dangling) = sink.settle();
        if !dangling.is_empty() {
            self.violation(prop, &format!("{prop}.effects-unsettled"), "effects-unsettled", format!("{ctx}: {} effects neither committed nor rolled back", dangling.len()));
        }
        if let Some(rj) = rejected {
            if committed.iter().any(|e| e.id == *rj.as_array()) {
                self.violation("C06", "C06.effects-committed", "rejected-effects-committed", format!("{ctx}: effects of rejected command {} were committed", short(&rj)));
            }
        }
        if let Some(w) = want_committed {
            if committed != w {
                self.violation(prop, &format!("{prop}.effects"), "effects-mismatch", format!("{ctx}: committed effects {:?} != expected {:?}", committed.iter().map(|e| (vcommon::hex(&e.id[..3]), e.tag)).collect::<Vec<_>>(), w.iter().map(|e| (vcommon::hex(&e.id[..3]), e.tag)).collect::<Vec<_>>()));
            }
        }
        let _ = SinkEv::Begin;
    }

    // ------------------------------------------------------------------ add_commands

    /// Feed `cmds` to transaction `t` of replica `r`; compares with the prediction. Returns the
    /// number of newly accepted commands.
    pub fn do_add(&mut self, r: usize, t: usize, cmds: &[DagCmd], ctx: &str, clean_session: bool) -> usize {
        let Some(gid) = self.gid else { return 0 };
        if self.dead {
            return 0;
        }
        if std::env::var_os("DAGSIM_DEBUG").is_some() {
            let view = self.view(r, Some(t));
            for c in cmds {
                let a = c.address();
                let loc = if self.has_graph(r) { with_rep!(&mut self.reps[r], rep => rep.locate(gid, a)).ok().flatten() } else { None };
                let ps: Vec<String> = match c.parent { Prior::None => vec![], Prior::Single(p) => vec![short(&p.id)], Prior::Merge(l, rr) => vec![short(&l.id), short(&rr.id)] };
                eprintln!("DEBUG {ctx}: cmd {} parents {:?} mc {} in_view {} in_committed {} real_locate {:?} stale {:?}", short(&c.id), ps, a.max_cut, view.contains(&c.id), self.committed(r).contains(&c.id), loc, with_rep!(&self.reps[r], rep => rep.trxs[t].as_ref().map(|x| (x.captured, rep.counter))));
            }
            let heads = with_rep!(&mut self.reps[r], rep => rep.heads(gid)).ok();
            eprintln!("DEBUG heads {:?}", heads.map(|h| h.iter().map(|x| (short(&x.id), x.max_cut.get(), x.segment.get())).collect::<Vec<_>>()));
        }
        // A transaction that has gone stale (another commit happened on this replica after it
        // first read the heads) can only ever fail its commit with ConcurrentTransaction (C08,
        // checked in `step_commit`). What `add_commands` does on it in the meantime is defined by
        // no property: it may hold private copies of commands that were committed since, and the
        // runtime looks commands up in the *current* committed graph. It is still driven (and
        // must not panic the harness), but its outcome is not compared with the model.
        let stale = with_rep!(&self.reps[r], rep => rep.trxs[t].as_ref().is_some_and(|x| x.captured.is_some_and(|c| c != rep.counter)));
        if stale {
            let mut sink = RecSink::default();
            aranya_runtime::verif::set_fuel(self.cfg.fuel);
            let res = with_rep!(&mut self.reps[r], rep => rep.add(t, cmds, &mut sink));
            aranya_runtime::verif::set_fuel(u64::MAX);
            self.log.borrow_mut().evals.clear();
            self.stats.bump("stale_trx_adds");
            for s in &mut self.sess {
                if s.a == r && s.trx == t {
                    s.clean = false;
                }
            }
            match res {
                Guarded::Done(x) => self.note(&format!("add r{r} t{t} (stale) -> {}", match &x { Ok(n) => format!("ok{n}"), Err(e) => classify(e) })),
                Guarded::Panicked(m) => {
                    if self.fs_hard(r) || m.starts_with(crate::simfs::CRASH_PANIC) {
                        self.on_panic(None, &format!("{ctx}: add_commands on stale transaction"), m);
                    } else {
                        self.anomaly(format!("{ctx}: add_commands on a stale transaction panicked: {m}"));
                        self.mark_dead_trx(r, t);
                    }
                }
            }
            return 0;
        }
        let view_before = self.view(r, Some(t));
        // A command that carries the id of a known command but differs from it (a transport
        // mutation that swapped ids, parents or priorities between commands) is a forgery. The
        // policy of this engine authenticates nothing (that is C35, engine authsim), so no property
        // claimed here defines what happens to it, and the model - which knows commands by id -
        // cannot follow it. The batch is still driven (a panic is still caught), the transaction
        // is then retired and never committed, so model and replica stay in step.
        let forged = cmds.iter().any(|c| {
            !view_before.contains(&c.id)
                && self.g.nodes.get(&c.id).is_some_and(|n| {
                    let k = &n.cmd;
                    k.parent != c.parent || k.priority != c.priority || k.bytes != c.bytes || k.policy != c.policy
                })
        });
        if forged {
            let mut sink = RecSink::default();
            aranya_runtime::verif::set_fuel(self.cfg.fuel);
            let res = with_rep!(&mut self.reps[r], rep => rep.add(t, cmds, &mut sink));
            aranya_runtime::verif::set_fuel(u64::MAX);
            self.log.borrow_mut().evals.clear();
            self.stats.bump("forged_id_batches");
            match res {
                Guarded::Done(x) => self.note(&format!("add r{r} t{t} (forged id) -> {}", match &x { Ok(n) => format!("ok{n}"), Err(e) => classify(e) })),
                Guarded::Panicked(m) => {
                    if self.fs_hard(r) || m.starts_with(crate::simfs::CRASH_PANIC) {
                        self.on_panic(None, &format!("{ctx}: add_commands with a forged id"), m);
                        return 0;
                    }
                    self.anomaly(format!("{ctx}: add_commands on a batch with a forged id panicked: {m}"));
                }
            }
            if !self.has_graph(r) {
                // The graph may or may not have been created from this batch; the run cannot go on.
                if with_rep!(&mut self.reps[r], rep => rep.heads(gid)).is_ok() {
                    self.dead = true;
                }
            }
            self.mark_dead_trx(r, t);
            return 0;
        }
        let pred = self.predict_add(r, t, gid, cmds);
        let had_graph = self.has_graph(r);
        let counter = with_rep!(&self.reps[r], rep => rep.counter);
        self.log.borrow_mut().evals.clear();
        let mut sink = RecSink::default();
        aranya_runtime::verif::set_fuel(self.cfg.fuel);
        if pred.creates_graph {
            self.fs_attempt(r, pred.accepted.iter().take(1).copied().collect());
        }
        let res = with_rep!(&mut self.reps[r], rep => rep.add(t, cmds, &mut sink));
        aranya_runtime::verif::set_fuel(u64::MAX);
        if pred.creates_graph {
            let created = matches!(&res, Guarded::Done(r) if !matches!(r, Err(ClientError::StorageError(_)) | Err(ClientError::InitError)));
            self.fs_done(r, created);
        }
        if self.fs_hard(r) && matches!(res, Guarded::Done(Err(_))) {
            self.stats.bump("fault.disk_error_failed_call");
            self.mark_dead_trx(r, t);
            return 0;
        }
        let res = match res {
            Guarded::Done(x) => x,
            Guarded::Panicked(m) => {
                // Which property owns the step: a batch containing a merge is a braid (C02).
                // Where the model says the call must be refused because of concurrent finalize commands,
                // a panic instead of that refusal is C05's to report.
                let owner = if matches!(pred.err, Some(ExpErr::ParallelFinalize)) {
                    Some("C05")
                } else if cmds.iter().any(|c| matches!(c.parent, Prior::Merge(..))) {
                    Some("C02")
                } else {
                    None
                };
                self.on_panic(owner, &format!("{ctx}: add_commands"), m);
                return 0;
            }
        };
        self.note(&format!("add r{r} t{t} n={} -> {}", cmds.len(), match &res { Ok(n) => format!("ok{n}"), Err(e) => classify(e) }));
        // Shadow: the heads are read (stamp captured) whenever the graph exists or is created.
        let graph_now = had_graph || pred.creates_graph && !matches!(res, Err(ClientError::InitError));
        match (&res, &pred.err) {
            (Ok(n), None) => {
                if *n > pred.count {
                    self.violation("C09", "C09.duplicate-readded", "duplicate-command-readded", format!("{ctx}: add_commands stored {n} commands, but only {} of the batch were not already held by this transaction/graph", pred.count));
                    self.mark_dead_trx(r, t);
                    return 0;
                } else if *n != pred.count {
                    self.violation("C06", "C06.count", "add-count", format!("{ctx}: add_commands returned {n}, model says {} new commands", pred.count));
                }
            }
            (Err(_), Some(ExpErr::BadParentCut)) => {
                self.stats.bump("bad_parent_cut_refused");
            }
            (Err(e), Some(x)) if classify(e) == exp_name(x) => {
                if clean_session && matches!(x, ExpErr::NoSuchParent(_)) {
                    // C17: within an undisturbed session commands arrive parents-first, so the
                    // requester can add all of them in order. The refusal itself is right (the
                    // parent really is missing); sending the command was wrong.
                    if let ExpErr::NoSuchParent(want) = x {
                        self.violation("C17", "C17.parents-first", "sync-missing-parent", format!("{ctx}: an undisturbed session delivered a command whose parent {} the requester neither held nor had received earlier", short(want)));
                    }
                }
                if let (ClientError::NoSuchParent(got), ExpErr::NoSuchParent(want)) = (e, x) {
                    if got != want {
                        self.anomaly(format!("{ctx}: NoSuchParent names {} model expected {}", short(got), short(want)));
                    }
                }
            }
            (got, want) => {
                let gs = match got { Ok(n) => format!("Ok({n})"), Err(e) => classify(e) };
                let ws = match want { None => format!("Ok({})", pred.count), Some(x) => exp_name(x).to_string() };
                // Attribute to the property that defines this outcome.
                let dup_readded = matches!(got, Ok(n) if *n > pred.count) && want.is_none();
                let (prop, sig) = match (want, got) {
                    _ if dup_readded => ("C09", "duplicate-command-readded"),
                    (_, Err(ClientError::StorageError(StorageError::EmptyPerspective))) if self.last_rejected[r].is_some() => ("C06", "empty-perspective-after-rejection"),
                    (Some(ExpErr::ParallelFinalize), _) | (_, Err(ClientError::ParallelFinalize)) => ("C05", "parallel-finalize-decision"),
                    (Some(ExpErr::Init), _) | (_, Err(ClientError::InitError)) => ("C10", "init-decision"),
                    (Some(ExpErr::NoSuchParent(_)), _) if cmds.iter().any(|c| matches!(c.parent, Prior::Single(a) if Some(a.id) == self.last_rejected[r])) => ("C06", "child-of-rejected"),
                    (Some(ExpErr::NoSuchParent(_)), _) | (_, Err(ClientError::NoSuchParent(_))) => {
                        if clean_session { ("C17", "sync-missing-parent") } else { ("C06", "missing-parent-decision") }
                    }
                    (Some(ExpErr::Rejected), _) | (_, Err(ClientError::PolicyError(PolicyError::Rejected))) => ("C06", "rejection-decision"),
                    (None, Err(ClientError::StorageError(StorageError::EmptyPerspective))) => ("C06", "empty-perspective-after-rejection"),
                    (None, Err(ClientError::Bug(_))) => ("", "bug"),
                    _ => ("C06", "add-outcome"),
                };
                if prop.is_empty() {
                    self.anomaly(format!("{ctx}: add_commands returned {gs}, model says {ws}"));
                    self.mark_dead_trx(r, t);
                } else {
                    self.violation(prop, &format!("{prop}.add-outcome"), sig, format!("{ctx}: add_commands returned {gs}, model says {ws}"));
                }
                self.mark_dead_trx(r, t);
                if graph_now && !had_graph {
                    self.dead = true;
                }
                return 0;
            }
        }
        // Outcome class agrees with the model: update the shadow.
        if pred.creates_graph {
            with_rep!(&mut self.reps[r], rep => {
                rep.has_graph = true;
                rep.committed.insert(pred.accepted[0]);
                rep.counter += 1;
            });
            self.history_hash[r] = vcommon::fnv(&[&self.history_hash[r].to_le_bytes()[..], b"create"].concat());
        }
        let accepted_here: Vec<CmdId> = if pred.creates_graph { pred.accepted[1..].to_vec() } else { pred.accepted.clone() };
        let new_counter = with_rep!(&self.reps[r], rep => rep.counter);
        let _ = counter;
        with_rep!(&mut self.reps[r], rep => {
            if rep.has_graph {
                if let Some(Some(trx)) = rep.trxs.get_mut(t) {
                    if trx.captured.is_none() {
                        trx.captured = Some(new_counter);
                    }
                    trx.acc.extend(accepted_here.iter().copied());
                }
            }
        });
        let mut hh = self.history_hash[r].to_le_bytes().to_vec();
        for id in &accepted_here {
            hh.extend_from_slice(&id.as_bytes()[..8]);
        }
        hh.push(b'|');
        self.history_hash[r] = vcommon::fnv(&hh);
        match &pred.err {
            Some(ExpErr::Rejected) => {
                with_rep!(&mut self.reps[r], rep => {
                    if let Some(Some(trx)) = rep.trxs.get_mut(t) {
                        trx.had_rejection = true;
                    }
                });
                self.last_rejected[r] = pred.rejected_cmd;
                self.stats.bump("rejected_at_origin");
                if !pred.accepted.is_empty() || with_rep!(&self.reps[r], rep => rep.trxs[t].as_ref().is_some_and(|x| !x.acc.is_empty())) {
                    self.stats.bump("rejected_with_accepted_in_trx");
                }
            }
            Some(ExpErr::ParallelFinalize) => {
                self.stats.bump("parallel_finalize_on_merge");
                // The transaction stays in use: what it accepted before still commits (C06).
            }
            Some(ExpErr::Init) => {
                self.stats.bump("init_error");
                if !had_graph && !pred.creates_graph {
                    // No storage may have been created.
                    if let Ok(h) = with_rep!(&mut self.reps[r], rep => rep.heads(gid)) {
                        self.violation("C10", "C10.graph-created", "graph-created-from-bad-init", format!("{ctx}: InitError was returned but a graph with {} heads exists", h.len()));
                    }
                }
            }
            Some(ExpErr::NoSuchParent(_)) => self.stats.bump("no_such_parent"),
            Some(ExpErr::Unparsable) => {}
            Some(ExpErr::BadParentCut) => {
                with_rep!(&mut self.reps[r], rep => {
                    if let Some(Some(trx)) = rep.trxs.get_mut(t) {
                        trx.had_rejection = true;
                    }
                });
                // The rule may or may not have been evaluated before the refusal; either way its
                // effects must be rolled back and nothing of it may stay (later state checks).
                self.log.borrow_mut().evals.retain(|e| Some(e.id) != pred.rejected_cmd);
                if !pred.accepted.is_empty() || with_rep!(&self.reps[r], rep => rep.trxs[t].as_ref().is_some_and(|x| !x.acc.is_empty())) {
                    self.stats.bump("rejected_with_accepted_in_trx");
                }
            }
            None => {}
        }
        {
            let evals = self.log.borrow().evals.clone();
            if let Some(e) = evals.iter().find(|e| e.place == Place::Origin && view_before.contains(&e.id)) {
                self.violation("C09", "C09.duplicate-readded", "duplicate-command-readded", format!("{ctx}: command {} was already held by this transaction/graph but was evaluated and stored again", short(&e.id)));
                self.mark_dead_trx(r, t);
                self.log.borrow_mut().evals.clear();
                return accepted_here.len();
            }
        }
        self.verify_evals(r, ctx, &pred.evals, true);
        self.verify_sink(ctx, &sink, Some(&pred.eff_committed), pred.rejected_cmd, "C06");
        if pred.creates_graph {
            self.check_committed(r, ctx);
        }
        accepted_here.len()
    }

    pub fn mark_dead_trx(&mut self, r: usize, t: usize) {
        with_rep!(&mut self.reps[r], rep => {
            if let Some(Some(trx)) = rep.trxs.get_mut(t) {
                trx.dead = true;
            }
        });
        for s in &mut self.sess {
            if s.a == r && s.trx == t {
                s.clean = false;
                s.closed = true;
            }
        }
    }

    pub fn trx_ok(&self, r: usize, t: usize) -> bool {
        if r >= self.reps.len() || self.crashed[r] {
            return false;
        }
        with_rep!(&self.reps[r], rep => rep.trxs.get(t).is_some_and(|x| x.as_ref().is_some_and(|x| !x.dead)))
    }

    pub fn trx_exists(&self, r: usize, t: usize) -> bool {
        if r >= self.reps.len() || self.crashed[r] {
            return false;
        }
        with_rep!(&self.reps[r], rep => rep.trxs.get(t).is_some_and(Option::is_some))
    }

    // ------------------------------------------------------------------ steps

    pub fn step_craft(&mut self, r: usize, t: Option<usize>, items: &[CraftItem]) {
        let Some(gid) = self.gid else { return };
        if r >= self.reps.len() || self.crashed[r] {
            return;
        }
        let t = match t {
            Some(t) if self.trx_ok(r, t) => t,
            Some(_) => return,
            None => with_rep!(&mut self.reps[r], rep => rep.open_trx(gid, usize::MAX)),
        };
        let cmds = self.build_items(r, Some(t), items);
        if cmds.is_empty() {
            return;
        }
        self.stats.bump("craft_batches");
        self.do_add(r, t, &cmds, &format!("craft r{r} t{t}"), false);
    }

    pub fn step_flush(&mut self, r: usize, t: usize) {
        let Some(gid) = self.gid else { return };
        if !self.trx_ok(r, t) || !self.has_graph(r) {
            return;
        }
        match with_rep!(&mut self.reps[r], rep => rep.flush(gid, t)) {
            Guarded::Done(Ok(())) => self.note("flush ok"),
            Guarded::Done(Err(e)) => {
                let had_rejection = self.last_rejected[r].is_some();
                let c = classify(&e);
                if c == "EmptyPerspective" && had_rejection {
                    self.violation("C06", "C06.flush-after-rejection", "empty-perspective-after-rejection", format!("flush r{r} t{t} failed with {c} after a rejected command; accepted commands cannot be committed"));
                } else {
                    self.anomaly(format!("flush r{r} t{t} failed: {c}"));
                }
                self.mark_dead_trx(r, t);
            }
            Guarded::Panicked(m) => self.on_panic(None, "flush", m),
        }
        self.history_hash[r] = vcommon::fnv(&[&self.history_hash[r].to_le_bytes()[..], b"flush"].concat());
    }

    pub fn step_abandon(&mut self, r: usize, t: usize) {
        if !self.trx_exists(r, t) {
            return;
        }
        with_rep!(&mut self.reps[r], rep => { rep.trxs[t] = None; });
        for s in &mut self.sess {
            if s.a == r && s.trx == t {
                s.closed = true;
                s.clean = false;
            }
        }
        self.stats.bump("abandoned_trx");
        self.note(&format!("abandon r{r} t{t}"));
    }

    pub fn snapshot(&mut self, r: usize) -> Option<(Vec<(CmdId, u64)>, u64)> {
        let gid = self.gid?;
        let probe = self.probe_keys.clone();
        let heads = with_rep!(&mut self.reps[r], rep => rep.heads(gid)).ok()?;
        let dump = with_rep!(&mut self.reps[r], rep => rep.fact_dump(gid, &probe)).ok()?;
        Some((heads.iter().map(|h| (h.id, h.max_cut.get())).collect(), crate::oracles::dump_hash(&dump.0)))
    }

    /// Commit of a transaction. When the transaction had refused a command at origin, everything
    /// the state oracles find at this commit is also a trace of that command (C06: the committed
    /// state must be what it would be had the command never been presented - which is exactly
    /// what the model, which never applies it, predicts).
    pub fn step_commit(&mut self, r: usize, t: usize, spill_fault: Option<u32>, per_addr: bool) {
        let had_rejection = self.trx_exists(r, t) && with_rep!(&self.reps[r], rep => rep.trxs[t].as_ref().is_some_and(|x| x.had_rejection && !x.dead));
        let before = self.found.len();
        self.step_commit_inner(r, t, spill_fault, per_addr);
        if had_rejection && self.found.len() > before {
            let extra: Vec<Found> = self.found[before..]
                .iter()
                .filter(|f| f.property != "C06")
                .map(|f| Found {
                    property: "C06".into(),
                    class: format!("C06.trace/{}", f.class),
                    sig: format!("rejected-command-left-trace:{}", f.sig),
                    detail: format!("commit of a transaction that had refused a command at origin; the model, which never applies that command, predicts otherwise: {}", f.detail),
                    step: f.step,
                })
                .collect();
            self.found.extend(extra);
        }
    }

    fn step_commit_inner(&mut self, r: usize, t: usize, spill_fault: Option<u32>, per_addr: bool) {
        let Some(gid) = self.gid else { return };
        if !self.trx_exists(r, t) {
            return;
        }
        if !self.trx_ok(r, t) {
            // Dead transaction: the only defined thing to do is drop it.
            self.step_abandon(r, t);
            return;
        }
        let has_graph = self.has_graph(r);
        let before = if has_graph { self.snapshot(r) } else { None };
        let (captured, acc, counter) = with_rep!(&self.reps[r], rep => {
            let x = rep.trxs[t].as_ref().expect("exists");
            (x.captured, x.acc.clone(), rep.counter)
        });
        // Prediction.
        let mut new_set = self.committed(r).clone();
        new_set.extend(acc.iter().copied());
        let new_heads = self.g.frontier(&new_set);
        #[derive(Debug, PartialEq)]
        enum Want {
            Nothing,
            Concurrent,
            ParallelFinalize,
            Commit,
        }
        let mut exp_evals = Vec::new();
        let want = if captured.is_none() || !has_graph {
            Want::Nothing
        } else if captured != Some(counter) {
            Want::Concurrent
        } else if new_heads.len() > 1 {
            match self.g.eval_braid(&new_heads) {
                Ok(ev) => {
                    for (id, before, ok) in ev.steps {
                        exp_evals.push(ExpEval { id, place: Place::Braid, before, accepted: ok });
                    }
                    Want::Commit
                }
                Err(_) => {
                    self.pf_seen = true;
                    Want::ParallelFinalize
                }
            }
        } else {
            Want::Commit
        };
        let sf = &self.spill_faults[r];
        sf.ops.set(0);
        sf.fail_at.set(spill_fault);
        let fired_before = sf.fired.get();
        self.log.borrow_mut().evals.clear();
        let mut sink = RecSink::default();
        aranya_runtime::verif::set_fuel(self.cfg.fuel);
        self.fs_attempt(r, new_set.clone());
        let (res, shadow) = with_rep!(&mut self.reps[r], rep => rep.commit(t, &mut sink));
        aranya_runtime::verif::set_fuel(u64::MAX);
        self.fs_done(r, matches!(res, Guarded::Done(Ok(true))));
        let hard = self.fs_hard(r);
        let sf = &self.spill_faults[r];
        sf.fail_at.set(None);
        let spill_fired = sf.fired.get() > fired_before;
        for s in &mut self.sess {
            if s.a == r && s.trx == t {
                s.closed = true;
            }
        }
        let res = match res {
            Guarded::Done(x) => x,
            Guarded::Panicked(m) => {
                // A commit the model expects to be refused with ParallelFinalize and that panics instead
                // is C05's to report.
                self.on_panic(Some(if want == Want::ParallelFinalize { "C05" } else if new_heads.len() > 1 { "C02" } else { "C08" }), "commit", m);
                return;
            }
        };
        let ctx = format!("commit r{r} t{t}");
        self.note(&format!("{ctx} -> {}", match &res { Ok(b) => format!("ok{b}"), Err(e) => classify(e) }));
        let mut hh = self.history_hash[r].to_le_bytes().to_vec();
        hh.extend_from_slice(b"commit");
        self.history_hash[r] = vcommon::fnv(&hh);
        let unchanged = |sim: &mut Sim, why: &str, prop: &str| {
            if let Some(b) = &before {
                let after = sim.snapshot(r);
                if after.as_ref() != Some(b) {
                    sim.violation(prop, &format!("{prop}.failed-commit-changed-state"), "failed-commit-changed-state", format!("{ctx}: {why}, but committed heads/facts changed: {b:?} -> {after:?}"));
                }
            }
        };
        match (res, want) {
            (Ok(false), Want::Nothing) => {
                unchanged(self, "commit returned Ok(false)", "C08");
            }
            (Err(ClientError::StorageError(StorageError::NoSuchStorage)), Want::Nothing) if !has_graph => {
                // The replica has no such graph: nothing to commit into, no property defines more.
            }
            (Ok(true), Want::Commit) => {
                if spill_fired {
                    self.stats.bump("fault.spill_error_survived");
                }
                with_rep!(&mut self.reps[r], rep => {
                    rep.committed.extend(acc.iter().copied());
                    rep.counter += 1;
                });
                self.stats.bump("commits");
                if new_heads.len() > 1 {
                    self.stats.bump("multi_head_commits");
                }
                self.verify_evals(r, &ctx, &exp_evals, true);
                self.verify_sink(&ctx, &sink, None, None, "C08");
                self.check_committed(r, &ctx);
                self.after_commit_cache(r, shadow.peer, &shadow.received, per_addr);
            }
            (Ok(false), Want::Commit) if acc.is_empty() => {
                // Nothing to add and nothing changed is also fine.
                unchanged(self, "empty commit returned Ok(false)", "C08");
            }
            (Err(ClientError::ConcurrentTransaction), Want::Concurrent) => {
                self.stats.bump("concurrent_transaction");
                unchanged(self, "ConcurrentTransaction", "C08");
            }
            (Err(ClientError::ParallelFinalize), Want::ParallelFinalize) => {
                self.stats.bump("parallel_finalize_on_commit");
                unchanged(self, "ParallelFinalize", "C05");
            }
            (Err(e), _) if spill_fired => {
                // Narrow relaxation: the injected spill error may fail the call, nothing else.
                self.stats.bump("fault.spill_error_failed_call");
                unchanged(self, &format!("injected spill error ({})", classify(&e)), "C02");
            }
            (Err(_), _) if hard => {
                // Injected disk error: the call may fail; the replica is restarted and must
                // recover a committed state (checked in `step_restart`).
                self.stats.bump("fault.disk_error_failed_call");
                self.after_failed_io(r, &ctx, &before, "C08");
            }
            (Err(e), Want::Commit) if classify(&e) == "EmptyPerspective" && self.last_rejected[r].is_some() => {
                self.violation("C06", "C06.accepted-not-committed", "empty-perspective-after-rejection", format!("{ctx}: commit failed with EmptyPerspective after a rejected command; {} accepted commands are lost", acc.len()));
            }
            (got, want) => {
                let gs = match &got { Ok(b) => format!("Ok({b})"), Err(e) => classify(e) };
                let prop = match (&got, &want) {
                    (Err(ClientError::ParallelFinalize), _) | (_, Want::ParallelFinalize) => "C05",
                    (Err(ClientError::Bug(_)), _) => "",
                    _ => "C08",
                };
                if prop.is_empty() {
                    self.anomaly(format!("{ctx}: returned {gs}, model wants {want:?}"));
                    self.dead = true;
                } else {
                    self.violation(prop, &format!("{prop}.commit-outcome"), "commit-outcome", format!("{ctx}: returned {gs}, model wants {want:?} (captured {captured:?}, counter {counter}, accepted {})", acc.len()));
                    self.dead = true;
                }
            }
        }
    }

    pub fn step_act(&mut self, r: usize, cmds: &[ActCmd], fail_at: Option<usize>, spill_fault: Option<u32>) {
        if r >= self.reps.len() || self.crashed[r] || self.dead {
            return;
        }
        let Some(gid) = self.gid else {
            // First action creates the graph.
            self.create_graph(r, cmds);
            return;
        };
        if !self.has_graph(r) {
            return;
        }
        let before = self.snapshot(r);
        let heads = self.model_heads(r);
        let hello_before = with_rep!(&mut self.reps[r], rep => rep.hello_head(gid));
        // Prediction: collapse, then evaluate the published commands at origin.
        let mut exp = Vec::new();
        let mut merges = Vec::new();
        let mut head = heads[0];
        if heads.len() > 1 {
            merges = self.g.collapse(&heads);
            for m in &merges {
                let (l, rr) = match self.g.node(m).parent {
                    Prior::Merge(l, rr) => (l, rr),
                    _ => unreachable!(),
                };
                match self.g.eval_braid(&[l, rr]) {
                    Ok(ev) => {
                        for (id, before, ok) in ev.steps {
                            exp.push(ExpEval { id, place: Place::Braid, before, accepted: ok });
                        }
                    }
                    Err(_) => {
                        self.anomaly("collapse of committed heads hits parallel finalize".into());
                        return;
                    }
                }
            }
            head = *merges.last().expect("merges");
        }
        let collapsed_head = self.addr(&head);
        let mut published: Vec<CmdId> = Vec::new();
        let mut eff = Vec::new();
        let mut want_ok = true;
        let mut parent = collapsed_head;
        for (i, c) in cmds.iter().enumerate() {
            if fail_at == Some(i) {
                want_ok = false;
                break;
            }
            let cmd = self.make_cmd(parent, c);
            self.g.add(&cmd);
            let before = (*self.g.sigma(&parent.id)).clone();
            let ok = self.g.validity(&cmd.id) == Validity::Ok;
            exp.push(ExpEval { id: cmd.id, place: Place::ActionOnGraph, before, accepted: ok });
            if !ok {
                want_ok = false;
                break;
            }
            eff.extend(self.g.origin_effects(&cmd.id));
            published.push(cmd.id);
            parent = cmd.address();
        }
        if fail_at == Some(cmds.len()) {
            want_ok = false;
        }
        if cmds.is_empty() {
            // An action that publishes nothing cannot be written (empty perspective).
            return;
        }
        let sf = &self.spill_faults[r];
        sf.ops.set(0);
        sf.fail_at.set(spill_fault);
        let fired_before = sf.fired.get();
        self.log.borrow_mut().evals.clear();
        self.log.borrow_mut().actions.clear();
        let mut sink = RecSink::default();
        aranya_runtime::verif::set_fuel(self.cfg.fuel);
        {
            let mut would_be = self.committed(r).clone();
            would_be.extend(merges.iter().copied());
            would_be.extend(published.iter().copied());
            self.fs_attempt(r, would_be);
        }
        let res = with_rep!(&mut self.reps[r], rep => rep.action(gid, DagAction { cmds: cmds.to_vec(), fail_at }, &mut sink));
        aranya_runtime::verif::set_fuel(u64::MAX);
        self.fs_done(r, matches!(res, Guarded::Done(Ok(()))));
        let hard = self.fs_hard(r);
        let sf = &self.spill_faults[r];
        sf.fail_at.set(None);
        let spill_fired = sf.fired.get() > fired_before;
        let ctx = format!("action r{r} ({} heads, {} cmds, fail_at {fail_at:?})", heads.len(), cmds.len());
        let res = match res {
            Guarded::Done(x) => x,
            Guarded::Panicked(m) => {
                self.on_panic(Some("C07"), &ctx, m);
                return;
            }
        };
        self.note(&format!("{ctx} -> {}", match &res { Ok(()) => "ok".to_string(), Err(e) => classify(e) }));
        let act = self.log.borrow().actions.first().cloned();
        // C04: what the action saw.
        if let Some(a) = &act {
            if a.seen_head != Prior::Single(collapsed_head) {
                self.violation("C04", "C04.collapsed-head", "collapsed-head", format!("{ctx}: action was handed head {:?}, expected {}@{}", a.seen_head, short(&collapsed_head.id), collapsed_head.max_cut));
            }
            if heads.len() > 1 {
                self.stats.bump("multi_head_actions");
                if let Guarded::Done(Ok(h)) = &hello_before {
                    if Prior::Single(*h) != a.seen_head {
                        self.violation("C04", "C04.hello-vs-collapse", "hello-vs-collapse", format!("{ctx}: hello_head advertised {}@{} but the collapse wrote {:?}", short(&h.id), h.max_cut, a.seen_head));
                    }
                }
                if let (Some(seen), Some(st)) = (&a.seen_dump, self.g.state_of_heads(&heads).ok()) {
                    if *seen != state_dump(&st) {
                        self.violation("C04", "C04.query-vs-action", "query-vs-action-state", format!("{ctx}: action observed {seen:?} but queries on the multi-head graph see {:?}", state_dump(&st)));
                    }
                }
                // The collapse emits no effects: nothing may be consumed before the first
                // action-origin effect; checked through the exact effect list below.
            }
        } else if spill_fired {
        } else if res.is_ok() {
            self.anomaly(format!("{ctx}: action succeeded but call_action was never invoked"));
        }
        let unchanged = |sim: &mut Sim, why: &str| {
            let after = sim.snapshot(r);
            if after != before {
                sim.violation("C07", "C07.failed-action-changed-state", "failed-action-changed-state", format!("{ctx}: {why}, but heads/facts changed {before:?} -> {after:?}"));
            }
            let (committed, _, dangling) = sink.settle();
            if !committed.is_empty() || !dangling.is_empty() {
                sim.violation("C07", "C07.failed-action-effects", "failed-action-effects", format!("{ctx}: {why}, but {} effects were committed and {} left unsettled", committed.len(), dangling.len()));
            }
        };
        match (res, want_ok) {
            (Ok(()), true) => {
                with_rep!(&mut self.reps[r], rep => {
                    rep.committed.extend(merges.iter().copied());
                    rep.committed.extend(published.iter().copied());
                    rep.counter += 1;
                });
                let mut hh = self.history_hash[r].to_le_bytes().to_vec();
                for id in &published {
                    hh.extend_from_slice(&id.as_bytes()[..8]);
                }
                hh.extend_from_slice(b"act");
                self.history_hash[r] = vcommon::fnv(&hh);
                self.stats.bump("actions_ok");
                if let Some(a) = &act {
                    let got: Vec<CmdId> = a.published.iter().map(|c| c.id).collect();
                    if got != published {
                        self.violation("C07", "C07.published", "published-mismatch", format!("{ctx}: published {:?} expected {:?}", got.iter().map(short).collect::<Vec<_>>(), published.iter().map(short).collect::<Vec<_>>()));
                    }
                }
                self.verify_evals(r, &ctx, &exp, true);
                self.verify_sink(&ctx, &sink, Some(&eff), None, "C07");
                // One new head descending from every previous head.
                let nh = self.model_heads(r);
                if nh.len() != 1 || !heads.iter().all(|h| self.g.is_ancestor(h, &nh[0])) {
                    self.violation("C07", "C07.single-head", "single-head", format!("{ctx}: model expects one head above all previous heads"));
                }
                self.check_committed(r, &ctx);
            }
            (Err(e), false) => {
                self.stats.bump("actions_failed");
                if heads.len() > 1 && !published.is_empty() {
                    self.stats.bump("actions_failed_multihead_after_publish");
                }
                unchanged(self, &format!("action failed ({})", classify(&e)));
                // Nothing observable changed, including the commit stamp other transactions see:
                // the counter is not advanced.
                self.verify_evals(r, &ctx, &exp, false);
            }
            (Err(e), true) if spill_fired => {
                self.stats.bump("fault.spill_error_failed_call");
                unchanged(self, &format!("injected spill error ({})", classify(&e)));
            }
            (Err(_), _) if hard => {
                self.stats.bump("fault.disk_error_failed_call");
                // A failed action commits no effects, whatever made it fail.
                // (When storage fails after the policy succeeded the runtime returns without
                // telling the sink anything: the effects stay unsettled, which the statement
                // allows - it only forbids committing them. Counted, not asserted.)
                let (committed, _, dangling) = sink.settle();
                if !committed.is_empty() {
                    self.violation("C07", "C07.failed-action-effects", "failed-action-effects", format!("{ctx}: the action failed with an injected disk error, but {} effects were committed", committed.len()));
                }
                if !dangling.is_empty() {
                    self.stats.bump("failed_io_action_effects_left_unsettled");
                }
                self.after_failed_io(r, &ctx, &before, "C07");
            }
            (Ok(()), false) => {
                self.violation("C07", "C07.action-outcome", "action-should-fail", format!("{ctx}: action succeeded although command evaluation fails in the model"));
                self.dead = true;
            }
            (Err(e), true) => {
                if matches!(e, ClientError::Bug(_)) {
                    self.anomaly(format!("{ctx}: {}", classify(&e)));
                } else {
                    self.violation("C07", "C07.action-outcome", "action-should-succeed", format!("{ctx}: action failed with {} although the model accepts it", classify(&e)));
                }
                self.dead = true;
            }
        }
    }

    /// Creates the graph. `extra` commands are published by the same action after the init
    /// command (the graph id must still be the id of the init command, C10).
    pub fn create_graph(&mut self, r: usize, extra: &[ActCmd]) {
        let n = self.fresh_nonce();
        let mut cmds = vec![ActCmd { op: Op::Init, prio: WPrio::Init, nonce: 0xA000 + n }];
        // Only commands that cannot be rejected on the state after init.
        cmds.extend(extra.iter().filter(|c| !matches!(c.op, Op::Guard { .. } | Op::Poison { .. })).cloned());
        let n_cmds = cmds.len();
        let mut sink = RecSink::default();
        self.log.borrow_mut().actions.clear();
        self.log.borrow_mut().evals.clear();
        let res = with_rep!(&mut self.reps[r], rep => rep.new_graph(DagAction { cmds, fail_at: None }, &mut sink));
        if self.fs_hard(r) && matches!(res, Guarded::Done(Err(_))) {
            self.stats.bump("fault.disk_error_failed_call");
            return;
        }
        match res {
            Guarded::Done(Ok(gid)) => {
                let act = self.log.borrow().actions.first().cloned().expect("init action ran");
                let init = act.published[0].clone();
                if gid.as_bytes() != init.id.as_bytes() {
                    self.violation("C10", "C10.graph-id", "graph-id-not-init-id", format!("new_graph returned {gid} but the init command is {} ({} commands were published by the creating action)", init.id, act.published.len()));
                }
                if act.published.len() != n_cmds {
                    self.anomaly(format!("new_graph published {} of {n_cmds} commands", act.published.len()));
                }
                if n_cmds > 1 {
                    self.stats.bump("graph_created_with_extra_commands");
                }
                self.g.add(&init);
                let _ = self.g.validity(&init.id);
                self.gid = Some(gid);
                self.init_id = Some(init.id);
                for c in &act.published[1..] {
                    self.g.add(c);
                    let _ = self.g.validity(&c.id);
                }
                let all: Vec<CmdId> = act.published.iter().map(|c| c.id).collect();
                with_rep!(&mut self.reps[r], rep => {
                    rep.has_graph = true;
                    rep.committed.extend(all.iter().copied());
                    rep.counter += 1;
                });
                self.fs_done(r, true);
                self.log.borrow_mut().evals.clear();
                self.check_committed(r, "new_graph");
            }
            Guarded::Done(Err(e)) => {
                self.anomaly(format!("new_graph failed: {}", classify(&e)));
                self.dead = true;
            }
            Guarded::Panicked(m) => self.on_panic(None, "new_graph", m),
        }
    }
}
