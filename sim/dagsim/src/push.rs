//! Subscription and push: the second way commands travel between replicas (C17, C18, C20).
//!
//! A subscriber sends `Subscribe` with a sample of what it holds; the publisher records the
//! sample in its peer cache and later *pushes*: a fresh `SyncResponder`, `start_session` with the
//! cache heads, one `push` message. The receiver decodes it with `SyncIncoming::decode`, hands it to
//! a `SyncRequester` created for the announced session (`receive_push`), adds the commands in a
//! transaction, commits and updates its own cache. This is the calling convention of the
//! repository's TCP syncer; every byte passes through the simulated network.

use std::{cell::Cell, collections::BTreeSet};

use aranya_crypto::Csprng as _;
use aranya_runtime::{
    Address, CmdId, Command as _, MAX_SYNC_MESSAGE_SIZE, PeerCache, Prior, SyncError, SyncIncoming, SyncRequester,
    SyncResponder,
};

use crate::{
    oracles::short,
    policy::DagCmd,
    replica::{Guarded, guarded},
    sim::{NetFault, Sim, take_cache},
    sync::SimCsprng,
    wire_mirror::{self, ResponseMsg, SyncType},
    with_rep,
};

fn sid128(sid: u64) -> u128 {
    let mut b = [0u8; 16];
    SimCsprng(Cell::new(sid)).fill_bytes(&mut b);
    u128::from_le_bytes(b)
}

/// What the receiver of a push saw.
enum PushSeen {
    NotPush(String),
    Refused(String),
    Control,
    Commands { cmds: Vec<DagCmd>, in_bounds: bool },
}

impl Sim {
    /// `a` subscribes at `b`: the message carries a sample of what `a` holds; `b` records it.
    pub fn step_subscribe(&mut self, a: usize, b: usize, sid: u64, fault: &NetFault) {
        let Some(gid) = self.gid else { return };
        let n = self.reps.len();
        if a >= n || b >= n || a == b || self.crashed[a] || self.crashed[b] || self.dead {
            return;
        }
        let mut requester = SyncRequester::new(gid, SimCsprng(Cell::new(sid)));
        let mut target = vec![0u8; MAX_SYNC_MESSAGE_SIZE];
        let (remain_open, max_bytes) = (sid % 1000, sid.rotate_left(17) % 100_000);
        aranya_runtime::verif::set_fuel(self.cfg.fuel);
        let res = with_rep!(&mut self.reps[a], rep => {
            let cache = take_cache(&mut rep.caches, b);
            let r = guarded(|| {
                let heads = cache.session_heads();
                requester.subscribe(&mut target, rep.client.provider(), &heads, remain_open, max_bytes, &mut rep.buffers.traversal.primary)
            });
            rep.caches.insert(b, cache);
            r
        });
        aranya_runtime::verif::set_fuel(u64::MAX);
        let len = match res {
            Guarded::Done(Ok(len)) => len,
            Guarded::Done(Err(e)) => {
                if self.fs_hard(a) {
                    self.stats.bump("fault.disk_error_failed_call");
                } else {
                    self.anomaly(format!("requester.subscribe failed: {e}"));
                }
                return;
            }
            Guarded::Panicked(m) => {
                self.on_panic(Some("C16"), "requester.subscribe", m);
                return;
            }
        };
        self.stats.bump("subscribe.sent");
        let mut bytes = target[..len].to_vec();
        // What was sent (wire mirror): the sample must consist of commands the subscriber holds.
        let sample: Vec<Address> = match wire_mirror::decode_sync_type(&bytes) {
            Some((SyncType::Subscribe { commands, .. }, _)) => commands,
            _ => Vec::new(),
        };
        let sample_truthful = sample.iter().all(|x| self.committed(a).contains(&x.id));
        if !sample_truthful {
            self.stats.bump("subscribe.sample_not_committed");
        }
        let mut pristine = true;
        match fault {
            NetFault::None | NetFault::Misdeliver { .. } => {}
            NetFault::Drop => {
                self.stats.bump("fault.drop");
                self.note("subscribe dropped");
                return;
            }
            NetFault::Dup => self.stats.bump("fault.dup"),
            NetFault::Corrupt { kind, a: x, b: y } => {
                self.stats.bump(&format!("fault.corrupt.{kind}"));
                crate::netfault::corrupt(&mut bytes, *kind, *x, *y, &self.g);
                pristine = false;
            }
        }
        let rounds = if matches!(fault, NetFault::Dup) { 2 } else { 1 };
        for _ in 0..rounds {
            // Receiver side: decode, and if it is a subscription record the advertised heads.
            let decoded = guarded(|| match SyncIncoming::decode(&bytes) {
                Ok(SyncIncoming::Subscribe(sub)) => Ok((sub.graph_id(), sub.remain_open(), sub.max_bytes(), sub.heads().iter().collect::<Vec<Address>>())),
                Ok(SyncIncoming::Poll(p)) => Err(format!("poll:{:x}", p.session_id() & 0xff)),
                Ok(SyncIncoming::Unsubscribe(u)) => Err(format!("unsubscribe:{}", u.graph_id() == gid)),
                Ok(SyncIncoming::Push(p)) => Err(format!("push:{}", p.graph_id() == gid)),
                Ok(SyncIncoming::Hello(_)) => Err("hello".to_string()),
                Err(e) => Err(format!("decode-err:{e}").chars().take(24).collect()),
            });
            let (g2, ro, mb, heads) = match decoded {
                Guarded::Panicked(m) => {
                    self.on_panic(Some("C18"), "SyncIncoming::decode (subscribe)", format!("{m}; bytes={}", vcommon::hex(&bytes)));
                    return;
                }
                Guarded::Done(Err(what)) => {
                    self.stats.bump(&format!("recv.subscribe.{}", what.split(':').next().unwrap_or("")));
                    if pristine {
                        // No property defines this outcome (C18 only forbids panics and out-of-bounds
                        // reads): counted as an anomaly, not reported.
                        self.anomaly(format!("an untouched subscribe message of r{a} was not decoded as a subscription by r{b}: {what}"));
                    }
                    self.note(&format!("subscribe a{a} b{b} -> {what}"));
                    return;
                }
                Guarded::Done(Ok(x)) => x,
            };
            self.stats.bump("recv.subscribe.ok");
            if pristine && (g2 != gid || ro.as_secs() != remain_open && ro.as_millis() as u64 != remain_open && ro.as_nanos() as u64 != remain_open || mb != max_bytes || heads != sample) {
                self.stats.bump("subscribe.fields_differ");
            }
            if g2 != gid || !self.has_graph(b) {
                continue;
            }
            // Record the advertised heads. Only a truthful, untouched sample may go into the cache
            // the sessions use (see `step_cache_add`); anything else is applied to a copy.
            let truthful = pristine && sample_truthful;
            let stash = if truthful {
                None
            } else {
                Some(with_rep!(&mut self.reps[b], rep => {
                    let old = take_cache(&mut rep.caches, a);
                    let mut copy = PeerCache::new();
                    if let Ok(st) = aranya_runtime::StorageProvider::get_storage(rep.client.provider(), gid) {
                        for h in old.heads() {
                            let _ = copy.add_command(st, h.address(), &mut rep.buffers.traversal.primary);
                        }
                    }
                    rep.caches.insert(a, copy);
                    old
                }))
            };
            aranya_runtime::verif::set_fuel(self.cfg.fuel);
            let res = with_rep!(&mut self.reps[b], rep => {
                let mut cache = take_cache(&mut rep.caches, a);
                let out = guarded(|| rep.client.update_heads(gid, heads.iter().copied(), &mut cache, &mut rep.buffers.traversal.primary));
                rep.caches.insert(a, cache);
                out
            });
            aranya_runtime::verif::set_fuel(u64::MAX);
            match res {
                Guarded::Panicked(m) => self.on_panic(Some("C20"), "update_heads (subscribe)", m),
                Guarded::Done(Err(e)) => {
                    if self.fs_hard(b) {
                        self.stats.bump("fault.disk_error_failed_call");
                    } else {
                        self.anomaly(format!("update_heads (subscribe): {}", crate::ops::classify(&e)));
                    }
                }
                Guarded::Done(Ok(())) => {
                    self.stats.bump("subscribe.recorded");
                    self.check_cache(b, a, "subscribe");
                }
            }
            if let Some(old) = stash {
                with_rep!(&mut self.reps[b], rep => { rep.caches.insert(a, old); });
            }
            if self.dead {
                return;
            }
        }
        self.note(&format!("subscribe a{a} b{b} sample{} pristine{pristine}", sample.len()));
    }

    /// `b` pushes to `a` what, by its cache, `a` lacks; `a` ingests, commits and updates its cache.
    /// `mode`: 0 = the receiver creates its requester from the announced session id (what the TCP
    /// syncer does); 1 = the receiver expects another session; 2 = the receiver is handed the same
    /// push a second time on the same requester.
    pub fn step_push(&mut self, b: usize, a: usize, sid: u64, buf: Option<usize>, fault: &NetFault, mode: u8) {
        let Some(gid) = self.gid else { return };
        let n = self.reps.len();
        if a >= n || b >= n || a == b || self.crashed[b] || !self.has_graph(b) || self.dead {
            return;
        }
        let sid_b = sid128(sid);
        let cache_heads: Vec<Address> = with_rep!(&self.reps[b], rep => rep.caches.get(&a).map(|c| c.heads().iter().map(|h| h.address()).collect()).unwrap_or_default());
        let cap = buf.unwrap_or(MAX_SYNC_MESSAGE_SIZE).min(MAX_SYNC_MESSAGE_SIZE);
        let mut target = vec![0u8; cap];
        let mut responder = SyncResponder::new();
        if let Err(e) = responder.start_session(sid_b, gid, 0, cache_heads.iter().copied()) {
            self.anomaly(format!("start_session failed: {e}"));
            return;
        }
        aranya_runtime::verif::set_fuel(self.cfg.fuel);
        let mut res = with_rep!(&mut self.reps[b], rep => guarded(|| responder.push(&mut target, rep.client.provider(), &mut rep.buffers.traversal)));
        let mut retried = false;
        if let Guarded::Done(Err(SyncError::BufferTooSmall | SyncError::Serialize(_))) = &res {
            if buf.is_some() {
                // Retry with a full buffer on the same responder: nothing may be lost.
                self.stats.bump("fault.buffer_too_small");
                retried = true;
                target = vec![0u8; MAX_SYNC_MESSAGE_SIZE];
                res = with_rep!(&mut self.reps[b], rep => guarded(|| responder.push(&mut target, rep.client.provider(), &mut rep.buffers.traversal)));
            }
        }
        aranya_runtime::verif::set_fuel(u64::MAX);
        let len = match res {
            Guarded::Panicked(m) => {
                self.on_panic(Some("C17"), "responder.push", m);
                return;
            }
            Guarded::Done(Err(e)) => {
                if self.fs_hard(b) {
                    self.stats.bump("fault.disk_error_failed_call");
                } else {
                    self.anomaly(format!("responder.push error: {e}"));
                }
                return;
            }
            Guarded::Done(Ok(len)) => len,
        };
        self.stats.bump("push.attempts");
        let have: BTreeSet<CmdId> = self.g.closure(&cache_heads.iter().map(|x| x.id).filter(|i| self.g.nodes.contains_key(i)).collect::<Vec<_>>());
        let lacking = self.committed(b).iter().filter(|c| !have.contains(*c)).count();
        if len == 0 {
            self.stats.bump(if lacking == 0 { "push.nothing_to_send" } else { "push.empty_with_missing" });
            self.note(&format!("push b{b} a{a} empty lacking{lacking}"));
            return;
        }
        let mut bytes = target[..len.min(target.len())].to_vec();
        // ---- what was sent (C17)
        let sent: Vec<wire_mirror::CommandMeta> = match wire_mirror::decode_sync_type(&bytes) {
            Some((SyncType::Push { message: ResponseMsg::SyncResponse { session_id, response_index, commands }, graph_id }, _)) => {
                if graph_id != gid || session_id != sid_b || response_index != 0 {
                    self.violation("C17", "C17.response-index", "push-header", format!("push of r{b}: graph {} session {session_id:x} index {response_index}; expected this graph, session {sid_b:x}, index 0", graph_id == gid));
                }
                commands
            }
            _ => {
                self.violation("C17", "C17.push-shape", "push-shape", format!("r{b}: push produced {len} bytes that are not a push message carrying a sync response"));
                return;
            }
        };
        let ids: Vec<CmdId> = sent.iter().map(|c| c.id).collect();
        if let Some(f) = ids.iter().find(|i| !self.committed(b).contains(*i)) {
            self.violation("C17", "C17.uncommitted-sent", "uncommitted-sent", format!("push: r{b} sent {} which is not in its committed graph", short(f)));
        }
        // Parents first: every parent of a pushed command is either pushed earlier or covered by
        // what the publisher believes the peer holds (the cache heads it started the session with).
        let mut seen: BTreeSet<CmdId> = BTreeSet::new();
        for c in &sent {
            let parents: Vec<CmdId> = match c.parent {
                Prior::None => vec![],
                Prior::Single(p) => vec![p.id],
                Prior::Merge(l, r) => vec![l.id, r.id],
            };
            if let Some(p) = parents.iter().find(|p| !have.contains(*p) && !seen.contains(*p)) {
                self.violation("C17", "C17.parents-first", "push-missing-parent", format!("push of r{b} to r{a}{}: command {} is sent although its parent {} was neither sent earlier in the message nor is covered by the {} cache heads the session started from", if retried { " (retry after BufferTooSmall)" } else { "" }, short(&c.id), short(p), cache_heads.len()));
                break;
            }
            if !seen.insert(c.id) {
                // Observed on the unchanged tree (a segment reached both as a head segment and as the
                // mid-segment prior of another needed segment is listed twice). No property forbids
                // sending a command twice - the receiver skips what it holds - so this is counted,
                // not reported.
                self.stats.bump("push.duplicate_in_message");
            }
        }
        self.stats.add("push.commands_sent", ids.len() as u64);
        if ids.iter().any(|i| have.contains(i)) {
            self.stats.bump("push.redundant_commands");
        }
        if retried {
            self.stats.bump("push.retried_after_small_buffer");
        }
        // ---- the network
        let mut pristine = true;
        match fault {
            NetFault::None | NetFault::Misdeliver { .. } => {}
            NetFault::Drop => {
                self.stats.bump("fault.drop");
                self.note("push dropped");
                return;
            }
            NetFault::Dup => self.stats.bump("fault.dup"),
            NetFault::Corrupt { kind, a: x, b: y } => {
                self.stats.bump(&format!("fault.corrupt.{kind}"));
                // Half of the field-aware mutations go to the embedded response.
                if *kind >= 8 && y % 2 == 0 {
                    if let Some((SyncType::Push { message, graph_id }, tail)) = wire_mirror::decode_sync_type(&bytes).map(|(m, t)| (m, t.to_vec())) {
                        let mut inner = wire_mirror::encode_response(&message, &tail);
                        crate::netfault::corrupt(&mut inner, *kind, *x, *y, &self.g);
                        if let Some((m2, t2)) = wire_mirror::decode_response(&inner).map(|(m, t)| (m, t.to_vec())) {
                            bytes = wire_mirror::encode_sync_type(&SyncType::Push { message: m2, graph_id }, &t2);
                        } else {
                            bytes = inner;
                        }
                    }
                } else {
                    crate::netfault::corrupt(&mut bytes, *kind, *x, *y, &self.g);
                }
                pristine = false;
            }
        }
        if self.crashed[a] {
            return;
        }
        // ---- the receiver
        let mirror = wire_mirror::decode_sync_type(&bytes).and_then(|(m, _)| match m {
            SyncType::Push { message: ResponseMsg::SyncResponse { session_id, response_index, .. }, graph_id } => Some((session_id, response_index, graph_id)),
            _ => None,
        });
        let expect_sid = if mode == 1 { sid_b ^ 0x5a5a } else { mirror.map(|m| m.0).unwrap_or(sid_b) };
        let mut requester = SyncRequester::new_session_id(gid, expect_sid);
        let deliveries = if mode == 2 || matches!(fault, NetFault::Dup) { 2 } else { 1 };
        let mut accepted_once = false;
        for round in 0..deliveries {
            let seen = guarded(|| match SyncIncoming::decode(&bytes) {
                Ok(SyncIncoming::Push(p)) => {
                    let _ = (p.graph_id(), p.session_id());
                    match requester.receive_push(p) {
                        Ok(Some(cmds)) => {
                            let base = bytes.as_ptr() as usize;
                            let mut in_bounds = true;
                            let mut out = Vec::new();
                            for c in &cmds {
                                for d in [Some(c.bytes()), c.policy()].into_iter().flatten() {
                                    let p = d.as_ptr() as usize;
                                    if !d.is_empty() && (p < base || p + d.len() > base + bytes.len()) {
                                        in_bounds = false;
                                    }
                                }
                                out.push(DagCmd { id: c.id(), parent: c.parent(), priority: c.priority(), policy: c.policy().map(<[u8]>::to_vec), bytes: c.bytes().to_vec() });
                            }
                            PushSeen::Commands { cmds: out, in_bounds }
                        }
                        Ok(None) => PushSeen::Control,
                        Err(e) => PushSeen::Refused(e.to_string()),
                    }
                }
                Ok(SyncIncoming::Poll(_)) => PushSeen::NotPush("poll".into()),
                Ok(SyncIncoming::Subscribe(s)) => {
                    let _ = (s.graph_id(), s.remain_open(), s.max_bytes(), s.heads().as_slice().len());
                    PushSeen::NotPush("subscribe".into())
                }
                Ok(SyncIncoming::Unsubscribe(_)) => PushSeen::NotPush("unsubscribe".into()),
                Ok(SyncIncoming::Hello(_)) => PushSeen::NotPush("hello".into()),
                Err(e) => PushSeen::NotPush(format!("decode-err:{e}").chars().take(24).collect()),
            });
            let seen = match seen {
                Guarded::Panicked(m) => {
                    self.on_panic(Some("C18"), "decode / receive_push", format!("{m}; bytes={}", vcommon::hex(&bytes)));
                    return;
                }
                Guarded::Done(x) => x,
            };
            match seen {
                PushSeen::NotPush(what) => {
                    self.stats.bump(&format!("recv.push.{}", what.split(':').next().unwrap_or("")));
                    if pristine {
                        self.violation("C17", "C17.clean-response-refused", "clean-push-refused", format!("an untouched push of r{b} was not decoded as a push by r{a}: {what}"));
                    }
                    return;
                }
                PushSeen::Control => {
                    self.stats.bump("recv.push.control");
                    return;
                }
                PushSeen::Refused(e) => {
                    self.stats.bump("recv.push.refused");
                    self.note(&format!("push b{b} a{a} refused {e}"));
                    if pristine && mode != 1 && round == 0 {
                        self.violation("C17", "C17.clean-response-refused", "clean-push-refused", format!("r{a} refused an untouched push of r{b} for the session it announces: {e}"));
                    }
                    if round == 0 {
                        return;
                    }
                }
                PushSeen::Commands { cmds, in_bounds } => {
                    self.stats.bump("recv.push.commands");
                    if !in_bounds {
                        self.violation("C18", "C18.out-of-bounds", "command-slice-out-of-bounds", format!("push to r{a}: a command payload or policy slice lies outside the received buffer"));
                    }
                    if let Some((msid, idx, _)) = mirror {
                        if msid != expect_sid {
                            self.violation("C18", "C18.foreign-session", "foreign-session-accepted", format!("r{a} expected session {expect_sid:x} and accepted a push for session {msid:x}"));
                        }
                        if idx != 0 {
                            self.violation("C18", "C18.out-of-sequence", "out-of-sequence-accepted", format!("a requester that had received nothing accepted pushed response index {idx}"));
                        }
                    }
                    if accepted_once {
                        self.violation("C18", "C18.out-of-sequence", "out-of-sequence-accepted", format!("r{a} accepted the same pushed response twice on one requester"));
                        return;
                    }
                    accepted_once = true;
                    if pristine {
                        let got: Vec<CmdId> = cmds.iter().map(|c| c.id).collect();
                        if got != ids {
                            self.violation("C17", "C17.push-content", "push-content", format!("r{a} decoded {} commands from an untouched push that carried {}", got.len(), ids.len()));
                        }
                    }
                    // Ingest: transaction, add, commit, cache update - as for a sync response.
                    let cache_truthful = cache_heads.iter().all(|h| self.committed(a).contains(&h.id));
                    if !cache_truthful {
                        self.stats.bump("push.cache_ahead_of_peer");
                    }
                    let clean = pristine && cache_truthful;
                    let t = with_rep!(&mut self.reps[a], rep => rep.open_trx(gid, b));
                    let addrs: Vec<Address> = cmds.iter().map(DagCmd::address).collect();
                    let fresh = cmds.iter().filter(|c| !self.committed(a).contains(&c.id)).count();
                    let added = self.do_add(a, t, &cmds, &format!("push a{a}<-b{b}"), clean);
                    if clean {
                        self.stats.bump("push.clean_ingests");
                        if fresh > 0 {
                            self.stats.bump("push.clean_with_new");
                        }
                    }
                    let _ = added;
                    if self.trx_ok(a, t) {
                        with_rep!(&mut self.reps[a], rep => {
                            if let Some(Some(trx)) = rep.trxs.get_mut(t) {
                                trx.received.extend(addrs);
                            }
                        });
                    }
                    if !self.found.is_empty() {
                        // The run ends at the first finding; the model is not driven past it.
                        return;
                    }
                    if self.trx_exists(a, t) && !self.dead {
                        self.step_commit(a, t, None, sid % 2 == 0);
                    }
                    if self.dead {
                        return;
                    }
                }
            }
        }
        self.note(&format!("push b{b} a{a} n{} pristine{pristine} mode{mode}", ids.len()));
    }

    /// `a` unsubscribes at `b` (decode path only: the library keeps no subscription state).
    pub fn step_unsubscribe(&mut self, a: usize, b: usize, fault: &NetFault) {
        let Some(gid) = self.gid else { return };
        let n = self.reps.len();
        if a >= n || b >= n || a == b || self.crashed[a] || self.dead {
            return;
        }
        let mut requester = SyncRequester::new_session_id(gid, 1);
        let mut target = vec![0u8; 256];
        let len = match guarded(|| requester.unsubscribe(&mut target)) {
            Guarded::Done(Ok(len)) => len,
            Guarded::Done(Err(e)) => {
                self.anomaly(format!("requester.unsubscribe failed: {e}"));
                return;
            }
            Guarded::Panicked(m) => {
                self.on_panic(Some("C18"), "requester.unsubscribe", m);
                return;
            }
        };
        let mut bytes = target[..len].to_vec();
        let mut pristine = true;
        if let NetFault::Corrupt { kind, a: x, b: y } = fault {
            self.stats.bump(&format!("fault.corrupt.{kind}"));
            crate::netfault::corrupt(&mut bytes, *kind, *x, *y, &self.g);
            pristine = false;
        }
        let r = guarded(|| match SyncIncoming::decode(&bytes) {
            Ok(SyncIncoming::Unsubscribe(u)) => Ok(u.graph_id()),
            Ok(_) => Err("other".to_string()),
            Err(e) => Err(e.to_string()),
        });
        match r {
            Guarded::Panicked(m) => self.on_panic(Some("C18"), "SyncIncoming::decode (unsubscribe)", format!("{m}; bytes={}", vcommon::hex(&bytes))),
            Guarded::Done(Ok(g)) => {
                self.stats.bump("recv.unsubscribe.ok");
                if pristine && g != gid {
                    self.stats.bump("unsubscribe.fields_differ");
                }
            }
            Guarded::Done(Err(what)) => {
                self.stats.bump("recv.unsubscribe.err");
                if pristine {
                    self.anomaly(format!("an untouched unsubscribe message was not decoded as one: {what}"));
                }
            }
        }
    }
}
