//! Simulated disk below `aranya_libc` (DESIGN 3.4): page cache vs durable image, pending
//! writes, crashes with lost / kept / torn sectors, transient errors, and replica restart.

use std::{
    cell::RefCell,
    collections::{BTreeMap, BTreeSet},
    ffi::c_int,
    rc::Rc,
};

use aranya_libc::verif::{Intercept, RawFd, SimSys};
use aranya_runtime::{
    CmdId,
    linear::{LinearStorageProvider, libc::FileManager},
};
use vcommon::Rng;

use crate::{
    oracles::short,
    policy::SharedLog,
    replica::{AnyRep, MemSP, Rep, SpillKind},
    sim::Sim,
    with_rep,
};

const FD_BASE: RawFd = 1 << 30;
const SECTOR: usize = 512;
/// Byte range of the two root slots of a graph file (pages 1 and 2).
const ROOT_AREA: (u64, u64) = (4096, 12288);
const EINTR: c_int = 4;
const EIO: c_int = 5;
const EBADF: c_int = 9;
const EWOULDBLOCK: c_int = 11;
const EEXIST: c_int = 17;
const ENOSPC: c_int = 28;
const ENOENT: c_int = 2;
const O_CREAT: c_int = 0o100;
const O_EXCL: c_int = 0o200;

pub const CRASH_PANIC: &str = "simfs: crash";

#[derive(Default, Clone)]
struct FileState {
    /// What reads see (page cache). Logical length may exceed `data.len()` (zeros).
    data: Vec<u8>,
    len: u64,
    /// What is guaranteed on disk.
    durable: Vec<u8>,
    durable_len: u64,
    /// Writes since the last successful sync, in order.
    pending: Vec<(u64, Vec<u8>)>,
    lock: Option<RawFd>,
}

#[derive(Clone, Copy)]
enum Fd {
    Dir(usize),
    File { file: usize, rep: usize },
}

#[derive(Default, Clone, Debug)]
pub struct FsFaults {
    pub eintr_pct: u64,
    pub short_pct: u64,
    /// Per mille chance that a write/sync fails with EIO / ENOSPC.
    pub eio_permille: u64,
    pub enospc_permille: u64,
    /// Opt-in: pieces smaller than a sector survive independently (finer than real disks).
    pub subsector: bool,
    /// Crash images taken (and checked by the harness) at every sync inside a commit window.
    pub explore: u32,
}

struct Inner {
    dirs: BTreeMap<usize, BTreeMap<Vec<u8>, usize>>,
    files: Vec<FileState>,
    fds: BTreeMap<RawFd, Fd>,
    next_fd: RawFd,
    /// Armed crashes: (mutating calls left, survival choices, countdown starts at the next fallocate).
    crash_in: BTreeMap<usize, (u32, u64, bool)>,
    crashed: BTreeSet<usize>,
    rng: Rng,
    faults: FsFaults,
    /// A hard error was injected on this replica since the last reset.
    hard_error: BTreeSet<usize>,
    counters: BTreeMap<&'static str, u64>,
    mutating_calls: BTreeMap<usize, u64>,
    in_commit_window: BTreeSet<usize>,
    /// Replicas whose root slots were hit by a sub-sector tear (sticky for the run).
    /// Root-area sectors of a replica that an *earlier* crash (before the most recent one) left torn
    /// inside the sector and that have not been durably rewritten since.
    torn_root_prev: BTreeMap<usize, BTreeSet<usize>>,
    /// The same for the most recent crash of the replica.
    torn_root_last: BTreeMap<usize, BTreeSet<usize>>,
    /// Crash-state exploration: images to take at every sync inside a commit window.
    /// Fail the pread with this index (counted from arming) with EIO, once.
    read_fault_in: Option<u32>,
    read_fault_fired: bool,
    explore: u32,
    explore_budget: u32,
    explore_rng: Rng,
    snapshots: Vec<Snapshot>,
}

pub struct SimFs {
    inner: RefCell<Inner>,
}

impl SimFs {
    pub fn new(seed: u64, faults: FsFaults) -> Self {
        let explore = faults.explore;
        Self {
            inner: RefCell::new(Inner {
                dirs: BTreeMap::new(),
                files: Vec::new(),
                fds: BTreeMap::new(),
                next_fd: FD_BASE,
                crash_in: BTreeMap::new(),
                crashed: BTreeSet::new(),
                rng: Rng::derive(seed, "disk"),
                faults,
                hard_error: BTreeSet::new(),
                counters: BTreeMap::new(),
                mutating_calls: BTreeMap::new(),
                in_commit_window: BTreeSet::new(),
                torn_root_prev: BTreeMap::new(),
                torn_root_last: BTreeMap::new(),
                read_fault_in: None,
                read_fault_fired: false,
                explore,
                explore_budget: 600,
                explore_rng: Rng::derive(seed, "explore"),
                snapshots: Vec::new(),
            }),
        }
    }

    pub fn arm_crash(&self, rep: usize, after_calls: u32, choices: u64) {
        self.inner.borrow_mut().crash_in.insert(rep, (after_calls, choices, false));
    }

    /// The countdown starts only when the replica next grows its file (`fallocate`): places the
    /// crash in the window right after a preallocation boundary.
    pub fn arm_crash_after_fallocate(&self, rep: usize, after_calls: u32, choices: u64) {
        self.inner.borrow_mut().crash_in.insert(rep, (after_calls, choices, true));
    }

    pub fn disarm(&self, rep: usize) {
        self.inner.borrow_mut().crash_in.remove(&rep);
    }

    pub fn take_hard_error(&self, rep: usize) -> bool {
        self.inner.borrow_mut().hard_error.remove(&rep)
    }

    /// Arms a single read error: the `n`-th pread from now fails with EIO.
    pub fn arm_read_fault(&self, n: u32) {
        let mut i = self.inner.borrow_mut();
        i.read_fault_in = Some(n);
        i.read_fault_fired = false;
    }

    /// Disarms; returns whether the fault fired.
    pub fn disarm_read_fault(&self) -> bool {
        let mut i = self.inner.borrow_mut();
        i.read_fault_in = None;
        std::mem::take(&mut i.read_fault_fired)
    }

    pub fn take_snapshots(&self, rep: usize) -> Vec<Snapshot> {
        let mut i = self.inner.borrow_mut();
        let (mine, rest): (Vec<Snapshot>, Vec<Snapshot>) = std::mem::take(&mut i.snapshots).into_iter().partition(|s| s.rep == rep);
        i.snapshots = rest;
        mine
    }

    /// Creates the directory of scratch replica `rep` holding exactly these files (durable).
    pub fn install_image(&self, rep: usize, files: &[(Vec<u8>, Vec<u8>, u64)]) {
        let mut i = self.inner.borrow_mut();
        let mut dir = BTreeMap::new();
        for (name, bytes, len) in files {
            i.files.push(FileState { data: bytes.clone(), len: *len, durable: bytes.clone(), durable_len: *len, pending: Vec::new(), lock: None });
            dir.insert(name.clone(), i.files.len() - 1);
        }
        i.dirs.insert(rep, dir);
    }

    /// A crash *before the most recent one* tore a root slot of `rep` inside a sector and that
    /// sector has not been durably rewritten since (the precondition of the known finding: a
    /// stale torn root that a later partial write can complete).
    pub fn had_earlier_subsector_root_tear(&self, rep: usize) -> bool {
        self.inner.borrow().torn_root_prev.get(&rep).is_some_and(|s| !s.is_empty())
    }

    /// Any actual crash so far left a torn root sector of `rep` that has not been rewritten.
    pub fn has_stale_torn_root(&self, rep: usize) -> bool {
        let i = self.inner.borrow();
        i.torn_root_prev.get(&rep).is_some_and(|s| !s.is_empty()) || i.torn_root_last.get(&rep).is_some_and(|s| !s.is_empty())
    }

    pub fn is_crashed(&self, rep: usize) -> bool {
        self.inner.borrow().crashed.contains(&rep)
    }

    pub fn set_commit_window(&self, rep: usize, on: bool) {
        let mut i = self.inner.borrow_mut();
        if on {
            i.in_commit_window.insert(rep);
        } else {
            i.in_commit_window.remove(&rep);
        }
    }

    pub fn counters(&self) -> BTreeMap<&'static str, u64> {
        self.inner.borrow().counters.clone()
    }

    pub fn mutating_calls(&self, rep: usize) -> u64 {
        self.inner.borrow().mutating_calls.get(&rep).copied().unwrap_or(0)
    }

    /// Forget everything a crashed replica's process held; files keep their post-crash image.
    pub fn restart(&self, rep: usize) {
        let mut i = self.inner.borrow_mut();
        i.crashed.remove(&rep);
        i.crash_in.remove(&rep);
        i.hard_error.remove(&rep);
    }

    pub fn remove_all_files(&self, rep: usize) {
        let mut i = self.inner.borrow_mut();
        i.dirs.insert(rep, BTreeMap::new());
    }

    /// Flip one byte inside the stored image of the replica's (first) file.
    pub fn flip_byte(&self, rep: usize, offset: u64, mask: u8) -> bool {
        let mut i = self.inner.borrow_mut();
        let Some(f) = i.dirs.get(&rep).and_then(|d| d.values().next().copied()) else { return false };
        let fs = &mut i.files[f];
        let o = offset as usize;
        if o < fs.data.len() && o < fs.durable.len() {
            fs.data[o] ^= mask;
            fs.durable[o] ^= mask;
            true
        } else {
            false
        }
    }
}

fn tr(msg: impl FnOnce() -> String) {
    thread_local! { static ON: bool = std::env::var_os("DAGSIM_TRACE").is_some(); }
    if ON.with(|x| *x) {
        eprintln!("SIMFS {}", msg());
    }
}

/// What a file looks like after power loss, according to the crash rule.
struct CrashImage {
    bytes: Vec<u8>,
    len: u64,
    /// Some un-synced sectors survived and some did not.
    partial: bool,
    /// A root-slot sector was left in a state the page cache never held (sub-sector mode only).
    root_tear: bool,
    root_tear_sectors: Vec<usize>,
}

/// Crash rule for one file.
///
/// Default rule (sector-atomic, order-respecting): the page cache applies writes in program
/// order and the disk persists whole 512-byte sectors, in any order across sectors. So for
/// every sector touched by un-synced writes the surviving content is the durable content
/// with a *prefix* of the pending writes to that sector applied: none (lost), all (kept), or
/// the first j (background write-back happened between two writes). A multi-sector write is
/// torn at sector boundaries. One crash in three is the reordering adversary: the sectors
/// written last survive and the ones written first are lost (what a missing barrier allows).
/// With `subsector` (opt-in family) every (write, sector) piece survives independently and
/// may also be cut at a byte offset; that is finer than what disks do and is reported separately.
fn crash_image(fs: &FileState, rng: &mut Rng, subsector: bool, f: usize) -> CrashImage {
    let mut base = fs.durable.clone();
    let mut len = fs.durable_len;
    if fs.len > fs.durable_len && rng.chance(1, 2) {
        len = fs.len;
    }
    let mut kept = 0;
    let mut lost = 0;
    let mut root_tear = false;
    let mut root_tear_sectors: Vec<usize> = Vec::new();
    let put = |base: &mut Vec<u8>, abs: usize, bytes: &[u8]| {
        if (abs as u64) >= len {
            return false;
        }
        let take = bytes.len().min((len as usize).saturating_sub(abs));
        if take == 0 {
            return false;
        }
        if base.len() < abs + take {
            base.resize(abs + take, 0);
        }
        base[abs..abs + take].copy_from_slice(&bytes[..take]);
        true
    };
    if subsector {
        for (off, data) in &fs.pending {
            let mut pos = 0usize;
            while pos < data.len() {
                let abs = *off as usize + pos;
                let sector_end = (abs / SECTOR + 1) * SECTOR;
                let n = (sector_end - abs).min(data.len() - pos);
                let take = match rng.below(10) {
                    0..=3 => n,
                    4..=7 => 0,
                    _ => rng.usize_below(n + 1),
                };
                tr(|| format!("crash(subsector) f{f}: piece abs={abs} n={n} take={take}"));
                if take > 0 && put(&mut base, abs, &data[pos..pos + take]) {
                    kept += 1;
                } else {
                    lost += 1;
                }
                if (take != n || abs / SECTOR * SECTOR != abs || n != SECTOR) && (ROOT_AREA.0..ROOT_AREA.1).contains(&(abs as u64)) {
                    // Anything but whole aligned sectors can leave a sector in a state the
                    // page cache never held.
                    root_tear = true;
                    root_tear_sectors.push(abs / SECTOR);
                }
                pos += n;
            }
        }
    } else {
        // sector -> pieces (in program order) of pending writes falling into it
        let mut by_sector: BTreeMap<usize, Vec<(usize, &[u8])>> = BTreeMap::new();
        // sector -> index (in program order) of the last pending write touching it
        let mut last_write: BTreeMap<usize, usize> = BTreeMap::new();
        let n_writes = fs.pending.len();
        for (wi, (off, data)) in fs.pending.iter().enumerate() {
            let mut pos = 0usize;
            while pos < data.len() {
                let abs = *off as usize + pos;
                let sector = abs / SECTOR;
                let n = ((sector + 1) * SECTOR - abs).min(data.len() - pos);
                by_sector.entry(sector).or_default().push((abs, &data[pos..pos + n]));
                last_write.insert(sector, wi);
                pos += n;
            }
        }
        let newest_first: Option<usize> = if n_writes > 1 && rng.chance(1, 3) { Some(rng.usize_below(n_writes + 1)) } else { None };
        for (sector, pieces) in by_sector {
            let k = pieces.len();
            let j = match newest_first {
                Some(cut) => {
                    if last_write[&sector] >= cut { k } else { 0 }
                }
                None => match rng.below(10) {
                    0..=3 => k,
                    4..=7 => 0,
                    _ => rng.usize_below(k + 1),
                },
            };
            tr(|| format!("crash f{f}: sector {sector} keeps {j} of {k} pending writes"));
            let mut any = false;
            for (abs, bytes) in pieces.iter().take(j) {
                any |= put(&mut base, *abs, bytes);
            }
            if any {
                kept += 1;
            }
            if j < k {
                lost += 1;
            }
        }
    }
    if base.len() as u64 > len {
        base.truncate(len as usize);
    }
    CrashImage { bytes: base, len, partial: kept > 0 && lost > 0, root_tear, root_tear_sectors }
}

/// A crash image of one replica's directory taken at a sync point (crash-state exploration).
pub struct Snapshot {
    pub rep: usize,
    /// (file name, content, logical length)
    pub files: Vec<(Vec<u8>, Vec<u8>, u64)>,
    pub partial: bool,
    /// When the image was taken, an actual earlier crash had left a root sector of the replica
    /// torn inside the sector and it had not been durably rewritten since.
    pub root_tear: bool,
}

fn bump(i: &mut Inner, k: &'static str) {
    *i.counters.entry(k).or_insert(0) += 1;
}

impl Inner {
    fn file_of(&self, fd: RawFd) -> Option<(usize, usize)> {
        match self.fds.get(&fd) {
            Some(Fd::File { file, rep }) => Some((*file, *rep)),
            _ => None,
        }
    }

    /// Apply the crash rule to every file of `rep`, then invalidate its descriptors.
    ///
    /// Default rule (sector-atomic, order-respecting): the page cache applies writes in program
    /// order and the disk persists whole 512-byte sectors, in any order across sectors. So for
    /// every sector touched by un-synced writes the surviving content is the durable content
    /// with a *prefix* of the pending writes to that sector applied: none (lost), all (kept), or
    /// the first j (background write-back happened between two writes). A multi-sector write is
    /// torn at sector boundaries. With `subsector` (opt-in family) every (write, sector) piece
    /// survives independently and may also be cut at a byte offset; that is finer than what
    /// disks do and is reported separately.
    fn crash(&mut self, rep: usize, choices: u64) {
        let mut rng = Rng::new(choices ^ 0xC4A5_11ED);
        let files: Vec<usize> = self.dirs.get(&rep).map(|d| d.values().copied().collect()).unwrap_or_default();
        let in_commit = self.in_commit_window.contains(&rep);
        let subsector = self.faults.subsector;
        let mut partial = false;
        let mut root_tear = false;
        // The tears of the previous crash become "earlier" tears.
        let last = self.torn_root_last.remove(&rep).unwrap_or_default();
        self.torn_root_prev.entry(rep).or_default().extend(last);
        for f in files {
            let img = crash_image(&self.files[f], &mut rng, subsector, f);
            partial |= img.partial;
            root_tear |= img.root_tear;
            self.torn_root_last.entry(rep).or_default().extend(img.root_tear_sectors.iter().copied());
            let fs = &mut self.files[f];
            fs.pending.clear();
            fs.data = img.bytes.clone();
            fs.durable = img.bytes;
            fs.len = img.len;
            fs.durable_len = img.len;
            fs.lock = None;
        }
        if root_tear {
            bump(self, "fault.subsector_root_tear");
        }
        let stale: Vec<RawFd> = self
            .fds
            .iter()
            .filter(|(_, v)| match v {
                Fd::Dir(r) => *r == rep,
                Fd::File { rep: r, .. } => *r == rep,
            })
            .map(|(k, _)| *k)
            .collect();
        for fd in stale {
            self.fds.remove(&fd);
        }
        self.crashed.insert(rep);
        self.crash_in.remove(&rep);
        bump(self, "fault.crash");
        if in_commit {
            bump(self, "crash.in_commit");
            if partial {
                bump(self, "crash.in_commit_partial");
            }
        }
        if partial {
            bump(self, "crash.partial_survival");
        }
    }

    /// Called at the start of every mutating call of `rep`. Returns true when the crash fires.
    fn tick(&mut self, rep: usize) -> Option<u64> {
        *self.mutating_calls.entry(rep).or_insert(0) += 1;
        if let Some((n, choices, waiting)) = self.crash_in.get_mut(&rep) {
            if *waiting {
                return None;
            }
            if *n == 0 {
                return Some(*choices);
            }
            *n -= 1;
        }
        None
    }
}

fn parse_rep(path: &[u8]) -> Option<usize> {
    let s = std::str::from_utf8(path).ok()?;
    let rest = s.strip_prefix("/simfs/")?;
    rest.trim_end_matches('/').parse().ok()
}

impl SimSys for SimFs {
    fn open(&self, path: &[u8], _oflag: c_int, _mode: u32) -> Intercept<RawFd> {
        let rep = parse_rep(path)?;
        let mut i = self.inner.borrow_mut();
        i.dirs.entry(rep).or_default();
        let fd = i.next_fd;
        i.next_fd += 1;
        i.fds.insert(fd, Fd::Dir(rep));
        Some(Ok(fd))
    }

    fn openat(&self, dirfd: RawFd, path: &[u8], oflag: c_int, _mode: u32) -> Intercept<RawFd> {
        if dirfd < FD_BASE {
            return None;
        }
        let mut i = self.inner.borrow_mut();
        let Some(Fd::Dir(rep)) = i.fds.get(&dirfd).copied() else {
            return Some(Err(EBADF));
        };
        let existing = i.dirs.get(&rep).and_then(|d| d.get(path).copied());
        let file = match (existing, oflag & O_CREAT != 0) {
            (Some(_), true) if oflag & O_EXCL != 0 => return Some(Err(EEXIST)),
            (Some(f), _) => f,
            (None, false) => return Some(Err(ENOENT)),
            (None, true) => {
                if let Some(choices) = i.tick(rep) {
                    i.crash(rep, choices);
                    drop(i);
                    panic!("{CRASH_PANIC} r{rep}");
                }
                i.files.push(FileState::default());
                let f = i.files.len() - 1;
                i.dirs.entry(rep).or_default().insert(path.to_vec(), f);
                f
            }
        };
        let fd = i.next_fd;
        i.next_fd += 1;
        i.fds.insert(fd, Fd::File { file, rep });
        Some(Ok(fd))
    }

    fn close(&self, fd: RawFd) -> Intercept<()> {
        if fd < FD_BASE {
            return None;
        }
        let mut i = self.inner.borrow_mut();
        if let Some(Fd::File { file, .. }) = i.fds.remove(&fd) {
            if i.files[file].lock == Some(fd) {
                i.files[file].lock = None;
            }
        }
        Some(Ok(()))
    }

    fn flock(&self, fd: RawFd, _op: c_int) -> Intercept<()> {
        if fd < FD_BASE {
            return None;
        }
        let mut i = self.inner.borrow_mut();
        let Some((file, _)) = i.file_of(fd) else { return Some(Err(EBADF)) };
        match i.files[file].lock {
            Some(holder) if holder != fd && i.fds.contains_key(&holder) => Some(Err(EWOULDBLOCK)),
            _ => {
                i.files[file].lock = Some(fd);
                Some(Ok(()))
            }
        }
    }

    fn fsync(&self, fd: RawFd) -> Intercept<()> {
        self.sync(fd)
    }

    fn fdatasync(&self, fd: RawFd) -> Intercept<()> {
        self.sync(fd)
    }

    fn fallocate(&self, fd: RawFd, _mode: c_int, off: i64, len: i64) -> Intercept<()> {
        if fd < FD_BASE {
            return None;
        }
        let mut i = self.inner.borrow_mut();
        let Some((file, rep)) = i.file_of(fd) else { return Some(Err(EBADF)) };
        tr(|| format!("fallocate r{rep} f{file} off={off} len={len} cur_len={}", i.files[file].len));
        if let Some(choices) = i.tick(rep) {
            i.crash(rep, choices);
            drop(i);
            panic!("{CRASH_PANIC} r{rep}");
        }
        if let Some((_, _, waiting)) = i.crash_in.get_mut(&rep) {
            if *waiting {
                *waiting = false;
                bump(&mut i, "crash.armed_after_fallocate");
            }
        }
        let permille = i.faults.enospc_permille;
        if permille > 0 && i.rng.below(1000) < permille {
            bump(&mut i, "fault.enospc");
            i.hard_error.insert(rep);
            return Some(Err(ENOSPC));
        }
        let end = (off + len).max(0) as u64;
        if end > i.files[file].len {
            i.files[file].len = end;
        }
        Some(Ok(()))
    }

    fn pread(&self, fd: RawFd, buf: &mut [u8], off: i64) -> Intercept<usize> {
        if fd < FD_BASE {
            return None;
        }
        let mut i = self.inner.borrow_mut();
        let Some((file, _)) = i.file_of(fd) else { return Some(Err(EBADF)) };
        if let Some(n) = i.read_fault_in {
            if n == 0 {
                i.read_fault_in = None;
                i.read_fault_fired = true;
                bump(&mut i, "fault.eio_read");
                return Some(Err(EIO));
            }
            i.read_fault_in = Some(n - 1);
        }
        let (eintr, short) = (i.faults.eintr_pct, i.faults.short_pct);
        if eintr > 0 && i.rng.below(100) < eintr {
            bump(&mut i, "fault.eintr_read");
            return Some(Err(EINTR));
        }
        let fs = &i.files[file];
        let off = off.max(0) as u64;
        tr(|| format!("pread f{file} off={off} len={} file_len={}", buf.len(), fs.len));
        if off >= fs.len {
            return Some(Ok(0));
        }
        let mut n = buf.len().min((fs.len - off) as usize);
        if short > 0 && n > 1 && i.rng.below(100) < short {
            n = 1 + i.rng.usize_below(n - 1);
            bump(&mut i, "fault.short_read");
        }
        let fs = &i.files[file];
        for (k, b) in buf[..n].iter_mut().enumerate() {
            *b = fs.data.get(off as usize + k).copied().unwrap_or(0);
        }
        Some(Ok(n))
    }

    fn pwrite(&self, fd: RawFd, buf: &[u8], off: i64) -> Intercept<usize> {
        if fd < FD_BASE {
            return None;
        }
        let mut i = self.inner.borrow_mut();
        let Some((file, rep)) = i.file_of(fd) else { return Some(Err(EBADF)) };
        let crash = i.tick(rep);
        tr(|| format!("pwrite r{rep} f{file} off={off} len={} crash={}", buf.len(), crash.is_some()));
        let (eintr, short, eio) = (i.faults.eintr_pct, i.faults.short_pct, i.faults.eio_permille);
        if crash.is_none() {
            if eintr > 0 && i.rng.below(100) < eintr {
                bump(&mut i, "fault.eintr_write");
                return Some(Err(EINTR));
            }
            if eio > 0 && i.rng.below(1000) < eio {
                bump(&mut i, "fault.eio_write");
                i.hard_error.insert(rep);
                return Some(Err(EIO));
            }
        }
        let mut n = buf.len();
        if let Some(choices) = crash {
            // The crash lands in the middle of this write: a prefix reaches the page cache.
            n = Rng::new(choices).usize_below(buf.len() + 1);
        } else if short > 0 && n > 1 && i.rng.below(100) < short {
            n = 1 + i.rng.usize_below(n - 1);
            bump(&mut i, "fault.short_write");
        }
        let off = off.max(0) as u64;
        let end = off as usize + n;
        let fs = &mut i.files[file];
        if fs.data.len() < end {
            fs.data.resize(end, 0);
        }
        fs.data[off as usize..end].copy_from_slice(&buf[..n]);
        if end as u64 > fs.len {
            fs.len = end as u64;
        }
        if n > 0 {
            fs.pending.push((off, buf[..n].to_vec()));
        }
        if let Some(choices) = crash {
            i.crash(rep, choices);
            drop(i);
            panic!("{CRASH_PANIC} r{rep}");
        }
        Some(Ok(n))
    }

    fn unlinkat(&self, dirfd: RawFd, path: &[u8], _flags: c_int) -> Intercept<()> {
        if dirfd < FD_BASE {
            return None;
        }
        let mut i = self.inner.borrow_mut();
        let Some(Fd::Dir(rep)) = i.fds.get(&dirfd).copied() else {
            return Some(Err(EBADF));
        };
        match i.dirs.entry(rep).or_default().remove(path) {
            Some(_) => Some(Ok(())),
            None => Some(Err(ENOENT)),
        }
    }

    fn dup(&self, fd: RawFd) -> Intercept<RawFd> {
        if fd < FD_BASE {
            return None;
        }
        let mut i = self.inner.borrow_mut();
        let Some(v) = i.fds.get(&fd).copied() else { return Some(Err(EBADF)) };
        let nfd = i.next_fd;
        i.next_fd += 1;
        i.fds.insert(nfd, v);
        Some(Ok(nfd))
    }
}

impl SimFs {
    fn sync(&self, fd: RawFd) -> Intercept<()> {
        if fd < FD_BASE {
            return None;
        }
        let mut i = self.inner.borrow_mut();
        let Some((file, rep)) = i.file_of(fd) else { return Some(Err(EBADF)) };
        tr(|| format!("sync r{rep} f{file} pending={}", i.files[file].pending.len()));
        if let Some(choices) = i.tick(rep) {
            i.crash(rep, choices);
            drop(i);
            panic!("{CRASH_PANIC} r{rep}");
        }
        // Crash-state exploration: what would reopening find if power were lost right now,
        // before this barrier takes effect? The images are checked by the harness after the call.
        if i.explore > 0 && i.in_commit_window.contains(&rep) && !i.files[file].pending.is_empty() {
            let subsector = i.faults.subsector;
            for _ in 0..i.explore {
                if i.explore_budget == 0 {
                    break;
                }
                i.explore_budget -= 1;
                let names: Vec<(Vec<u8>, usize)> = i.dirs.get(&rep).map(|d| d.iter().map(|(k, v)| (k.clone(), *v)).collect()).unwrap_or_default();
                let mut rng = Rng::new(i.explore_rng.next_u64());
                let stale = i.torn_root_prev.get(&rep).is_some_and(|s| !s.is_empty()) || i.torn_root_last.get(&rep).is_some_and(|s| !s.is_empty());
                let mut snap = Snapshot { rep, files: Vec::new(), partial: false, root_tear: stale };
                for (name, f) in names {
                    let img = crash_image(&i.files[f], &mut rng, subsector, f);
                    snap.partial |= img.partial;
                    snap.files.push((name, img.bytes, img.len));
                }
                i.snapshots.push(snap);
                bump(&mut i, "explore.images");
            }
        }
        let eio = i.faults.eio_permille;
        if eio > 0 && i.rng.below(1000) < eio {
            // Linux semantics after a failed fsync: nothing is guaranteed about the un-synced
            // writes and the error is not repeated. The pending writes stay pending here; the
            // harness restarts the replica after a hard error, and that restart applies the
            // crash rule to them (any sector may or may not have reached the disk).
            bump(&mut i, "fault.eio_sync");
            i.hard_error.insert(rep);
            return Some(Err(EIO));
        }
        // A root sector that is durably rewritten no longer holds a stale torn record.
        let rewritten: Vec<usize> = i.files[file].pending.iter().filter(|(off, _)| (ROOT_AREA.0..ROOT_AREA.1).contains(off)).map(|(off, _)| *off as usize / SECTOR).collect();
        for sec in rewritten {
            if let Some(s) = i.torn_root_prev.get_mut(&rep) {
                s.remove(&sec);
            }
            if let Some(s) = i.torn_root_last.get_mut(&rep) {
                s.remove(&sec);
            }
        }
        let fs = &mut i.files[file];
        let pending = std::mem::take(&mut fs.pending);
        for (off, data) in pending {
            let end = off as usize + data.len();
            if fs.durable.len() < end {
                fs.durable.resize(end, 0);
            }
            fs.durable[off as usize..end].copy_from_slice(&data);
        }
        fs.durable_len = fs.len;
        bump(&mut i, "fs.sync");
        Some(Ok(()))
    }
}

// ------------------------------------------------------------------ replicas on the simulated disk

pub fn dir_path(idx: usize) -> String {
    format!("/simfs/{idx}")
}

pub fn new_file_rep(idx: usize, log: SharedLog, spill: SpillKind) -> AnyRep {
    let mut p = dir_path(idx).into_bytes();
    p.push(0);
    let fm = FileManager::new(aranya_libc::Path::new(&p)).expect("simulated directory opens");
    AnyRep::File(Rep::new(idx, LinearStorageProvider::new(fm), log, spill))
}

/// Harness-side memory of a file-backed replica across crashes.
#[derive(Default, Clone)]
pub struct DiskShadow {
    /// Committed sets of commits attempted since the last success (may or may not be durable).
    pub attempted: Vec<BTreeSet<CmdId>>,
    /// At least one commit (or the creation) has returned successfully.
    pub completed_any: bool,
}

impl Sim {
    pub fn fs_hard(&self, r: usize) -> bool {
        self.fs.as_ref().is_some_and(|fs| fs.inner.borrow().hard_error.contains(&r))
    }

    pub fn is_file(&self, r: usize) -> bool {
        self.cfg.file_backed.get(r).copied().unwrap_or(false)
    }

    /// Before a call that may move the committed root of file-backed replica `r`.
    pub fn fs_attempt(&mut self, r: usize, would_be: BTreeSet<CmdId>) {
        if self.is_file(r) {
            self.disk[r].attempted.push(would_be);
            if let Some(fs) = &self.fs {
                fs.set_commit_window(r, true);
            }
        }
    }

    /// Crash-state exploration (DESIGN 3.4): every image the simulated disk produced at a sync
    /// point of the call that just returned is reopened with a fresh `FileManager` in a scratch
    /// directory and must hold the last completed commit or a commit that was in progress.
    fn check_crash_images(&mut self, r: usize) {
        let Some(fs) = self.fs.clone() else { return };
        let snaps = fs.take_snapshots(r);
        if snaps.is_empty() || self.dead {
            return;
        }
        let Some(gid) = self.gid else { return };
        // The image checks use short-lived traversal buffers: keep them apart from the queues
        // the monitor follows.
        self.qmon.borrow_mut().forget_all();
        let (old_committed, had_graph) = with_rep!(&self.reps[r], rep => (rep.committed.clone(), rep.has_graph));
        let mut candidates: Vec<BTreeSet<CmdId>> = Vec::new();
        if had_graph {
            candidates.push(old_committed);
        }
        candidates.extend(self.disk[r].attempted.iter().cloned());
        let completed = self.disk[r].completed_any;
        let scratch = 1000 + r;
        let probe = self.probe_keys.clone();
        for snap in snaps {
            if !self.found.is_empty() {
                break;
            }
            self.stats.bump("explore.images_checked");
            if snap.partial {
                self.stats.bump("explore.images_partial");
            }
            // Cause-based signature of the known finding: the image is that of a *second* crash on
            // top of a root slot an earlier crash left torn inside a sector and that has not been
            // rewritten since. A failure of the first torn image itself is not that finding.
            let sig_of = |normal: &str| if snap.root_tear { "root-slot-subsector-tear".to_string() } else { normal.to_string() };
            fs.install_image(scratch, &snap.files);
            self.qmon.borrow_mut().forget_all();
            let verdict: Result<(), (String, String, String)> = (|| {
                use aranya_runtime::{Storage as _, StorageProvider as _};
                let mut p = dir_path(scratch).into_bytes();
                p.push(0);
                let fm = FileManager::new(aranya_libc::Path::new(&p)).map_err(|e| ("C15.image-unrecoverable".to_string(), sig_of("crash-image-unrecoverable"), format!("scratch directory does not open: {e}")))?;
                let mut provider = LinearStorageProvider::new(fm);
                let st = match provider.get_storage(gid) {
                    Ok(st) => st,
                    Err(e) => {
                        return if completed { Err(("C15.image-unrecoverable".into(), sig_of("crash-image-unrecoverable"), format!("reopening fails ({e}) although a commit had completed"))) } else { Ok(()) };
                    }
                };
                let heads = match st.get_heads() {
                    Ok(h) => h,
                    Err(e) => {
                        return if completed { Err(("C15.image-unrecoverable".into(), sig_of("crash-image-unrecoverable"), format!("the head set is unreadable ({e}) although a commit had completed"))) } else { Ok(()) };
                    }
                };
                let ids: Vec<CmdId> = heads.iter().map(|h| h.id).collect();
                let Some(k) = candidates.iter().position(|c| self.g.frontier(c) == ids) else {
                    return Err(("C15.image-unknown-state".into(), sig_of("crash-image-is-no-commit"), format!("heads {:?} are neither the last completed commit nor a commit in progress ({} candidates)", ids.iter().map(short).collect::<Vec<_>>(), candidates.len())));
                };
                // Facts of that commit are readable and equal the model.
                if let Ok(want) = self.g.state_of_heads(&ids) {
                    let got = st.fact_cache().ok().and_then(|idx| crate::policy::dump_query(&idx, &probe).ok());
                    match got {
                        Some((d, true)) if d == crate::model::state_dump(&want) => {}
                        Some((d, _)) => return Err(("C15.image-wrong-facts".into(), sig_of("crash-image-wrong-facts"), format!("recovered commit {k} exposes facts {d:?}, model says {:?}", crate::model::state_dump(&want)))),
                        None => return Err(("C15.image-unreadable-facts".into(), sig_of("crash-image-unreadable-facts"), format!("facts of recovered commit {k} are unreadable"))),
                    }
                }
                // A sample of its commands is locatable and holds the right id.
                let set: Vec<CmdId> = candidates[k].iter().copied().collect();
                let stride = (set.len() / 6).max(1);
                let mut buf = aranya_runtime::TraversalBuffer::new();
                for id in set.iter().step_by(stride) {
                    let addr = self.addr(id);
                    match st.get_location(addr, &mut buf) {
                        Ok(Some(loc)) => {
                            use aranya_runtime::{Command as _, Segment as _};
                            let ok = st.get_segment(loc).ok().and_then(|seg| seg.get_command(loc).map(|c| c.id() == *id)).unwrap_or(false);
                            if !ok {
                                return Err(("C15.image-unreadable-command".into(), sig_of("crash-image-unreadable-command"), format!("command {} of recovered commit {k} is not readable at its location", short(id))));
                            }
                        }
                        other => return Err(("C15.image-unreadable-command".into(), sig_of("crash-image-unreadable-command"), format!("command {} of recovered commit {k} cannot be located: {other:?}", short(id)))),
                    }
                }
                Ok(())
            })();
            fs.remove_all_files(scratch);
            if let Err((class, sig, detail)) = verdict {
                self.violation("C15", &class, &sig, format!("crash image taken at a sync point of replica {r}: {detail}"));
            }
        }
        self.qmon.borrow_mut().forget_all();
    }

    /// After that call returned (successfully or not).
    pub fn fs_done(&mut self, r: usize, success: bool) {
        if self.is_file(r) {
            let explored = crate::replica::guarded(|| self.check_crash_images(r));
            if let crate::replica::Guarded::Panicked(m) = explored {
                self.violation("C15", "C15.image-panic", "crash-image-panic", format!("reopening a crash image of replica {r} panicked: {m}"));
            }
            if let Some(fs) = &self.fs {
                fs.set_commit_window(r, false);
            }
            if success {
                self.disk[r].attempted.clear();
                self.disk[r].completed_any = true;
            }
        }
    }

    /// A call failed because of an injected disk error. The failure itself is allowed (narrow
    /// relaxation); but a failed action or commit leaves the committed heads, graph and facts
    /// unchanged (C07/C08), and lookups stay exact (C11): nothing the failed call wrote may be
    /// visible through the live storage object. Checked before the replica is restarted.
    pub fn after_failed_io(&mut self, r: usize, ctx: &str, before: &Option<(Vec<(CmdId, u64)>, u64)>, prop: &str) {
        if self.dead || self.crashed[r] || !self.has_graph(r) {
            return;
        }
        self.stats.bump("fault.disk_error_state_checked");
        let shadow = self.committed(r).clone();
        // Each oracle runs whatever the others found: a check reports the findings of its own
        // property only.
        self.check_lookups(r, &format!("{ctx} (after injected disk error)"), &shadow);
        // C04 / C09: the advertised head and the head set still describe the committed graph.
        if let Some(gid) = self.gid {
            let want_heads = self.g.frontier(&shadow);
            let want_hello = self.model_hello(&want_heads);
            if let crate::replica::Guarded::Done(Ok(a)) = with_rep!(&mut self.reps[r], rep => rep.hello_head(gid)) {
                if a != want_hello {
                    self.violation("C04", "C04.hello-head", "hello-head", format!("{ctx} (after injected disk error): replica {r} advertises {}@{} but its committed graph collapses to {}@{}", short(&a.id), a.max_cut, short(&want_hello.id), want_hello.max_cut));
                }
            }
            if let Ok(h) = with_rep!(&mut self.reps[r], rep => rep.heads(gid)) {
                let ids: Vec<CmdId> = h.iter().map(|x| x.id).collect();
                if ids != want_heads {
                    self.violation("C09", "C09.frontier", "heads-not-frontier", format!("{ctx} (after injected disk error): replica {r} heads {:?} != frontier of the committed set {:?}", ids.iter().map(short).collect::<Vec<_>>(), want_heads.iter().map(short).collect::<Vec<_>>()));
                }
            }
        }
        // C19: what the replica answers to hello notifications still follows its committed graph.
        for p in 0..self.reps.len() {
            if p != r && !self.crashed[p] && self.has_graph(p) {
                self.step_hello(r, p, None);
            }
        }
        if before.is_some() {
            let after = self.snapshot(r);
            if after != *before {
                self.violation(prop, &format!("{prop}.failed-io-changed-state"), "failed-io-changed-state", format!("{ctx}: the call failed with an injected disk error, but the committed heads/facts seen through the live storage changed: {before:?} -> {after:?}"));
                return;
            }
        }
    }

    /// A hard I/O error was injected during the last call: whatever else the replica's process
    /// holds in memory is defined by no property, so the process is restarted (narrow relaxation).
    pub fn fs_after_call(&mut self, r: usize) {
        let hard = self.fs.as_ref().is_some_and(|fs| fs.take_hard_error(r));
        if hard && self.is_file(r) && !self.crashed[r] {
            self.stats.bump("fault.restart_after_io_error");
            let choices = vcommon::mix(self.cfg.seed, self.step_no as u64);
            if let Some(fs) = &self.fs {
                fs.arm_crash(r, 0, choices);
            }
            self.crash_process(r, choices);
            self.step_restart(r);
        }
    }

    pub fn step_crash(&mut self, r: usize, at: u32, choices: u64, after_falloc: bool) {
        if r >= self.reps.len() || !self.is_file(r) || self.crashed[r] || self.dead {
            return;
        }
        if let Some(fs) = &self.fs {
            if after_falloc {
                fs.arm_crash_after_fallocate(r, at, choices);
                self.note(&format!("crash armed r{r} {at} calls after the next fallocate"));
            } else if at == 0 {
                // Crash right now, between two calls.
                self.crash_process(r, choices);
            } else {
                fs.arm_crash(r, at - 1, choices);
                self.note(&format!("crash armed r{r} in {at}"));
            }
        }
    }

    /// The simulated process of `r` dies: volatile disk state is resolved by the crash rule
    /// (already done if the crash fired inside a system call), process state is dropped.
    pub fn crash_process(&mut self, r: usize, choices: u64) {
        let Some(fs) = self.fs.clone() else { return };
        if !fs.is_crashed(r) {
            fs.inner.borrow_mut().crash(r, choices);
        }
        fs.set_commit_window(r, false);
        let (committed, has_graph) = with_rep!(&self.reps[r], rep => (rep.committed.clone(), rep.has_graph));
        self.qmon.borrow_mut().forget_all();
        let log = Rc::clone(&self.log);
        let mut zombie: Rep<MemSP> = Rep::new(r, MemSP::default(), log, SpillKind::Mem);
        zombie.committed = committed;
        zombie.has_graph = has_graph;
        // Dropping the old replica closes its descriptors; they are already invalid.
        self.reps[r] = AnyRep::Mem(zombie);
        self.crashed[r] = true;
        for s in &mut self.sess {
            if s.a == r || s.b == r {
                s.closed = true;
                s.clean = false;
            }
        }
        self.stats.bump("crashes");
        self.note(&format!("crash r{r}"));
    }

    pub fn step_restart(&mut self, r: usize) {
        if r >= self.reps.len() || !self.crashed[r] || self.dead {
            return;
        }
        let Some(fs) = self.fs.clone() else { return };
        fs.restart(r);
        self.qmon.borrow_mut().forget_all();
        // Cause-based signature of the known finding (see known-findings.txt): a crash *before*
        // the one being recovered from left a root slot torn inside a sector (only possible in the
        // sub-sector family) and that slot has not been durably rewritten since, so the latest
        // crash may have completed the stale record. A failure after a first tear is not that.
        let tear = fs.had_earlier_subsector_root_tear(r);
        let sig_of = |normal: &str| if tear { "root-slot-subsector-tear".to_string() } else { normal.to_string() };
        let (old_committed, had_graph) = with_rep!(&self.reps[r], rep => (rep.committed.clone(), rep.has_graph));
        let spill = SpillKind::Faulty(Rc::clone(&self.spill_faults[r]));
        self.reps[r] = new_file_rep(r, Rc::clone(&self.log), spill);
        self.crashed[r] = false;
        self.stats.bump("restarts");
        let Some(gid) = self.gid else { return };
        let mut candidates: Vec<BTreeSet<CmdId>> = Vec::new();
        if had_graph {
            candidates.push(old_committed.clone());
        }
        candidates.extend(self.disk[r].attempted.iter().cloned());
        let completed = self.disk[r].completed_any;
        let heads = with_rep!(&mut self.reps[r], rep => rep.heads(gid));
        match heads {
            Err(e) => {
                if completed {
                    self.violation("C15", "C15.unrecoverable", &sig_of("reopen-failed-after-completed-commit"), format!("reopening replica {r} after a crash failed ({e}) although {} commands had been committed successfully", old_committed.len()));
                    return;
                }
                // No commit had completed: an error instead of a state is allowed. Start over.
                self.stats.bump("crash.reopen_error_before_first_commit");
                fs.remove_all_files(r);
                self.reps[r] = new_file_rep(r, Rc::clone(&self.log), SpillKind::Faulty(Rc::clone(&self.spill_faults[r])));
                with_rep!(&mut self.reps[r], rep => { rep.has_graph = false; rep.committed.clear(); });
                self.disk[r] = DiskShadow::default();
            }
            Ok(h) => {
                let ids: Vec<CmdId> = h.iter().map(|x| x.id).collect();
                let hit = candidates.iter().position(|c| self.g.frontier(c) == ids);
                match hit {
                    Some(k) => {
                        if k > 0 || !had_graph {
                            self.stats.bump("crash.recovered_in_progress_commit");
                        } else {
                            self.stats.bump("crash.recovered_last_commit");
                        }
                        let set = candidates[k].clone();
                        with_rep!(&mut self.reps[r], rep => { rep.has_graph = true; rep.committed = set; rep.counter = 0; });
                        self.disk[r].attempted.clear();
                        self.disk[r].completed_any = true;
                        let keep = self.cfg.lookup_every;
                        self.cfg.lookup_every = 1;
                        self.check_committed(r, "after crash recovery");
                        self.cfg.lookup_every = keep;
                        // Any violation found by the state oracles right after recovery is a
                        // crash-consistency violation.
                        let step = self.step_no;
                        for f in self.found.iter_mut().filter(|f| f.step == step && f.detail.starts_with("after crash recovery")) {
                            f.class = format!("C15.recovered-state/{}", f.class);
                            f.property = "C15".into();
                            if tear {
                                f.sig = "root-slot-subsector-tear".into();
                            }
                        }
                    }
                    None => {
                        self.violation(
                            "C15",
                            "C15.recovered-unknown-state",
                            &sig_of("recovered-state-is-no-commit"),
                            format!(
                                "replica {r} reopened with heads {:?}, which is neither the last completed commit ({:?}) nor a commit in progress ({} candidates)",
                                ids.iter().map(short).collect::<Vec<_>>(),
                                self.g.frontier(&old_committed).iter().map(short).collect::<Vec<_>>(),
                                candidates.len()
                            ),
                        );
                    }
                }
            }
        }
    }
}
