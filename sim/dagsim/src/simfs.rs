//! Simulated disk below `aranya_libc` (DESIGN 3.4). Built in a later step.

use crate::{
    policy::SharedLog,
    replica::{AnyRep, SpillKind},
    sim::Sim,
};

pub fn new_file_rep(_idx: usize, _log: SharedLog, _spill: SpillKind) -> AnyRep {
    vcommon::harness_error("file-backed replicas are not built yet");
}

impl Sim {
    pub fn step_crash(&mut self, _r: usize, _at: u32, _choices: u64) {}
    pub fn step_restart(&mut self, _r: usize) {}
}
