//! Transport corruption: byte-level and field-aware mutations of sync messages.

use aranya_runtime::{Address, CmdId, MaxCut, Prior, Priority};

use crate::{
    model::Global,
    wire_mirror::{self, RequestMsg, ResponseMsg, SyncType},
};

pub const KINDS: u8 = 16;

fn other_id(g: &Global, a: u32, not: &CmdId) -> CmdId {
    let ids: Vec<&CmdId> = g.nodes.keys().filter(|k| *k != not).collect();
    if ids.is_empty() {
        let mut b = *not.as_array();
        b[31] ^= 1;
        CmdId::from_bytes(b)
    } else {
        *ids[a as usize % ids.len()]
    }
}

/// Mutate `bytes` in place. `kind` selects the mutation, `a`/`b` are its parameters.
pub fn corrupt(bytes: &mut Vec<u8>, kind: u8, a: u32, b: u32, g: &Global) {
    let len = bytes.len();
    match kind % KINDS {
        0 => {
            // bit flip
            if len > 0 {
                let i = a as usize % len;
                bytes[i] ^= 1 << (b % 8);
            }
        }
        1 => {
            // byte overwrite
            if len > 0 {
                let i = a as usize % len;
                bytes[i] = b as u8;
            }
        }
        2 => bytes.truncate(a as usize % (len + 1)),
        3 => bytes.clear(),
        4 => {
            // extension with garbage
            let n = 1 + (a as usize % 64);
            let mut s = u64::from(b) | 1;
            for _ in 0..n {
                bytes.push((vcommon::splitmix(&mut s) & 0xff) as u8);
            }
        }
        5 => {
            // pure garbage of the same length
            let mut s = (u64::from(a) << 32) | u64::from(b) | 1;
            for x in bytes.iter_mut() {
                *x = (vcommon::splitmix(&mut s) & 0xff) as u8;
            }
        }
        6 => {
            // splice: second half replaced by the first half
            let h = len / 2;
            let head = bytes[..h].to_vec();
            bytes.truncate(h);
            bytes.extend_from_slice(&head);
        }
        7 => {
            // huge varint / length prefix where a length is likely
            if len > 0 {
                let i = a as usize % len;
                bytes.splice(i..i, [0xff, 0xff, 0xff, 0xff, 0x0f]);
            }
        }
        k => {
            // field-aware mutations of a decoded response / request
            let response = wire_mirror::decode_response(bytes).map(|(m, t)| (m, t.to_vec()));
            if let Some((mut msg, mut tail)) = response {
                match &mut msg {
                    ResponseMsg::SyncResponse { session_id, response_index, commands } => match k {
                        8 => *session_id ^= u128::from(a) + 1,
                        9 => *response_index = response_index.wrapping_add(u64::from(a % 3) + 1),
                        10 => {
                            if !commands.is_empty() {
                                let i = a as usize % commands.len();
                                commands[i].length = commands[i].length.wrapping_add(1 + b % 5000);
                            }
                        }
                        11 => {
                            if !commands.is_empty() {
                                let i = a as usize % commands.len();
                                commands[i].policy_length = 1 + b % 5000;
                            }
                        }
                        12 => {
                            if !commands.is_empty() {
                                let i = a as usize % commands.len();
                                let cur = commands[i].id;
                                commands[i].id = other_id(g, b, &cur);
                            }
                        }
                        13 => {
                            if !commands.is_empty() {
                                let i = a as usize % commands.len();
                                commands[i].parent = match commands[i].parent {
                                    Prior::None => Prior::Single(Address { id: other_id(g, b, &commands[i].id), max_cut: MaxCut::new(0) }),
                                    Prior::Single(p) => {
                                        if b % 2 == 0 {
                                            Prior::None
                                        } else {
                                            Prior::Single(Address { id: other_id(g, b, &p.id), max_cut: p.max_cut })
                                        }
                                    }
                                    Prior::Merge(l, _) => Prior::Single(l),
                                };
                            }
                        }
                        14 => {
                            if !commands.is_empty() {
                                let i = a as usize % commands.len();
                                commands[i].priority = match b % 4 {
                                    0 => Priority::Init,
                                    1 => Priority::Finalize,
                                    2 => Priority::Merge,
                                    _ => Priority::Basic(b),
                                };
                            }
                        }
                        _ => {
                            // drop / duplicate / swap a command entry while keeping the payload
                            if commands.len() >= 2 {
                                let i = a as usize % commands.len();
                                let j = b as usize % commands.len();
                                commands.swap(i, j);
                            } else if !tail.is_empty() {
                                let i = a as usize % tail.len();
                                tail[i] ^= 0x40;
                            }
                        }
                    },
                    ResponseMsg::SyncEnd { session_id, max_index, .. } => {
                        if k % 2 == 0 {
                            *session_id ^= 1;
                        } else {
                            *max_index = max_index.wrapping_add(u64::from(a % 3) + 1);
                        }
                    }
                    _ => {}
                }
                *bytes = wire_mirror::encode_response(&msg, &tail);
                return;
            }
            let request = wire_mirror::decode_sync_type(bytes).map(|(m, t)| (m, t.to_vec()));
            if let Some((mut msg, tail)) = request {
                if let SyncType::Poll { request } = &mut msg {
                    match request {
                        RequestMsg::SyncRequest { session_id, commands, max_bytes, .. } => match k {
                            8 => *session_id ^= u128::from(a) + 1,
                            9 => *max_bytes = u64::from(b),
                            10 | 11 => {
                                if !commands.is_empty() {
                                    let i = a as usize % commands.len();
                                    commands[i].max_cut = MaxCut::new(commands[i].max_cut.get().wrapping_add(u64::from(b % 7) + 1));
                                }
                            }
                            12 | 13 => {
                                if !commands.is_empty() {
                                    let i = a as usize % commands.len();
                                    let cur = commands[i].id;
                                    commands[i].id = other_id(g, b, &cur);
                                }
                            }
                            14 => commands.clear(),
                            _ => {
                                let sid = *session_id;
                                *request = if b % 2 == 0 {
                                    RequestMsg::SyncResume { session_id: sid, response_index: u64::from(a), max_bytes: 0 }
                                } else {
                                    RequestMsg::RequestMissing { session_id: sid, indexes: vec![u64::from(a)] }
                                };
                            }
                        },
                        _ => {}
                    }
                }
                *bytes = wire_mirror::encode_sync_type(&msg, &tail);
                return;
            }
            if len > 0 {
                let i = a as usize % len;
                bytes[i] ^= 0x80;
            }
        }
    }
}
