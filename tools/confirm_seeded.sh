#!/bin/bash
# usage: confirm_seeded.sh <id> <crate> "<extra cargo test args for crate tests>" "<demo cargo test args>"
# Confirms, in the sub-agent's scratch worktree /tmp/wt-<id>, that the change compiles, the crate's
# existing tests pass with it, and the demonstration fails with it and passes without it.
ID="$1"; CRATE="$2"; CRATEARGS="$3"; DEMOARGS="$4"
W=/tmp/wt-$ID
export CARGO_TARGET_DIR=$W/target CARGO_NET_OFFLINE=true
cd $W || exit 2
git reset -q --hard && git clean -fdq -e OUT -e target
git apply OUT/patch.diff || { echo "CONFIRM $ID patch-does-not-apply"; exit 1; }
cargo test -q -p $CRATE --offline $CRATEARGS > OUT/confirm-existing.log 2>&1; e1=$?
if [ -f OUT/demo.diff ]; then git apply OUT/demo.diff 2>/dev/null || git apply --3way OUT/demo.diff 2>/dev/null || echo "demo.diff did not apply"; fi
cargo test -q -p $CRATE --offline $DEMOARGS > OUT/confirm-demo-with.log 2>&1; e2=$?
git apply -R OUT/patch.diff || echo "reverse failed"
cargo test -q -p $CRATE --offline $DEMOARGS > OUT/confirm-demo-without.log 2>&1; e3=$?
echo "CONFIRM $ID existing-tests-with-change=$e1 (want 0) demo-with-change=$e2 (want !=0) demo-without-change=$e3 (want 0)"
grep -E "test result|running [0-9]+ test" OUT/confirm-demo-with.log | head -3
grep -E "test result|running [0-9]+ test" OUT/confirm-demo-without.log | head -3
