#!/bin/bash
# usage: try_seeded.sh <patch file> <property id> [check args...]
# Applies a seeded change to /repo, runs the check (evidence to a scratch file), always reverts.
P="$1"; ID="$2"; shift 2
cd /repo || exit 2
git diff --quiet || { echo "repo dirty"; exit 2; }
git apply "$P" || { echo "patch does not apply"; exit 2; }
trap 'git -C /repo checkout -- .' EXIT
/verif/check "$ID" --tier quick --evidence /tmp/try-$ID.json "$@" 2>&1 | grep -v "^warning\|^ *|\|^ *-->\|^ *=\|^$" | tail -25
echo "exit=${PIPESTATUS[0]}"
