#!/bin/bash
# usage: keep_seeded.sh <seeded id, e.g. C15b> <property> <breaks> <needs> <detected_by> <confirm log>
ID="$1"; PROP="$2"; BREAKS="$3"; NEEDS="$4"; DET="$5"; CLOG="$6"
D=/verif/seeded/$ID; mkdir -p $D
cp /tmp/wt-$ID/OUT/patch.diff /tmp/wt-$ID/OUT/demo.diff /tmp/wt-$ID/OUT/NOTES.md $D/
grep -E "CONFIRM|test result|running [0-9]+ test" "$CLOG" > $D/confirm.log
python3 - "$D/meta.json" "$PROP" "$BREAKS" "$NEEDS" "$DET" "$ID" <<'PY'
import json,sys
out,prop,breaks,needs,det,sid=sys.argv[1:7]
json.dump({"property":prop,"breaks":breaks,"needs":needs,"detected_by":det,
 "source":"independent sub-agent (round 2) given only the property text, a one-line note of the round-1 idea to avoid, and a scratch worktree",
 "confirmed":f"tools/confirm_seeded.sh {sid} (existing tests pass with the change; demo fails with, passes without): see confirm.log"},open(out,"w"),indent=1)
PY
echo kept $D
