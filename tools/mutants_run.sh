#!/bin/bash
# usage: tools/mutants_run.sh <engine> <property> <tier-or-runs-args...> -- <mutant ids...>
# Runs each /verif/mutants/<id>.diff through tools/mutant.sh and prints one result line per mutant.
ENGINE="$1"; PROP="$2"; shift 2
ARGS=()
while [ $# -gt 0 ] && [ "$1" != "--" ]; do ARGS+=("$1"); shift; done
shift
for m in "$@"; do
  out=$(/verif/tools/mutant.sh /verif/mutants/$m.diff "$ENGINE" --property "$PROP" "${ARGS[@]}" --evidence /tmp/vmut/ev-$m.json 2>&1)
  code=$(echo "$out" | grep -o "exit=[0-9]*" | tail -1)
  cls=$(echo "$out" | grep -m2 "class=" | sed 's/ seed=[0-9]*//' | cut -c1-220 | tr '\n' '|')
  echo "RESULT $m $PROP $code $cls"
done
