#!/usr/bin/env python3
"""Generates /verif/MANIFEST.json from one table so it stays consistent."""
import json, subprocess

def sh(cmd):
    return subprocess.run(cmd, shell=True, capture_output=True, text=True).stdout.strip()

hook_commits = [l.split()[0] for l in sh("git -C /repo log --format='%H %s' f707aae..HEAD").splitlines() if " verif hook:" in " " + l.split(" ", 1)[1] or l.split(" ", 1)[1].startswith("verif hook:")]

DAG = "dagsim"
dag_note = ("Trusted: the reference model in /verif/sim/dagsim/src/model.rs (pure-graph braid, flat fact map, shadow of committed sets) and the "
            "DagPolicy command semantics shared by policy and model. Real code: aranya-runtime client/transaction/braiding/storage/sync. "
            "Stubs: network, policy (Rust DagPolicy instead of the VM), sink, spill; memory IoManager unless file-backed (then the real FileManager over a simulated disk below aranya-libc's system calls). Every batch is split between two builds of the repository: shipped constants, and small spill/compaction/prealloc constants (cfg aranya_verif_knobs) plus the low-mem-usage sync limits. Sampled search: a clean batch is evidence, not proof.")
def dag(pid, technique, text):
    return dict(property_id=pid, engine=DAG, technique=technique, text=text, note=dag_note, design=f"DESIGN.md section 5 ({pid})")

checks = [
 dag("C01", "deterministic cluster simulation: seeded delivery histories (permutation, batching, commit points, sync topology, loss/dup/reorder) over the real runtime; replica-vs-replica state comparison keyed by committed set", "Seeded search over delivery histories; whenever two replicas (or one replica twice) hold the same committed set their head sets, fact dumps and hello heads are compared."),
 dag("C02", "deterministic simulation: policy-side evaluation log of every braid compared with a pure-graph reference braid; loop fuel turns non-termination into a replayable violation; injected spill errors", "Every braid the runtime performs (multi-head commit, merge ingest, collapse) is compared command by command with the reference braid: once each, after ancestors, merges never evaluated."),
 dag("C03", "deterministic simulation: committed fact state and every in-braid perspective compared with a storage-independent reference braid (frontier, min (priority,id), stop at one strand)", "State after every commit/merge equals eval(braid(H)) of the model; perspectives handed to the policy inside braids are dumped and compared."),
 dag("C04", "deterministic simulation: actions on multi-head replicas reached by simulated sync; query view vs action view vs advertised hello head", "For every action on a committed multi-head graph: fact-cache dump == perspective the action sees == model; hello_head == address of the collapse merge; no effects from the collapse."),
 dag("C05", "deterministic simulation: finalize commands placed anywhere by seeded generation; model decides concurrency of finalize commands from the global DAG", "ParallelFinalize must be returned exactly when the model finds two causally unordered finalize commands in the braid; state unchanged on failure."),
 dag("C06", "deterministic simulation with adversarial ingest: write-then-fail commands at every batch position, transaction kept in use afterwards; effects transcript checked", "Rejected commands leave no trace, earlier accepted commands still commit, children of rejected commands get NoSuchParent, effects rolled back."),
 dag("C07", "deterministic simulation: actions (multi-command, failing at every position, on single- and multi-head replicas reached by simulated sync) against the model; head set, fact dump and effect transcript compared before/after", "Success: exactly one new head above every previous head, all published commands present in order, facts and committed effects equal the model. Failure: heads, facts and commit stamp unchanged, no effect committed, nothing dangling. Two stages: the runtime's action path (client.rs, transaction.rs) under the Rust DagPolicy in dagsim, and the real compiler + VM + VmPolicy publish loop (vm_policy.rs) in vmsim with actions failing by rejected check, recall, VM panic in policy/seal/action body and Err return at every position; evidence of both stages is merged."),
 dag("C08", "deterministic simulation: several open transactions and actions interleaved on one replica by a seeded scheduler; shadow commit counter decides ConcurrentTransaction", "Commit must fail with ConcurrentTransaction iff another commit happened since the transaction first read the heads; committed set is monotone; failed commits change nothing."),
 dag("C09", "deterministic simulation: head set compared with the frontier of the shadow committed set after every commit/action, under duplicates, deep parents, merges of non-tips, flushes", "Heads strictly ascending by id and equal to the model frontier; init reachable."),
 dag("C10", "deterministic simulation with adversarial first commands and init-shaped commands at every batch position", "Graph creation only from a parentless first command with the graph id and a policy; foreign init rejected; own init re-delivery is a no-op."),
 dag("C11", "deterministic simulation: get_location / is_ancestor answers compared with the global DAG for all pairs (small graphs) or samples, with read errors placed inside lookups on file-backed replicas (may fail, never answer wrongly) and lookups repeated on the live storage after a commit failed with an injected disk error", "Lookup finds exactly committed commands at a location holding that id; is_ancestor equals proper ancestry in the model."),
 dag("C12", "deterministic simulation: committed fact indexes and every perspective handed to the policy dumped (prefix + exact) and compared with a flat map model", "Exact and prefix queries, ordering, tombstones, compaction and mid-segment reconstruction checked at the moment each perspective is used."),
 dag("C13", "deterministic simulation: revert reached through origin rejection of write-then-fail commands and failed session operations; later reads compared with the model", "State after a revert equals the model in which the failed operation never happened."),
 dag("C14", "deterministic simulation: session histories (actions, receives, failing operations, garbled messages) against a base+overlay map model", "Session view == committed facts overlaid with session writes; failed operations leave no change; graph heads/facts never change."),
 dag("C16", "deterministic simulation: complete undisturbed sync sessions over the simulated transport and a quiescence phase with bounded rounds", "Each undisturbed session delivers at least one command the requester lacked; bidirectional sync until silence converges within a bound. One cause-specific known finding (requester ahead of the peer by more than the sample window with no cache entry)."),
 dag("C17", "deterministic simulation: responder output (poll responses and subscription pushes) observed through a mirror of the wire format; small receive buffers injected with retry on the same responder", "Sent commands are committed at the responder, indexes increase by one, sessions end, clean in-order responses are always addable. Pushes (start_session from the peer-cache heads, one push message, receive_push, add, commit, cache update): every pushed command is committed at the publisher, every parent is pushed earlier or covered by the cache heads the session started from, an untouched push is accepted and addable when the cache is truthful, also after a BufferTooSmall retry."),
 dag("C18", "deterministic simulation with transport corruption: byte-level and field-aware mutations, truncation, misdelivery, duplication of poll, response, push, subscribe, unsubscribe and hello messages of live replicas under catch_unwind", "No panic on any delivered buffer in SyncIncoming::decode, responder.receive, requester.receive / receive_push, update_heads on a subscription sample, should_sync_on_hello on a damaged notification; command and policy slices inside the buffer; a requester accepts only its own session and the next index (also for pushes: wrong session, replayed push, non-zero first index)."),
 dag("C19", "deterministic simulation: hello decisions evaluated between arbitrary replica pairs reached by sync, actions and lazy merges", "'No sync' implies committed(peer) subset of committed(self), also right after a commit that failed with an injected disk error; equal head sets give equal hello heads; a replica without the graph always syncs."),
 dag("C15", "deterministic simulation with crash injection: real FileManager/Writer/Reader of storage/linear/libc on a simulated disk below aranya-libc's system calls (page cache vs durable image, sector-atomic order-respecting loss of un-synced writes, torn multi-sector writes, lost length extension, EINTR, short I/O, EIO, ENOSPC, crash inside any system call, crash during the first commit after a recovery) plus crash-state exploration: at every fsync/fdatasync inside a commit up to 3 crash images are reopened with a fresh FileManager", "After every crash and reopen the replica must expose the last completed commit or a commit that was in progress (heads = frontier of that command set; all commands, ancestry answers and facts readable and equal to the model), or an error only when no commit had completed; the run then continues on the recovered store under all other oracles."),
 dag("C21", "deterministic simulation with an in-situ refinement monitor: every traversal-queue operation performed by searches, braids and sync during simulated runs is reported by a guarded hook with the queue's logical pre-state; each transition and each drain callback is checked against the documented rules transcribed over multisets", "Pop removes an entry of highest max cut; push keeps one entry per segment with the highest cut and the documented covered/uncovered merge; cover_up_to arithmetic; drain_above/drain_all remove exactly the entries above the threshold and hand exactly the uncovered ones to the callback. Only operation sequences the real callers produce are explored."),
 dag("C20", "deterministic simulation: peer-cache invariants after every update plus an exact delta rule per recorded address, including bogus and uncommitted addresses, subscription samples recorded with update_heads, caches updated after pushed commits, and read errors placed inside updates on file-backed replicas", "At most ten entries, each committed locally at the recorded location, pairwise non-ancestors; update rule exact."),
]

def simple(pid, engine, technique, text, note, design):
    return dict(property_id=pid, engine=engine, technique=technique, text=text, note=note, design=design)

checks += [
 simple("C45", "kssim", "deterministic simulation: seeded operation histories (<= 4 ids; entry/insert/get/remove/drop/reopen/clone; keys that are real wrapped keys, sequences of small items, or ONE text / bytes item of 0..64 KiB biased to buffer and length-prefix boundaries; keys whose encoding fails half way) on the real MemStore and fs Store against a BTreeMap model; restart is the fault; ddmin replay",
        "Every observation of both stores equals the map model step by step; reopen shows the same contents.",
        "Sequential histories only; no mid-operation crash or I/O fault below the fs store (it calls rustix directly, no seam). Real directory on the real file system.", "DESIGN.md section 7"),
 simple("C33", "mirisim", "Miri as the simulator: seeded clone/read/hash/convert/drop workloads over shared heap Text on 2-3 threads, one schedule per Miri seed (pre-emption, weak memory, race/UAF/leak detection)",
        "Any Miri error (data race, use-after-free, double free, leak) on a seeded schedule is a violation with (workload, seed) replay.",
        "Sampled schedules (64 quick / 1024 thorough), <= 3 threads; trusts Miri's memory model.", "DESIGN.md section 6 (C33)"),
]


AFC_NOTE = "Trusted: shuttle 0.9.3 as the scheduler (sequentially consistent interleavings at the granularity of the hook points placed before every atomic operation, lock, futex call and list mutation), the simulated futex, and the per-property reference models in /verif/sim/afcsim/src. Real code: aranya-fast-channels Client, shm::{ReadState,WriteState} on real POSIX shared memory, memory::State, the crate's futex Mutex, Lender/Loan, real aranya-crypto AFC keys. Weak-memory effects are outside shuttle's reach for the shared-memory tables. Sampled search: a clean batch is evidence, not proof."
def afc(pid, technique, text):
    return dict(property_id=pid, engine="afcsim", technique=technique, text=text, note=AFC_NOTE, design=f"DESIGN.md section 6 ({pid})")
checks += [
 afc("C39", "deterministic simulation of a lossy, corrupting transport between two real AFC clients: seeded truncation to every length, bit flips, extension, duplication, reordering, delivery to another channel or label; copying and in-place interfaces under catch_unwind", "Intact deliveries open to the sealed plaintext, label and sequence number; everything else returns an error without panicking and leaves the output buffer zeroed."),
 afc("C40", "deterministic simulation: shuttle-scheduled reader and writer threads over the real shared-memory state (seeded random and PCT schedules, injected seal failures, concurrent add/remove forcing cache invalidation); history check of sequence numbers per seal context", "Successful seals of one context carry 0,1,2,... and open at the peer with that number; the in-memory state never lends a second live seal context."),
 afc("C41", "deterministic simulation: shuttle-scheduled writer and clients over both state implementations; real-time order by global event number (removal return precedes operation invoke)", "An operation that starts after a removal returned fails with not-found on a removed channel; surviving channels keep working; removed ids never reappear."),
 afc("C42", "deterministic simulation: shuttle-scheduled single writer and readers over the real shared-memory tables with a set-sequence model (every reader snapshot, and every answer of ReadState::exists, must be explained by a set the writer produced between the call's invoke and return)", "Reader-visible tables are writer-produced sets; both copies agree at writer quiescence; ids never reused; out-of-space exactly when full."),
 afc("C43", "deterministic simulation: 2-3 shuttle-scheduled threads on the real sys_lock/sys_unlock paths with a simulated futex that injects spurious wake-ups and wake-before-wait orders; deadlock and step-bound detection by the scheduler", "Never two holders; no deadlock or starvation within the step bound on any explored schedule."),
 afc("C44", "deterministic simulation: shuttle-scheduled threads racing lend, access through the loan, removal and drops in every order on the real Lender/Loan (exported under the guard) and through memory::State; drop-counting payload", "At most one live loan; access fails after the entry is removed; the shared data is dropped exactly once after both sides are gone."),
]


VM_NOTE = "Trusted: the fact-store / action model in /verif/sim/vmsim/src/model.rs and the policy text generated from the same tables. Real code: aranya-policy-lang parser, aranya-policy-compiler, aranya-policy-vm Machine, aranya-runtime VmPolicy + VmPolicyIO + ClientState + linear storage (memory IoManager) + sync. Stubs: envelope FFI (TestFfiEnvelope, no signatures), network (messages moved by the harness, no faults in this engine), effect sink, seeded Csprng. The quantifier 'all fact schemas' is covered by one fixed family of schemas (int, bool, string, enum keys; 1-3 key fields). Sampled search: a clean batch is evidence, not proof."
checks += [
 dict(property_id="C29", engine="vmsim", technique="deterministic simulation: seeded histories of create/update/delete/upsert commands and reporter commands (query, exists, count_up_to, at_least, at_most, exactly) and map actions, compiled by the real policy compiler and executed by the real VM on 1-3 replicas with sync and merges; effects and committed facts compared with a typed fact-store model", text="Every reporter effect, every map iteration order, every refusal and the committed facts after every action and sync equal the model.", note=VM_NOTE, design="DESIGN.md section 5 (C29), 13"),
]
for c in checks:
    if c["property_id"] == "C07":
        c["note"] = c["note"] + " VM stage: " + VM_NOTE


AUTH_NOTE = 'Trusted: the shadow of sealed commands and the byte-level classification (honest / forged in a bound field / outcome undetermined) in /verif/sim/authsim/src. Real code: policy parser, compiler, VM, VmPolicy, aranya-crypto DefaultEngine (seeded Csprng), crypto/device/envelope/idam/perspective FFIs, in-memory key store, ClientState, linear storage, sync requester/responder, on the signing policy shipped in aranya-model (ffi-policy.md, verbatim). Stubs: transport (one explicit mutation per sync response), effect sink. Mutations whose outcome the statement does not determine (parent max cut, priority, trailing bytes, policy bytes, unsigned merge-shaped commands) are counted, not asserted. One recorded known finding (merge-parent re-parenting accepted). Sampled search: a clean batch is evidence, not proof.'
checks += [
 dict(property_id="C35", engine="authsim", technique="deterministic simulation with field-aware transport corruption: 2-4 replicas running the real signing policy and crypto exchange honest commands while the simulated transport mutates sync responses (payload, command name, author, signature, id, parent, re-parenting, swaps between honest commands, replays, injection, byte flips, truncation); shadow of every sealed command decides accept/reject; quiescence convergence", text="A delivered command is accepted iff it is byte-identical to an honestly sealed command; any change to a bound field is rejected with nothing stored, no fact, effects rolled back; rejected forgeries do not poison later honest syncs.", note=AUTH_NOTE, design="DESIGN.md section 5 (C35), 13"),
]

# Properties served by engines that are not finished yet are listed here and moved to `checks` when ready.
pending = {
}

na = {
 "C22": "pure function of (program, arguments): no schedule, clock, I/O, fault or second party; seeded input generation would be property-based testing, not simulation",
 "C23": "property of compiled control flow of a program; no nondeterminism to simulate",
 "C24": "quantifies over programs only; deterministic",
 "C25": "quantifies over instruction sequences; the VM is single-threaded and deterministic",
 "C26": "pure codec",
 "C27": "pure function of text / AST",
 "C28": "pure; the only nondeterminism candidate (hash-map order) is not something a simulator schedules",
 "C30": "quantifies over generated programs; deterministic",
 "C31": "one process, deterministic exit code from input files",
 "C32": "pure constructors and decoders",
 "C34": "pure cryptographic function (its use by the runtime is C35)",
 "C36": "pure",
 "C37": "pure",
 "C38": "pure derivation",
 "C46": "pure",
 "C47": "pure function of (buffer size, fragments)",
}
na.update(pending)

import os, sys
extra = os.path.join(os.path.dirname(__file__), "manifest_extra.json")
if os.path.exists(extra):
    e = json.load(open(extra))
    checks += e.get("checks", [])
    for k, v in e.get("not_applicable", {}).items():
        na[k] = v

claimed = {c["property_id"] for c in checks}
for k in list(na):
    if k in claimed:
        del na[k]
all_ids = [json.loads(l)["id"] for l in open("/verif/properties.jsonl")]
for i in all_ids:
    if i not in claimed and i not in na:
        na[i] = "not built: the designed check (DESIGN.md) is not finished; nothing is claimed for this property"

manifest = {
 "version": 1,
 "setup_cmd": "/verif/setup.sh",
 "hooks": {
   "guard": "--cfg aranya_verif (plus --cfg aranya_verif_knobs for shrunken spill/compaction constants)",
   "enable": "RUSTFLAGS='--cfg aranya_verif' set by /verif/sim/.cargo/config.toml; engines depend on /repo/crates/* by path so every check rebuilds from the working tree",
   "baseline_off_cmd": "cd /repo && cargo test --workspace --no-fail-fast --offline",
   "source_commits": hook_commits[::-1],
   "add_only": True,
 },
 "engines": [
   {"name": "dagsim", "path": "/verif/sim/dagsim", "serves_properties": sorted(c["property_id"] for c in checks if c["engine"] == "dagsim"), "kind_free_text": "discrete-event cluster simulator over the real aranya-runtime with simulated network, disk, policy and a reference model"},
   {"name": "kssim", "path": "/verif/sim/kssim", "serves_properties": ["C45"], "kind_free_text": "key-store history simulator with reopen as the fault"},
   {"name": "mirisim", "path": "/verif/sim/mirisim", "serves_properties": ["C33"], "kind_free_text": "Miri many-seeds as deterministic thread scheduler with UB detection"},
   {"name": "afcsim", "path": "/verif/sim/afcsim", "serves_properties": sorted(c["property_id"] for c in checks if c["engine"] == "afcsim"), "kind_free_text": "shuttle-scheduled threads over the real AFC shared-memory structures with simulated futex"},
   {"name": "vmsim", "path": "/verif/sim/vmsim", "serves_properties": sorted(c["property_id"] for c in checks if c["engine"] == "vmsim"), "kind_free_text": "cluster simulator whose replicas run the real policy VM"},
 ],
 "checks": [
   {
     "property_id": c["property_id"],
     "quick_cmd": f"/verif/check {c['property_id']} --tier quick",
     "thorough_cmd": f"/verif/check {c['property_id']} --tier thorough",
     "evidence_file": f"/verif/evidence/{c['property_id']}.json",
     "replay_cmd_template": f"/verif/check {c['property_id']} --replay {{path}}",
     "engine": c["engine"],
     "level_claimed": {"category": c.get("category", "exploration"), "text": c["text"], "design_ref": c["design"]},
     "level_note": c["note"],
     "technique": c["technique"],
   } for c in sorted(checks, key=lambda c: c["property_id"])
 ],
 "notes": "Technique family: deterministic simulation with fault injection. Default seed is fixed (VERIF_SEED overrides). Exit 2 = harness error. Known findings: /verif/known-findings.txt.",
 "not_applicable": [{"property_id": k, "reason": v} for k, v in sorted(na.items())],
}
json.dump(manifest, open("/verif/MANIFEST.json", "w"), indent=1)
print("checks:", len(manifest["checks"]), "not_applicable:", len(manifest["not_applicable"]), "hook commits:", len(hook_commits))
