#!/usr/bin/env python3
"""merge_evidence.py <out.json> <stage-name=part.json> ...  Combine the evidence files of the stages
of one check into one file: counts are summed, each stage's coverage is kept under coverage.stages."""
import json, sys
out = sys.argv[1]
parts = []
for a in sys.argv[2:]:
    name, path = a.split("=", 1)
    parts.append((name, json.load(open(path))))
base = json.loads(json.dumps(parts[0][1]))
cov = {"evaluations": 0, "distinct_nontrivial": 0, "samples": [], "stages": {}}
rules = []
for name, e in parts:
    c = e.get("coverage", {})
    cov["evaluations"] += c.get("evaluations", 0)
    cov["distinct_nontrivial"] += c.get("distinct_nontrivial", 0)
    cov["samples"] += c.get("samples", [])[:2]
    rules.append(f"[{name}] {c.get('rule', '')}")
    cov["stages"][name] = {k: v for k, v in c.items() if k not in ("samples",)}
cov["rule"] = " ".join(rules) + " Distinct non-trivial counts of the stages are disjoint (different engines) and are added."
base["coverage"] = cov
base["wall_s"] = sum(e.get("wall_s", 0) for _, e in parts)
base["violations"] = sum(e.get("violations", 0) for _, e in parts)
base["assumptions"] = sorted({a for _, e in parts for a in e.get("assumptions", [])})
json.dump(base, open(out, "w"), indent=1)
